-------------------------------- MODULE AvlMC --------------------------------
(* All insertion histories of at most MaxN intervals from a small universe  *)
(* into the AVL machine: balance, ordering, augmentation, height bound and  *)
(* Find(q) = Overlaps(q) as bags for every query of the universe.           *)
(* With EmitOn every transition is printed as a behaviour (ACTION_CONSTRAINT)*)
(* for replay into the real IntervalTree (spec -> impl transition cover).   *)
EXTENDS IntervalIndex, TLC, Json
CONSTANTS Starts, Widths, MaxN, EmitOn

VARIABLES tree, bag, hist
vars == <<tree, bag, hist>>
view == tree
RECURSIVE Sig(_)
Sig(t) == IF IsNil(t) THEN << >> ELSE << <<t.s, t.e>> >> \o <<Sig(t.l)>> \o <<Sig(t.r)>>
shapeview == Sig(tree)    \* generation: one representative history per tree shape

Init == tree = NIL /\ bag = << >> /\ hist = << >>
Insert(s, wd) ==
    /\ Len(bag) < MaxN
    /\ tree' = Ins(tree, s, s + wd, Len(bag))
    /\ bag' = Append(bag, [s |-> s, e |-> s + wd, d |-> Len(bag)])
    /\ hist' = Append(hist, <<s, s + wd>>)
Next == \E s \in Starts, wd \in Widths : Insert(s, wd)
Spec == Init /\ [][Next]_vars

Lo == CHOOSE x \in Starts : \A y \in Starts : x <= y
Hi == (CHOOSE x \in Starts : \A y \in Starts : x >= y) + (CHOOSE x \in Widths : \A y \in Widths : x >= y)
Queries == {q \in ((Lo - 1)..(Hi + 1)) \X ((Lo - 1)..(Hi + 1)) : q[1] < q[2]}

PruneSafe  == AvlPruneSafe(tree) /\ TrueBalanced(tree)
Shape      == Balanced(tree) /\ Ordered(tree) /\ Augmented(tree) /\ HeightBound(tree)
Complete   == SameBag(Nodes(tree), bag)
FindExact  == \A q \in Queries : SameBag(Find(tree, q[1], q[2]), Overlaps(bag, q[1], q[2]))
RoundTrip  == IsNil(tree) \/ FromShape(PreOrder(tree))[1] = tree     \* the hook's encoding is lossless

\* closed form of the overlap set of an arithmetic family (used by the trace spec for huge trees)
BigLoM(a, w, qs) == Max2(0, (IF qs - w >= 0 THEN (qs - w) \div a ELSE -(((-(qs - w)) + a - 1) \div a)) + 1)
BigHiM(n, a, qe) == Min2(n - 1, (IF qe <= 0 THEN -((-qe) \div a) ELSE (qe + a - 1) \div a) - 1)
BigOverlapLemma ==
    IsNil(tree) =>      \* evaluated once (initial state)
    \A n \in 1..6, a \in 1..3, ww \in 1..4, qs \in -3..14, qe \in -3..15 :
        qs < qe =>
        {i \in 0..(n - 1) : Ovl(a * i, a * i + ww, qs, qe)}
          = {i \in 0..(n - 1) : BigLoM(a, ww, qs) <= i /\ i <= BigHiM(n, a, qe)}

EmitT == EmitOn => PrintT(<<"BEH", ToJson([ins |-> hist'])>>)
=============================================================================
