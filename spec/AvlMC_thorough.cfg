CONSTANTS
  Starts = {1, 2, 3, 4}
  Widths = {1, 2}
  MaxN = 6
  EmitOn = FALSE
SPECIFICATION Spec
VIEW view
INVARIANTS BigOverlapLemma PruneSafe Shape Complete FindExact RoundTrip
CHECK_DEADLOCK FALSE
