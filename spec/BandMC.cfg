CONSTANTS
  Sym = {1, 2}
  MaxLen = 2
  Gaps <- MC_Gaps
  Subst <- MC_Subst
  Clips <- MC_Clips
SPECIFICATION Spec
INVARIANTS Sound ExactWhenFull
CHECK_DEADLOCK FALSE
