------------------------------- MODULE BandMC -------------------------------
(* Design statement behind C02: the clip-state column DP restricted to ANY  *)
(* band (a row range per column; cells outside are unreachable; starting    *)
(* and ending is only possible inside the band) never exceeds the unbanded  *)
(* optimum, and equals it when the band is the whole matrix. One action per *)
(* column; all inputs over Sym up to MaxLen, all bands, scheme grid.        *)
EXTENDS Alignment, TLC
CONSTANTS Sym, MaxLen, Gaps, Subst, Clips

VARIABLES x, y, sc, band, j, col, best
vars == <<x, y, sc, band, j, col, best>>

MC_Gaps == {<<0, -1>>, <<-3, 0>>, <<-1, -1>>}
MC_Subst == {<<1, -1>>}
MC_Clips == {MIN_SCORE, 0}
MC_Clips3 == {MIN_SCORE, 0, -2}
MC_Subst2 == {<<1, -1>>, <<2, -2>>}

Strings(lo, hi) == UNION {[1..n -> Sym] : n \in lo..hi}
STab(s) == [a \in Sym |-> [b \in Sym |-> IF a = b THEN s[1] ELSE s[2]]]
Ranges(m) == {r \in (0..m) \X (0..m) : r[1] <= r[2]} \cup {<<1, 0>>}     \* <<1,0>> = empty column

Init ==
    /\ x \in Strings(0, MaxLen) /\ y \in Strings(0, MaxLen)
    /\ \E g \in Gaps, s \in Subst, c1 \in Clips, c2 \in Clips, c3 \in Clips, c4 \in Clips :
         sc = [S |-> STab(s), go |-> g[1], ge |-> g[2], xp |-> c1, xs |-> c2, yp |-> c3, ys |-> c4]
    /\ band \in [0..Len(y) -> Ranges(Len(x))]
    /\ j = 0 /\ col = << >> /\ best = NEG

InBand(i, jj) == band[jj][1] <= i /\ i <= band[jj][2]

RECURSIVE BColFill(_, _, _, _, _)
BColFill(yj, prev, cur, i, jj) ==
    IF i > Len(x) THEN cur
    ELSE BColFill(yj, prev,
                  Append(cur, IF InBand(i, jj) THEN Cell(x, yj, sc, prev, cur, i, jj) ELSE <<NEG, NEG, NEG>>),
                  i + 1, jj)
RECURSIVE BColBest(_, _, _)
BColBest(c, jj, i) ==
    IF i > Len(x) THEN NEG
    ELSE Max2(IF InBand(i, jj) THEN Plus(c[i + 1][1], EndCost(sc, Len(x), Len(y), i, jj)) ELSE NEG,
              BColBest(c, jj, i + 1))

ColumnStep ==
    /\ j <= Len(y)
    /\ LET c == BColFill(IF j = 0 THEN 0 ELSE y[j], col, << >>, 0, j)
       IN  col' = c /\ best' = Max2(best, BColBest(c, j, 0))
    /\ j' = j + 1
    /\ UNCHANGED <<x, y, sc, band>>
Next == ColumnStep
Spec == Init /\ [][Next]_vars

FullBand == \A jj \in 0..Len(y) : band[jj] = <<0, Len(x)>>
Sound == j = Len(y) + 1 => best <= BestClip(x, y, sc)
ExactWhenFull == (j = Len(y) + 1 /\ FullBand) => best = BestClip(x, y, sc)
=============================================================================
