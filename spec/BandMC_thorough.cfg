CONSTANTS
  Sym = {1, 2}
  MaxLen = 2
  Gaps <- MC_Gaps
  Subst <- MC_Subst2
  Clips <- MC_Clips3
SPECIFICATION Spec
INVARIANTS Sound ExactWhenFull
CHECK_DEADLOCK FALSE
