------------------------------- MODULE Bayes -------------------------------
(***************************************************************************)
(* X04 -- Bayesian models over a finite event universe                     *)
(*   stats::bayesian::model::{Model, ModelInstance}                        *)
(*   stats::bayesian::bayes_factors::{BayesFactor, evidence::KassRaftery}  *)
(*   stats::bayesian::expected_fdr                                         *)
(*                                                                         *)
(* A model is a table: base events 0..K-1 (event e carries the number      *)
(* vals[e+1]), prior pr[e+1] and likelihood lk[dat+1][e+1] in units of     *)
(* 1 / d, posterior events = groups of base events (groups[g+1] = list of  *)
(* base events; the posterior model sums the joint probabilities of the    *)
(* group).  Everything is exact integer arithmetic in units of 1 / d^2.    *)
(*                                                                         *)
(* Definition layer: joint = prior * likelihood; marginal = sum over the   *)
(* set of posterior events of the universe; posterior = joint / marginal;  *)
(* MAP = a base event of maximal joint probability; Kass-Raftery scale as  *)
(* a total function of the rational Bayes factor; expected FDR = mean of   *)
(* the PEPs that are at most the given one.                                *)
(* Machine layer: the hash maps filled by Model::compute (joint_probs,     *)
(* posterior_probs), the cascade of comparisons of evidence_kass_raftery,  *)
(* the sorted running sum of expected_fdr.                                 *)
(***************************************************************************)
EXTENDS Integers, Sequences, FiniteSets, TLC

BAbs(x) == IF x < 0 THEN -x ELSE x
BTolDiv == 8192
BTol(x) == 2 + BAbs(x) \div BTolDiv

RECURSIVE BSumFrom(_, _)
BSumFrom(s, i) == IF i > Len(s) THEN 0 ELSE s[i] + BSumFrom(s, i + 1)
BSumSeq(s) == BSumFrom(s, 1)
RECURSIVE MapSumOver(_, _)
MapSumOver(f, S) == IF S = {} THEN 0 ELSE LET x == CHOOSE y \in S : TRUE IN f[x] + MapSumOver(f, S \ {x})
\* division rounding towards zero (TLA+ floors)
DivT(a, b) == IF a >= 0 THEN a \div b ELSE -((-a) \div b)

\* ======================================================= definition layer
Joint(m, dat, e)  == m.pr[e + 1] * m.lk[dat + 1][e + 1]
GroupOf(m, g)     == m.groups[g + 1]
GroupJoint(m, dat, g) == BSumSeq([j \in 1..Len(GroupOf(m, g)) |-> Joint(m, dat, GroupOf(m, g)[j])])
USet(u)           == {u[i] : i \in 1..Len(u)}
\* the posterior events of a universe form a set: listing one twice changes nothing
RECURSIVE MargOver(_, _, _)
MargOver(m, dat, U) == IF U = {} THEN 0
                       ELSE LET g == CHOOSE x \in U : TRUE IN GroupJoint(m, dat, g) + MargOver(m, dat, U \ {g})
Marginal(m, dat, u) == MargOver(m, dat, USet(u))
\* base events the universe talks about
Touched(m, u) == UNION {{GroupOf(m, g)[j] : j \in 1..Len(GroupOf(m, g))} : g \in USet(u)}
EventOfVal(m, v) == {e \in 0..(Len(m.vals) - 1) : m.vals[e + 1] = v}

\* posterior probability of posterior event g, scaled by s (floor)
PosteriorDef(m, dat, u, g, s) == (GroupJoint(m, dat, g) * s) \div Marginal(m, dat, u)
BasePosteriorDef(m, dat, u, e, s) == (Joint(m, dat, e) * s) \div Marginal(m, dat, u)
IsMAP(m, dat, u, e) == e \in Touched(m, u) /\ \A f \in Touched(m, u) : Joint(m, dat, f) <= Joint(m, dat, e)
\* expectation of the event value under the base-event posteriors
RECURSIVE EvOver(_, _, _)
EvOver(m, dat, E) == IF E = {} THEN 0
                     ELSE LET e == CHOOSE x \in E : TRUE IN m.vals[e + 1] * Joint(m, dat, e) + EvOver(m, dat, E \ {e})
ExpectedDef(m, dat, u, s) == DivT(EvOver(m, dat, Touched(m, u)) * s, Marginal(m, dat, u))
MaxAbsVal(m) == LET A == {BAbs(m.vals[i]) : i \in 1..Len(m.vals)} IN CHOOSE a \in A : \A b \in A : b <= a

\* number of likelihood evaluations: one per listed member of every listed posterior event
CallsDef(m, u) == BSumSeq([i \in 1..Len(u) |-> Len(GroupOf(m, u[i]))])

\* ---- Kass-Raftery scale of a Bayes factor num / den (den > 0): a total function
KRLevel(num, den) ==
    IF num <= den THEN 0 ELSE IF num <= 3 * den THEN 1 ELSE IF num <= 20 * den THEN 2
    ELSE IF num <= 150 * den THEN 3 ELSE 4
KRNames == <<"none", "barely", "positive", "strong", "very-strong">>
KRName(l) == IF l \in 0..4 THEN KRNames[l + 1] ELSE "?"

\* ---- expected FDR: w = PEPs in units of 1 / d.  Rejecting everything with a PEP of at most w[i]
\* rejects the hi smallest; among equal PEPs the code's stable sort gives rank lo + 1 + (earlier equals)
FdrLo(w, i)  == Cardinality({j \in 1..Len(w) : w[j] < w[i]})
FdrHi(w, i)  == Cardinality({j \in 1..Len(w) : w[j] <= w[i]})
FdrSumLess(w, i) == BSumSeq([j \in 1..Len(w) |-> IF w[j] < w[i] THEN w[j] ELSE 0])
\* mean of the `rank` smallest (those below w[i] and rank - lo copies of w[i]), capped at one, scaled
FdrAtRank(w, i, rank, k, s) ==
    LET x == ((FdrSumLess(w, i) + (rank - FdrLo(w, i)) * w[i]) * k) \div rank IN IF x > s THEN s ELSE x
FdrStableRank(w, i) == FdrLo(w, i) + 1 + Cardinality({j \in 1..(i - 1) : w[j] = w[i]})

\* ========================================================== machine layer
\* Model::compute: reg = [jp (base event -> joint), pp (posterior event -> prob), calls, i (cursor in u)]
ComputeInit == [jp |-> << >>, pp |-> << >>, calls |-> 0, i |-> 1]
MapPut(f, key, val) == [x \in (DOMAIN f) \cup {key} |-> IF x = key THEN val ELSE f[x]]
RECURSIVE PutJoints(_, _, _, _, _)
PutJoints(m, dat, grp, j, jp) ==
    IF j > Len(grp) THEN jp ELSE PutJoints(m, dat, grp, j + 1, MapPut(jp, grp[j], Joint(m, dat, grp[j])))
ComputeStep(m, dat, u, reg) ==
    LET g == u[reg.i] IN
    [jp |-> PutJoints(m, dat, GroupOf(m, g), 1, reg.jp),
     pp |-> MapPut(reg.pp, g, GroupJoint(m, dat, g)),
     calls |-> reg.calls + Len(GroupOf(m, g)),
     i |-> reg.i + 1]
MargM(reg) == MapSumOver(reg.pp, DOMAIN reg.pp)

\* evidence_kass_raftery: the cascade, one comparison per step; reg = [lvl, done]
KRThresholds == <<1, 3, 20, 150>>
KRInit == [lvl |-> 0, done |-> FALSE]
KRStep(num, den, reg) ==
    IF reg.lvl = 4 THEN [reg EXCEPT !.done = TRUE]
    ELSE IF num <= KRThresholds[reg.lvl + 1] * den THEN [reg EXCEPT !.done = TRUE]
    ELSE [reg EXCEPT !.lvl = @ + 1]
=============================================================================
