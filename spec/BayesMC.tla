------------------------------ MODULE BayesMC ------------------------------
(***************************************************************************)
(* Exhaustive check of the machine layer of Bayes.tla against its          *)
(* definition layer.  A behaviour picks one task and runs it:              *)
(*   model : K base events with every prior / likelihood table over        *)
(*           0..MaxW, posterior events = every non-empty-or-empty group    *)
(*           listed in Groups, every universe list of length 1..MaxU       *)
(*           (repetitions included): Model::compute, one posterior event   *)
(*           per step, filling the two hash maps;                          *)
(*   kr    : every Bayes factor num / den, num <= MaxNum, den in Dens:     *)
(*           the cascade of evidence_kass_raftery, one comparison a step;  *)
(*   fdr   : every list of PEPs of length 0..FdrLen over 0..FdrOne (units  *)
(*           of 1 / FdrOne): stable sort, then the running sum, one rank   *)
(*           per step.                                                     *)
(***************************************************************************)
EXTENDS Bayes
CONSTANTS K, MaxW, MaxU, MaxNum, Dens, FdrLen, FdrOne

\* posterior events: the singletons, then every pair of neighbours, the whole set and the empty group
Singles == [e \in 1..K |-> <<e - 1>>]
Groups  == Singles \o [e \in 1..(K - 1) |-> <<e - 1, e>>] \o <<[e \in 1..K |-> e - 1], << >>>>
G == Len(Groups)
Tables == [1..K -> 0..MaxW]
ULists == UNION {[1..n -> 0..(G - 1)] : n \in 1..MaxU}
PepLists == UNION {[1..n -> 0..FdrOne] : n \in 0..FdrLen}

VARIABLES task, pc, reg
vars == <<task, pc, reg>>

ModelOf(t) == [pr |-> t.pr, lk |-> <<t.lk>>, groups |-> Groups, vals |-> [e \in 1..K |-> e - 1]]

Init ==
    /\ task \in {[t |-> "model", pr |-> p, lk |-> l, u |-> u] : p \in Tables, l \in Tables, u \in ULists}
                \cup {[t |-> "kr", num |-> n, den |-> d] : n \in 0..MaxNum, d \in Dens}
                \cup {[t |-> "fdr", w |-> w] : w \in PepLists}
    /\ pc = "start" /\ reg = [x |-> 0]

\* ---------------------------------------------------------------- model
M == ModelOf(task)
ModelStart ==
    /\ pc = "start" /\ task.t = "model"
    /\ reg' = ComputeInit /\ pc' = "loop"
    /\ UNCHANGED task
ModelStep ==
    /\ pc = "loop" /\ task.t = "model" /\ reg.i <= Len(task.u)
    /\ reg' = ComputeStep(M, 0, task.u, reg)
    /\ UNCHANGED <<task, pc>>
ModelEnd ==
    /\ pc = "loop" /\ task.t = "model" /\ reg.i > Len(task.u)
    /\ pc' = "done"
    /\ UNCHANGED <<task, reg>>

\* ------------------------------------------------------------------- kr
KrStart ==
    /\ pc = "start" /\ task.t = "kr"
    /\ reg' = KRInit /\ pc' = "loop"
    /\ UNCHANGED task
KrStep ==
    /\ pc = "loop" /\ task.t = "kr" /\ ~reg.done
    /\ reg' = KRStep(task.num, task.den, reg)
    /\ UNCHANGED <<task, pc>>
KrEnd ==
    /\ pc = "loop" /\ task.t = "kr" /\ reg.done
    /\ pc' = "done"
    /\ UNCHANGED <<task, reg>>

\* ------------------------------------------------------------------ fdr
\* stable order of the indices by PEP
RECURSIVE StableOrder(_, _)
StableOrder(w, I) ==
    IF I = {} THEN << >>
    ELSE LET m == CHOOSE i \in I : \A j \in I : w[i] < w[j] \/ (w[i] = w[j] /\ i <= j)
         IN  <<m>> \o StableOrder(w, I \ {m})
Order == StableOrder(task.w, 1..Len(task.w))
FdrStart ==
    /\ pc = "start" /\ task.t = "fdr"
    /\ reg' = [j |-> 1, sum |-> 0, out |-> [i \in 1..Len(task.w) |-> <<0, 1>>]] /\ pc' = "loop"
    /\ UNCHANGED task
FdrStep ==                      \* out[i] = <<numerator, rank>>: the running sum divided by the rank, capped at one
    /\ pc = "loop" /\ task.t = "fdr" /\ reg.j <= Len(task.w)
    /\ LET i == Order[reg.j]
           s == reg.sum + task.w[i]
       IN  reg' = [j |-> reg.j + 1, sum |-> s,
                   out |-> [reg.out EXCEPT ![i] = IF s > FdrOne * reg.j THEN <<FdrOne, 1>> ELSE <<s, reg.j>>]]
    /\ UNCHANGED <<task, pc>>
FdrEnd ==
    /\ pc = "loop" /\ task.t = "fdr" /\ reg.j > Len(task.w)
    /\ pc' = "done"
    /\ UNCHANGED <<task, reg>>

Next == ModelStart \/ ModelStep \/ ModelEnd \/ KrStart \/ KrStep \/ KrEnd \/ FdrStart \/ FdrStep \/ FdrEnd
Spec == Init /\ [][Next]_vars

\* ------------------------------------------------------------ invariants
TypeOK == pc \in {"start", "loop", "done"}

\* after a prefix of the universe: the maps hold exactly what the definition says about that prefix
ModelMeaning ==
    (pc = "loop" /\ task.t = "model") =>
        LET pre == SubSeq(task.u, 1, reg.i - 1) IN
        /\ DOMAIN reg.pp = USet(pre) /\ DOMAIN reg.jp = Touched(M, pre)
        /\ \A g \in DOMAIN reg.pp : reg.pp[g] = GroupJoint(M, 0, g)
        /\ \A e \in DOMAIN reg.jp : reg.jp[e] = Joint(M, 0, e)
        /\ reg.calls = CallsDef(M, pre)
ModelResult ==
    (pc = "done" /\ task.t = "model") =>
        LET mg == Marginal(M, 0, task.u) IN
        /\ MargM(reg) = mg
        /\ DOMAIN reg.pp = USet(task.u) /\ DOMAIN reg.jp = Touched(M, task.u)
        \* posterior = prior * likelihood / marginal: the posteriors of the universe sum to one
        /\ mg > 0 => MapSumOver([g \in USet(task.u) |-> GroupJoint(M, 0, g) * 840], USet(task.u)) = mg * 840
        /\ mg > 0 => \A g \in USet(task.u) :
                        /\ PosteriorDef(M, 0, task.u, g, 840) <= 840
                        /\ PosteriorDef(M, 0, task.u, g, 840) * mg <= GroupJoint(M, 0, g) * 840
                        /\ (PosteriorDef(M, 0, task.u, g, 840) + 1) * mg > GroupJoint(M, 0, g) * 840
        \* the order of the universe list and repetitions in it do not matter
        /\ \A v \in ULists : USet(v) = USet(task.u) => Marginal(M, 0, v) = mg
        \* a MAP event exists whenever an event was looked at, and has maximal base posterior
        /\ Touched(M, task.u) # {} => \E e \in Touched(M, task.u) : IsMAP(M, 0, task.u, e)
        /\ mg > 0 => \A e \in Touched(M, task.u) : IsMAP(M, 0, task.u, e) =>
                        \A f \in Touched(M, task.u) :
                            BasePosteriorDef(M, 0, task.u, f, 840) <= BasePosteriorDef(M, 0, task.u, e, 840)
        \* every base event belongs to a listed group: its joint probability is bounded by the marginal
        /\ \A e \in Touched(M, task.u) : Joint(M, 0, e) <= mg
        \* where the posterior events are the base events, each once, the expectation is a weighted mean
        /\ (mg > 0 /\ \A i \in 1..Len(task.u) : task.u[i] < K /\ \A j \in 1..Len(task.u) : (task.u[i] = task.u[j] => i = j))
              => /\ ExpectedDef(M, 0, task.u, 840) >= 0
                 /\ ExpectedDef(M, 0, task.u, 840) <= (K - 1) * 840

KrMeaning ==
    (pc = "loop" /\ task.t = "kr") =>
        \A l \in 1..reg.lvl : task.num > KRThresholds[l] * task.den
KrResult ==
    (pc = "done" /\ task.t = "kr") =>
        /\ reg.lvl = KRLevel(task.num, task.den)
        /\ reg.lvl \in 0..4 /\ KRName(reg.lvl) \in {KRNames[i] : i \in 1..5}
        \* monotone in the factor, invariant under scaling numerator and denominator
        /\ KRLevel(task.num, task.den) <= KRLevel(task.num + 1, task.den)
        /\ KRLevel(task.num * 2, task.den * 2) = KRLevel(task.num, task.den)
        \* the thresholds belong to the lower class
        /\ \A l \in 1..4 : KRLevel(KRThresholds[l] * task.den, task.den) = l - 1
        /\ \A l \in 1..4 : KRLevel(KRThresholds[l] * task.den + 1, task.den) = l

\* a / b as exact rationals
RatEq(x, y) == x[1] * y[2] = y[1] * x[2]
RatLe(x, y) == x[1] * y[2] <= y[1] * x[2]
FdrRat(w, i, rank) ==
    LET s == FdrSumLess(w, i) + (rank - FdrLo(w, i)) * w[i] IN IF s > FdrOne * rank THEN <<FdrOne, 1>> ELSE <<s, rank>>
FdrMeaning ==
    (pc = "loop" /\ task.t = "fdr") =>
        /\ reg.sum = BSumSeq([x \in 1..(reg.j - 1) |-> task.w[Order[x]]])
        /\ \A x \in 1..(Len(Order) - 1) : task.w[Order[x]] <= task.w[Order[x + 1]]
FdrResult ==
    (pc = "done" /\ task.t = "fdr") =>
        \A i \in 1..Len(task.w) :
            LET w == task.w IN
            \* the machine: the mean of the `stable rank` smallest
            /\ RatEq(reg.out[i], FdrRat(w, i, FdrStableRank(w, i)))
            /\ FdrStableRank(w, i) \in (FdrLo(w, i) + 1)..FdrHi(w, i)
            \* inside a tie the value grows with the rank and ends at the definition (reject everything <= w[i])
            /\ \A rank \in (FdrLo(w, i) + 1)..FdrHi(w, i) : RatLe(FdrRat(w, i, rank), FdrRat(w, i, FdrHi(w, i)))
            /\ (FdrHi(w, i) = FdrLo(w, i) + 1) => RatEq(reg.out[i], FdrRat(w, i, FdrHi(w, i)))
            \* an FDR never exceeds the PEP it belongs to, and is monotone in the PEP
            /\ RatLe(FdrRat(w, i, FdrHi(w, i)), <<w[i], 1>>)
            /\ \A j \in 1..Len(w) : w[i] <= w[j] => RatLe(FdrRat(w, i, FdrHi(w, i)), FdrRat(w, j, FdrHi(w, j)))
            \* the scaled integer form used by the trace specification is the floor of the rational
            /\ LET x == FdrAtRank(w, i, FdrStableRank(w, i), 210, 210 * FdrOne) IN
               x * reg.out[i][2] <= reg.out[i][1] * 210 /\ (x + 1) * reg.out[i][2] > reg.out[i][1] * 210

Rank == (CASE pc = "start" -> 0 [] pc = "loop" -> 1 [] OTHER -> 2) * 1000
        + (IF pc = "loop" /\ task.t = "model" THEN reg.i ELSE 0)
        + (IF pc = "loop" /\ task.t = "kr" THEN reg.lvl + (IF reg.done THEN 10 ELSE 0) ELSE 0)
        + (IF pc = "loop" /\ task.t = "fdr" THEN reg.j ELSE 0)
Progress == [][Rank' > Rank]_vars
NoStall  == pc # "done" => ENABLED Next
=============================================================================
