CONSTANTS
  K = 3
  MaxW = 2
  MaxU = 2
  MaxNum = 620
  Dens = {1, 4}
  FdrLen = 5
  FdrOne = 3
SPECIFICATION Spec
INVARIANTS TypeOK ModelMeaning ModelResult KrMeaning KrResult FdrMeaning FdrResult NoStall
PROPERTY Progress
CHECK_DEADLOCK FALSE
