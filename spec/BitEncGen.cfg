CONSTANTS
  B = 32
  Widths = {1, 2, 3, 4, 5, 6, 7, 8}
  Values = {1, 255}
  MaxSteps = 2
  NChoices <- GenN
  SetChoices <- GenSet
  EmitOn = TRUE
SPECIFICATION Spec
INVARIANTS Refines NoPaddingBits Emit
CHECK_DEADLOCK FALSE
