CONSTANTS
  B = 8
  Widths = {1, 2, 3}
  Values = {0, 1, 5, 8}
  MaxSteps = 3
  NChoices <- AllN
  SetChoices <- AllSet
  EmitOn = FALSE
SPECIFICATION Spec
VIEW view
INVARIANTS Refines NoPaddingBits
CHECK_DEADLOCK FALSE
