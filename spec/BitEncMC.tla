------------------------------ MODULE BitEncMC ------------------------------
(* BitEnc machine (blocks, masked read-modify-write, push_values in three   *)
(* phases) refines a plain vector of width-masked values: all histories of  *)
(* at most MaxSteps operations, block size B, all widths in Widths.         *)
(*                                                                         *)
(* Two uses (two cfg files):                                                *)
(*  * BitEncMC.cfg     small block size, all values incl. over-wide ones,   *)
(*                     `hist` hidden by a VIEW: exhaustive design check.    *)
(*  * BitEncGen*.cfg   the REAL block size 32 and real widths 1..8 with a   *)
(*                     boundary-focused choice of n and i; every complete   *)
(*                     history is printed as a JSON behaviour (Emit) and    *)
(*                     replayed into the real BitEnc (spec -> impl).        *)
EXTENDS Packed, TLC, Json
CONSTANTS B, Widths, Values, MaxSteps, NChoices(_), SetChoices(_, _), EmitOn

VARIABLES w, storage, len, vec, steps, hist
vars == <<w, storage, len, vec, steps, hist>>
view == <<w, storage, len, vec, steps>>

Init == w \in Widths /\ storage = << >> /\ len = 0 /\ vec = << >> /\ steps = 0 /\ hist = << >>

Push(v) ==
    /\ storage' = BEPush(storage, len, B, w, v)
    /\ len' = len + 1
    /\ vec' = Append(vec, Masked(v, w))
    /\ hist' = Append(hist, <<"push", v>>)
    /\ steps' = steps + 1 /\ UNCHANGED w

PushValues(n, v) ==
    /\ LET r == BEPushValues(storage, len, B, w, n, v)
       IN  storage' = r[1] /\ len' = r[2]
    /\ vec' = VecPushValues(vec, n, Masked(v, w))
    /\ hist' = Append(hist, <<"push_values", n, v>>)
    /\ steps' = steps + 1 /\ UNCHANGED w

Set(i, v) ==
    /\ i < len
    /\ storage' = BESet(storage, B, w, i, v)
    /\ vec' = [vec EXCEPT ![i + 1] = Masked(v, w)]
    /\ hist' = Append(hist, <<"set", i, v>>)
    /\ steps' = steps + 1 /\ UNCHANGED <<w, len>>

Clear ==
    /\ storage' = << >> /\ len' = 0 /\ vec' = << >>
    /\ hist' = Append(hist, <<"clear">>)
    /\ steps' = steps + 1 /\ UNCHANGED w

Next ==
    /\ steps < MaxSteps
    /\ \/ \E v \in Values : Push(v)
       \/ \E n \in NChoices(w), v \in Values : PushValues(n, v)
       \/ \E i \in SetChoices(w, len), v \in Values : Set(i, v)
       \/ Clear
Spec == Init /\ [][Next]_vars

Refines ==
    /\ len = Len(vec)
    /\ Len(storage) = BlocksFor(len, B, w)
    /\ Decode(storage, len, B, w) = vec
NoPaddingBits == \A b \in 1..Len(storage) : \A x \in storage[b] : x < Usable(B, w)

\* spec -> impl: one line per complete history
Emit == (EmitOn /\ steps = MaxSteps) => PrintT(<<"BEH", ToJson([w |-> w, ops |-> hist])>>)

\* ---- operator choices for the cfg files
AllN(ww)        == 0..5
AllSet(ww, l)   == 0..(l - 1)
VPB(ww)         == PerBlock(B, ww)
\* n around 0, one block, two blocks; i at the block seams
GenN(ww)        == {0, 1, 2, VPB(ww) - 1, VPB(ww), VPB(ww) + 1, 2 * VPB(ww), 2 * VPB(ww) + 1}
GenSet(ww, l)   == {0, VPB(ww) - 1, VPB(ww), l - 1} \cap 0..(l - 1)
=============================================================================
