CONSTANTS
  B = 8
  Widths = {1, 2, 3, 4}
  Values = {0, 1, 5, 8, 15}
  MaxSteps = 4
  NChoices <- AllN
  SetChoices <- AllSet
  EmitOn = FALSE
SPECIFICATION Spec
VIEW view
INVARIANTS Refines NoPaddingBits
CHECK_DEADLOCK FALSE
