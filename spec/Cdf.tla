-------------------------------- MODULE Cdf --------------------------------
(***************************************************************************)
(* X04 -- discrete distributions as cumulative distribution functions      *)
(*   stats::probs::cdf::{Entry, CDF}            (src/stats/probs/cdf.rs)   *)
(*   stats::probs::adaptive_integration::ln_integrate_exp                  *)
(*                                                                         *)
(* Probabilities are integers: a weight w stands for w / One (the trace    *)
(* specification uses One = 2^20 and dyadic inputs, so every exact value   *)
(* is an integer; the model checker uses One = 8).  The code works in      *)
(* log space with an approximate exponential (FastExp, relative error      *)
(* about 1e-5 per addition); the accuracy demanded from a recorded         *)
(* probability x is the named tolerance Tol(x) below.                      *)
(*                                                                         *)
(* Definition layer: a pmf is a sequence of <<value, weight>> pairs (any   *)
(* order, values may repeat, weights may be zero); CdfDef is the textbook  *)
(* cumulative distribution function (sum over the pmf entries with value   *)
(* <= x); every query is stated on it.                                     *)
(* Abstract state of a CDF object: sequence of [v, c] entries, values      *)
(* strictly increasing, c = cumulative weight (non-decreasing).            *)
(* Machine layer: the loops of the code (merge loop of from_pmf with its   *)
(* running register, `last` register of reduce, stride loop of sample,     *)
(* binary searches, running maximum of map).                               *)
(***************************************************************************)
EXTENDS Integers, Sequences, FiniteSets, TLC

Min2(x, y) == IF x <= y THEN x ELSE y
Max2(x, y) == IF x >= y THEN x ELSE y
Abs(x) == IF x < 0 THEN -x ELSE x

\* ---------------------------------------------------------------- tolerance
\* accuracy demanded from a recorded probability whose exact value (or the cumulative value it was
\* derived from) is x: two quanta of the projection plus 1.2e-4 of x
TolDiv == 8192
Tol(x) == 2 + Abs(x) \div TolDiv
Near(obs, exact, ref) == Abs(obs - exact) <= Tol(ref)

\* ---------------------------------------------------------------- helpers
RECURSIVE SumFrom(_, _)
SumFrom(s, i) == IF i > Len(s) THEN 0 ELSE s[i] + SumFrom(s, i + 1)
SumSeq(s) == SumFrom(s, 1)

RECURSIVE SortedSeq(_)
SortedSeq(S) == IF S = {} THEN << >>
                ELSE LET m == CHOOSE x \in S : \A y \in S : x <= y
                     IN  <<m>> \o SortedSeq(S \ {m})
\* the entries of st at the index set I, in order
SubSeqBy(st, I) == LET ord == SortedSeq(I) IN [j \in 1..Len(ord) |-> st[ord[j]]]

\* ======================================================= definition layer
\* pmf p: p[i][1] = value, p[i][2] = weight
PmfValues(p) == {p[i][1] : i \in 1..Len(p)}
MassAt(p, x) == SumSeq([i \in 1..Len(p) |-> IF p[i][1] = x THEN p[i][2] ELSE 0])
MassLe(p, x) == SumSeq([i \in 1..Len(p) |-> IF p[i][1] <= x THEN p[i][2] ELSE 0])
MassAll(p)   == SumSeq([i \in 1..Len(p) |-> p[i][2]])

\* the CDF of a pmf: one entry per distinct value, ascending, carrying the mass at or below it
CdfDef(p) == LET vs == SortedSeq(PmfValues(p))
             IN  [i \in 1..Len(vs) |-> [v |-> vs[i], c |-> MassLe(p, vs[i])]]
\* from_cdf takes the entries as they are (pairs <<value, cumulative weight>>)
CdfOfPairs(e) == [i \in 1..Len(e) |-> [v |-> e[i][1], c |-> e[i][2]]]
ScalePmf(p, k) == [i \in 1..Len(p) |-> <<p[i][1], p[i][2] * k>>]

\* well-formed state: values strictly increasing, cumulative weights non-decreasing and >= 0
WellFormed(st) ==
    /\ \A i \in 1..Len(st) : st[i].c >= 0
    /\ \A i \in 1..(Len(st) - 1) : st[i].v < st[i + 1].v /\ st[i].c <= st[i + 1].c

Pmf(st, i)   == st[i].c - (IF i = 1 THEN 0 ELSE st[i - 1].c)
IdxOf(st, x) == {i \in 1..Len(st) : st[i].v = x}
IdxLe(st, x) == {i \in 1..Len(st) : st[i].v <= x}

\* get: cumulative probability at x = mass of the support points <= x (step function)
GetDef(st, x)    == LET I == IdxLe(st, x) IN IF I = {} THEN 0 ELSE st[Cardinality(I)].c
\* get_pmf: probability mass at x; zero where x is not a support point
GetPmfDef(st, x) == LET I == IdxOf(st, x) IN IF I = {} THEN 0 ELSE Pmf(st, CHOOSE i \in I : TRUE)
TotalDef(st)     == IF Len(st) = 0 THEN 0 ELSE st[Len(st)].c
PmfSeqDef(st)    == [i \in 1..Len(st) |-> Pmf(st, i)]

\* reduce: the support points that carry mass
ReduceDef(st) == SubSeqBy(st, {i \in 1..Len(st) : Pmf(st, i) > 0})

\* map: a support point of maximal mass (slack t(i, j) for recorded runs, 0 in the model checker)
MaxMass(st) == LET M == {Pmf(st, i) : i \in 1..Len(st)} IN CHOOSE m \in M : \A y \in M : y <= m
IsMode(st, x, tolOn) ==
    \E i \in IdxOf(st, x) : \A j \in 1..Len(st) :
        Pmf(st, j) <= Pmf(st, i) + (IF tolOn THEN Tol(st[i].c) + Tol(st[j].c) ELSE 0)

\* credible interval of width wn / wd: the lower end is a support point whose cumulative probability is
\* at most (1 - w) / 2 while the next one reaches it (the first support point if none is below), the
\* upper end is a support point whose cumulative probability reaches 1 - (1 - w) / 2 while the one
\* before does not exceed it (the last support point if none reaches it)
PLower(one, wn, wd) == (one * (wd - wn)) \div (2 * wd)
PUpper(one, wn, wd) == one - PLower(one, wn, wd)
LowerOK(st, L, pl, t) ==
    /\ L \in 1..Len(st)
    /\ (L = 1 \/ st[L].c <= pl + t)
    /\ (L = Len(st) \/ st[L + 1].c >= pl - t)
UpperOK(st, U, pu, t) ==
    /\ U \in 1..Len(st)
    /\ (U = Len(st) \/ st[U].c >= pu - t)
    /\ (U = 1 \/ st[U - 1].c <= pu + t)
CredibleOK(st, one, wn, wd, lo, hi, tolOn) ==
    LET pl == PLower(one, wn, wd)
        pu == PUpper(one, wn, wd)
        t  == IF tolOn THEN Tol(one) ELSE 0
    IN  /\ \E L \in IdxOf(st, lo) : LowerOK(st, L, pl, t)
        /\ \E U \in IdxOf(st, hi) : UpperOK(st, U, pu, t)

\* sample(n): fewer entries, nothing invented, the total kept
IsSubSeq(out, st) ==
    /\ \A i \in 1..Len(out) : \E j \in 1..Len(st) : out[i] = st[j]
    /\ \A i \in 1..(Len(out) - 1) : out[i].v < out[i + 1].v
SampleOK(st, n, out) ==
    IF Len(st) <= n THEN out = st
    ELSE /\ IsSubSeq(out, st)
         /\ Len(out) <= n
         /\ Len(out) >= 1 /\ out[Len(out)] = st[Len(st)]

\* moments (weights in units of 1 / d):  E = EvNum / d,  Var = VarNum / d^3
EvNum(st)     == SumSeq([i \in 1..Len(st) |-> st[i].v * Pmf(st, i)])
VarNum(st, d) == LET e == EvNum(st) IN SumSeq([i \in 1..Len(st) |-> (st[i].v * d - e) * (st[i].v * d - e) * Pmf(st, i)])

\* ========================================================== machine layer
\* ---- from_pmf: stable sort by value, then one pass with the running cumulative register
RECURSIVE InsertSorted(_, _)
InsertSorted(s, e) ==          \* insert behind every entry with value <= e's value (stable)
    IF Len(s) = 0 THEN <<e>>
    ELSE IF s[Len(s)][1] <= e[1] THEN Append(s, e)
    ELSE Append(InsertSorted(SubSeq(s, 1, Len(s) - 1), e), s[Len(s)])
RECURSIVE SortPmfFrom(_, _, _)
SortPmfFrom(p, i, acc) == IF i > Len(p) THEN acc ELSE SortPmfFrom(p, i + 1, InsertSorted(acc, p[i]))
SortPmf(p) == SortPmfFrom(p, 1, << >>)

\* one iteration of `for mut e in entries`: reg = [inner, i]
FromPmfInit == [inner |-> << >>, i |-> 1]
FromPmfStep(sorted, reg) ==
    LET e    == sorted[reg.i]
        n    == Len(reg.inner)
        last == IF n = 0 THEN 0 ELSE reg.inner[n].c
        p    == last + e[2]
    IN  IF n > 0 /\ reg.inner[n].v = e[1]
        THEN [inner |-> [reg.inner EXCEPT ![n].c = p], i |-> reg.i + 1]
        ELSE [inner |-> Append(reg.inner, [v |-> e[1], c |-> p]), i |-> reg.i + 1]
\* cap_numerical_overshoot: values above One (within epsilon) become One; exact arithmetic never overshoots
CapM(st, one) == [i \in 1..Len(st) |-> [v |-> st[i].v, c |-> Min2(st[i].c, one)]]

\* ---- reduce: reg = [inner, last, i]; `last` starts at zero probability
ReduceInit == [inner |-> << >>, last |-> 0, i |-> 1]
ReduceStep(st, reg) ==
    IF reg.last # st[reg.i].c
    THEN [inner |-> Append(reg.inner, st[reg.i]), last |-> st[reg.i].c, i |-> reg.i + 1]
    ELSE [reg EXCEPT !.i = @ + 1]

\* ---- sample: stride over all entries but the last, then the last
SampleStride(len, n) == (len + n - 3) \div (n - 1)          \* ceil((len - 1) / (n - 1))
SampleInit == [inner |-> << >>, i |-> 1]
SampleStep(st, s, reg) == [inner |-> Append(reg.inner, st[reg.i]), i |-> reg.i + s]
SampleM(st, n) ==
    IF Len(st) <= n THEN st
    ELSE LET s == SampleStride(Len(st), n)
         IN  SubSeqBy(st, {i \in 1..(Len(st) - 1) : (i - 1) % s = 0} \cup {Len(st)})

\* ---- binary search over a sorted key sequence: reg = [lo, hi] (half-open, 1-based lo..hi-1), one
\* probe per step; any probe hitting an equal key may end the search (duplicates: any of them)
BsInit(n) == [lo |-> 1, hi |-> n + 1, found |-> 0]
BsDone(reg) == reg.found # 0 \/ reg.lo >= reg.hi
BsStep(keys, target, reg) ==
    LET mid == (reg.lo + reg.hi) \div 2
    IN  IF keys[mid] = target THEN [reg EXCEPT !.found = mid]
        ELSE IF keys[mid] < target THEN [reg EXCEPT !.lo = mid + 1]
        ELSE [reg EXCEPT !.hi = mid]
\* result: Ok(i) = [ok |-> TRUE, i], Err(i) = insertion point (number of smaller keys + 1)
BsResult(reg) == IF reg.found # 0 THEN [ok |-> TRUE, i |-> reg.found] ELSE [ok |-> FALSE, i |-> reg.lo]

GetM(st, res)    == IF res.ok THEN st[res.i].c ELSE IF res.i > 1 THEN st[res.i - 1].c ELSE 0
GetPmfM(st, res) == IF res.ok THEN Pmf(st, res.i) ELSE 0
CredLowerM(res)      == IF res.ok THEN res.i ELSE IF res.i > 1 THEN res.i - 1 ELSE 1
CredUpperM(res, len) == IF res.i = len + 1 THEN len ELSE res.i

\* ---- map: running maximum, later entries win ties
MapInit == [best |-> 1, i |-> 1]
MapStep(st, reg) == [best |-> IF Pmf(st, reg.i) >= Pmf(st, reg.best) THEN reg.i ELSE reg.best, i |-> reg.i + 1]

\* =========================================== adaptive integration (definition)
\* density linear between knots <<x, y>> (x in units of 1 / den, y in units of 1 / hd): twice the area
\* in units of 1 / (den * hd); the trapezoid rule is exact on any grid that contains the knots
TwiceArea(knots) == SumSeq([i \in 1..(Len(knots) - 1) |->
                       (knots[i + 1][1] - knots[i][1]) * (knots[i][2] + knots[i + 1][2])])
IntegTolDiv == 4096
IntegTol(x) == 2 + Abs(x) \div IntegTolDiv
\* a density symmetric about its mode: three knots, slopes of equal size and opposite sign.  The maximum
\* search keeps the mode inside the current window, so the mode ends up in a grid cell narrower than the
\* resolution r; every other cell is integrated exactly, the cell of the mode loses at most
\* slope * r^2 / 4 (the triangle cut off by the chord).
IsPeak(k) == /\ Len(k) = 3 /\ k[1][1] < k[2][1] /\ k[2][1] < k[3][1]
             /\ k[2][2] > k[1][2] /\ k[2][2] > k[3][2]
             /\ (k[2][2] - k[1][2]) * (k[3][1] - k[2][1]) = (k[2][2] - k[3][2]) * (k[2][1] - k[1][1])
OnFirstGridPoint(k) == Len(k) = 3 /\ 2 * k[2][1] = k[1][1] + k[3][1]
\* slope * r^2 / 4 in units of 1 / s: slope = (dy / hd) / (dx / den), r = rnum / rden
PeakSlack(k, den, hd, rnum, rden, s) ==
    (s * (k[2][2] - k[1][2]) * den * rnum * rnum) \div (4 * hd * (k[2][1] - k[1][1]) * rden * rden) + 1

\* ---- machine layer of ln_integrate_exp on an integer lattice (points are lattice indices, F the density):
\* the halving loop that looks for the maximum; reg = [l, r, mid, first, seen]
IntInit(lo, hi) == [l |-> lo, r |-> hi, mid |-> -1, first |-> -1, seen |-> {lo, hi}]
IntCont(reg, res) == (reg.r - reg.l >= res /\ reg.l < reg.r) \/ reg.mid = -1
IntStep(F(_), reg) ==
    LET m == (reg.l + reg.r) \div 2
        goLeft == F(reg.l) > F(reg.r)
    IN  [l |-> IF goLeft THEN reg.l ELSE m, r |-> IF goLeft THEN m ELSE reg.r, mid |-> m,
         first |-> IF reg.first = -1 THEN m ELSE reg.first, seen |-> reg.seen \cup {m}]
\* the extra point in the arm the first step abandoned
IntArmPoint(lo, hi, reg) == IF reg.mid < reg.first THEN (reg.first + hi) \div 2 ELSE (lo + reg.first) \div 2
\* twice the trapezoid sum of F over the grid G (a set of lattice points)
Trap2(F(_), G) == LET g == SortedSeq(G) IN SumSeq([i \in 1..(Len(g) - 1) |-> (g[i + 1] - g[i]) * (F(g[i]) + F(g[i + 1]))])
=============================================================================
