CONSTANTS
  MaxLen = 3
  MaxVal = 2
  MaxW = 2
  One = 8
  WD = 4
  SampLen = 12
  SampN = 6
SPECIFICATION Spec
INVARIANTS TypeOK SortMeaning BuildMeaning BuildResult GetResult GetPmfResult MapMeaning MapResult ReduceMeaning ReduceResult CredResult SampleOnPmf SampleResult NoStall
PROPERTY Progress
CHECK_DEADLOCK FALSE
