------------------------------- MODULE CdfMC -------------------------------
(***************************************************************************)
(* Exhaustive check of the machine layer of Cdf.tla against its            *)
(* definition layer.  A behaviour picks a pmf (every sequence of length    *)
(* 0..MaxLen of <<value, weight>> pairs over 0..MaxVal x 0..MaxW), runs    *)
(* the loop of from_pmf (stable sort, then one entry per step), and then   *)
(* one operation with every argument: get / get_pmf (binary search, one    *)
(* probe per step), map (running maximum), reduce (one entry per step),    *)
(* credible_interval (two binary searches over the cumulative values,      *)
(* which may repeat: any hit may end the search), sample.  A second kind   *)
(* of behaviour runs the stride loop of sample on every length             *)
(* 0..SampLen with every n in 2..SampN.  A third kind runs the maximum     *)
(* search of ln_integrate_exp on the lattice 0..IntW for every mode c,     *)
(* every slope in IntSlopes and every resolution in IntRes (lattice units, *)
(* even, so that every midpoint is a lattice point).                       *)
(* Weights are in units of 1 / One.                                        *)
(***************************************************************************)
EXTENDS Cdf
CONSTANTS MaxLen, MaxVal, MaxW, One, WD, SampLen, SampN, IntW, IntRes, IntSlopes

Pairs == (0..MaxVal) \X (0..MaxW)
Pmfs  == UNION {[1..n -> Pairs] : n \in 0..MaxLen}
Xs    == (-1)..(MaxVal + 1)

VARIABLES task, pc, st, reg, op, out
vars == <<task, pc, st, reg, op, out>>
\* task: [t |-> "pmf", p] or [t |-> "sample", len, n];  st: the CDF object;  reg: loop registers;
\* op: the operation chosen after construction;  out: its result

Ramp(len) == [i \in 1..len |-> [v |-> i, c |-> i]]
NoOp == [o |-> "none"]

Init ==
    /\ task \in {[t |-> "pmf", p |-> p] : p \in Pmfs}
                \cup {[t |-> "sample", len |-> l, n |-> n] : l \in 0..SampLen, n \in 2..SampN}
                \cup {[t |-> "integ", c |-> c, res |-> r, sl |-> sl] : c \in 0..IntW, r \in IntRes, sl \in IntSlopes}
    /\ (task.t = "pmf" => MassAll(task.p) <= One)
    /\ pc = "start" /\ st = << >> /\ reg = [x |-> 0] /\ op = NoOp /\ out = 0

\* ----------------------------------------------------------- from_pmf
Sorted == SortPmf(task.p)
BuildStart ==
    /\ pc = "start" /\ task.t = "pmf"
    /\ reg' = FromPmfInit /\ pc' = "build"
    /\ UNCHANGED <<task, st, op, out>>
BuildStep ==
    /\ pc = "build" /\ reg.i <= Len(Sorted)
    /\ reg' = FromPmfStep(Sorted, reg)
    /\ UNCHANGED <<task, pc, st, op, out>>
BuildEnd ==
    /\ pc = "build" /\ reg.i > Len(Sorted)
    /\ st' = CapM(reg.inner, One) /\ pc' = "built"
    /\ UNCHANGED <<task, reg, op, out>>

\* ------------------------------------------------- choose an operation
Ops == {[o |-> "get", x |-> x] : x \in Xs} \cup {[o |-> "get_pmf", x |-> x] : x \in Xs}
       \cup {[o |-> "map"], [o |-> "reduce"]}
       \cup {[o |-> "cred", wn |-> w] : w \in 0..WD}
       \cup {[o |-> "sample", n |-> n] : n \in 2..3}
Choose ==
    /\ pc = "built"
    /\ \E o \in Ops :
         /\ op' = o
         /\ CASE o.o \in {"get", "get_pmf"} ->
                   IF Len(st) = 0 THEN pc' = "done" /\ out' = -1 /\ UNCHANGED reg
                   ELSE pc' = "search" /\ reg' = BsInit(Len(st)) /\ UNCHANGED out
              [] o.o = "map" ->
                   IF Len(st) = 0 THEN pc' = "done" /\ out' = -1 /\ UNCHANGED reg
                   ELSE pc' = "map" /\ reg' = MapInit /\ UNCHANGED out
              [] o.o = "reduce" -> pc' = "reduce" /\ reg' = ReduceInit /\ UNCHANGED out
              [] o.o = "cred" ->
                   IF Len(st) = 0 THEN pc' = "done" /\ out' = -1 /\ UNCHANGED reg
                   ELSE pc' = "lower" /\ reg' = BsInit(Len(st)) /\ UNCHANGED out
              [] o.o = "sample" -> pc' = "done" /\ out' = SampleM(st, o.n) /\ UNCHANGED reg
    /\ UNCHANGED <<task, st>>

\* -------------------------------------------------------- get / get_pmf
ValKeys == [i \in 1..Len(st) |-> st[i].v]
CumKeys == [i \in 1..Len(st) |-> st[i].c]
SearchStep ==
    /\ pc = "search" /\ ~BsDone(reg)
    /\ reg' = BsStep(ValKeys, op.x, reg)
    /\ UNCHANGED <<task, pc, st, op, out>>
SearchEnd ==
    /\ pc = "search" /\ BsDone(reg)
    /\ out' = IF op.o = "get" THEN GetM(st, BsResult(reg)) ELSE GetPmfM(st, BsResult(reg))
    /\ pc' = "done"
    /\ UNCHANGED <<task, st, reg, op>>

\* ------------------------------------------------------------------ map
MapLoop ==
    /\ pc = "map" /\ reg.i <= Len(st)
    /\ reg' = MapStep(st, reg)
    /\ UNCHANGED <<task, pc, st, op, out>>
MapEnd ==
    /\ pc = "map" /\ reg.i > Len(st)
    /\ out' = st[reg.best].v /\ pc' = "done"
    /\ UNCHANGED <<task, st, reg, op>>

\* --------------------------------------------------------------- reduce
ReduceLoop ==
    /\ pc = "reduce" /\ reg.i <= Len(st)
    /\ reg' = ReduceStep(st, reg)
    /\ UNCHANGED <<task, pc, st, op, out>>
ReduceEnd ==
    /\ pc = "reduce" /\ reg.i > Len(st)
    /\ out' = reg.inner /\ pc' = "done"
    /\ UNCHANGED <<task, st, reg, op>>

\* ---------------------------------------------------- credible_interval
PL == PLower(One, op.wn, WD)
PU == PUpper(One, op.wn, WD)
LowerStep ==
    /\ pc = "lower" /\ ~BsDone(reg)
    /\ reg' = BsStep(CumKeys, PL, reg)
    /\ UNCHANGED <<task, pc, st, op, out>>
LowerEnd ==
    /\ pc = "lower" /\ BsDone(reg)
    /\ out' = [lo |-> CredLowerM(BsResult(reg))]
    /\ pc' = "upper" /\ reg' = BsInit(Len(st))
    /\ UNCHANGED <<task, st, op>>
UpperStep ==
    /\ pc = "upper" /\ ~BsDone(reg)
    /\ reg' = BsStep(CumKeys, PU, reg)
    /\ UNCHANGED <<task, pc, st, op, out>>
UpperEnd ==
    /\ pc = "upper" /\ BsDone(reg)
    /\ out' = [lo |-> out.lo, hi |-> CredUpperM(BsResult(reg), Len(st))]
    /\ pc' = "done"
    /\ UNCHANGED <<task, st, reg, op>>

\* --------------------------------------------- sample, the stride loop
SampStart ==
    /\ pc = "start" /\ task.t = "sample"
    /\ st' = Ramp(task.len)
    /\ IF task.len <= task.n THEN pc' = "done" /\ out' = Ramp(task.len) /\ UNCHANGED reg
       ELSE pc' = "stride" /\ reg' = SampleInit /\ UNCHANGED out
    /\ UNCHANGED <<task, op>>
Stride == SampleStride(task.len, task.n)
SampLoop ==                                  \* step_by over the entries before the last one
    /\ pc = "stride" /\ reg.i <= task.len - 1
    /\ reg' = SampleStep(st, Stride, reg)
    /\ UNCHANGED <<task, pc, st, op, out>>
SampEnd ==
    /\ pc = "stride" /\ reg.i > task.len - 1
    /\ out' = Append(reg.inner, st[task.len]) /\ pc' = "done"
    /\ UNCHANGED <<task, st, reg, op>>

\* ------------------------------- ln_integrate_exp, the maximum search
\* density symmetric about the mode task.c, positive on the whole lattice
Dens(x) == task.sl * IntW + 1 - task.sl * Abs(x - task.c)
IntStart ==
    /\ pc = "start" /\ task.t = "integ"
    /\ reg' = IntInit(0, IntW) /\ pc' = "halve"
    /\ UNCHANGED <<task, st, op, out>>
IntLoop ==
    /\ pc = "halve" /\ IntCont(reg, task.res)
    /\ reg' = IntStep(Dens, reg)
    /\ UNCHANGED <<task, pc, st, op, out>>
IntEnd ==                                    \* the grid so far plus the point in the abandoned arm
    /\ pc = "halve" /\ ~IntCont(reg, task.res)
    /\ out' = reg.seen \cup {IntArmPoint(0, IntW, reg)} /\ pc' = "done"
    /\ UNCHANGED <<task, st, reg, op>>

Next == IntStart \/ IntLoop \/ IntEnd \/ BuildStart \/ BuildStep \/ BuildEnd \/ Choose \/ SearchStep \/ SearchEnd \/ MapLoop \/ MapEnd
        \/ ReduceLoop \/ ReduceEnd \/ LowerStep \/ LowerEnd \/ UpperStep \/ UpperEnd
        \/ SampStart \/ SampLoop \/ SampEnd
Spec == Init /\ [][Next]_vars

\* ------------------------------------------------------------ invariants
TypeOK == pc \in {"start", "build", "built", "search", "map", "reduce", "lower", "upper", "stride", "halve", "done"}

\* the merge loop: after consuming a prefix of the sorted entries the register is the CDF of that prefix
BuildMeaning ==
    pc = "build" => reg.inner = CdfDef(SubSeq(Sorted, 1, reg.i - 1))
\* from_pmf = the definition; cumulative values are monotone; the step function is the mass at or below x
BuildResult ==
    (task.t = "pmf" /\ pc \notin {"start", "build"}) =>
        /\ st = CdfDef(task.p)
        /\ WellFormed(st)
        /\ TotalDef(st) = MassAll(task.p) /\ TotalDef(st) <= One
        /\ \A x \in Xs : GetDef(st, x) = MassLe(task.p, x) /\ GetPmfDef(st, x) = MassAt(task.p, x)
        /\ Len(st) = Cardinality(PmfValues(task.p))
\* sorting is a stable permutation ordered by value
SortMeaning ==
    task.t = "pmf" =>
        /\ Len(Sorted) = Len(task.p)
        /\ \A i \in 1..(Len(Sorted) - 1) : Sorted[i][1] <= Sorted[i + 1][1]
        /\ \A pr \in Pairs : Cardinality({i \in 1..Len(Sorted) : Sorted[i] = pr})
                               = Cardinality({i \in 1..Len(task.p) : task.p[i] = pr})

GetResult ==
    (pc = "done" /\ op.o = "get") => out = (IF Len(st) = 0 THEN -1 ELSE GetDef(st, op.x))
GetPmfResult ==
    (pc = "done" /\ op.o = "get_pmf") => out = (IF Len(st) = 0 THEN -1 ELSE GetPmfDef(st, op.x))
MapMeaning ==
    pc = "map" => \A j \in 1..(reg.i - 1) : Pmf(st, j) <= Pmf(st, reg.best)
MapResult ==
    (pc = "done" /\ op.o = "map") =>
        IF Len(st) = 0 THEN out = -1
        ELSE IsMode(st, out, FALSE) /\ GetPmfDef(st, out) = MaxMass(st)
ReduceMeaning ==
    pc = "reduce" => reg.inner = ReduceDef(SubSeq(st, 1, reg.i - 1))
\* reduce: the entries carrying mass; total mass and the whole step function are preserved; idempotent
ReduceResult ==
    (pc = "done" /\ op.o = "reduce") =>
        /\ out = ReduceDef(st)
        /\ IsSubSeq(out, st) /\ WellFormed(out)
        /\ TotalDef(out) = TotalDef(st)
        /\ \A x \in Xs : GetDef(out, x) = GetDef(st, x) /\ GetPmfDef(out, x) = GetPmfDef(st, x)
        /\ \A i \in 1..Len(out) : Pmf(out, i) > 0
        /\ ReduceDef(out) = out
\* credible interval: both ends satisfy the quantile inequalities whichever duplicate the search hits;
\* for a normalised distribution the closed interval [lo, hi] carries at least the requested mass
CredResult ==
    (pc = "done" /\ op.o = "cred") =>
        IF Len(st) = 0 THEN out = -1
        ELSE /\ LowerOK(st, out.lo, PL, 0) /\ UpperOK(st, out.hi, PU, 0)
             /\ CredibleOK(st, One, op.wn, WD, st[out.lo].v, st[out.hi].v, FALSE)
             /\ TotalDef(st) = One =>
                   (st[out.hi].c - (IF out.lo = 1 THEN 0 ELSE st[out.lo - 1].c)) * WD >= One * op.wn
SampleOnPmf ==
    (pc = "done" /\ op.o = "sample") => SampleOK(st, op.n, out) /\ TotalDef(out) = TotalDef(st)
\* sample: the stride loop = SampleM; only removes entries, keeps the first and the last one, at most n
SampleResult ==
    (pc = "done" /\ task.t = "sample") =>
        /\ out = SampleM(st, task.n)
        /\ SampleOK(st, task.n, out)
        /\ IsSubSeq(out, st)
        /\ TotalDef(out) = TotalDef(st)
        /\ Len(out) <= Max2(task.n, 0) \/ Len(st) <= task.n
        /\ task.len > task.n => (out[1] = st[1] /\ Len(out) >= 2)
        \* as many entries as a uniform stride allows: one entry less would need a wider stride
        /\ task.len > task.n => (Len(out) - 1) * Stride >= task.len - 1

\* the halving loop keeps the mode inside the window and every midpoint on the lattice
IntMeaning ==
    pc = "halve" =>
        /\ reg.l <= task.c /\ task.c <= reg.r /\ {reg.l, reg.r} \subseteq reg.seen
        /\ IntCont(reg, task.res) => (reg.l + reg.r) % 2 = 0
\* at the end the mode lies in a cell narrower than the resolution; on every grid between the points visited
\* and the whole lattice the trapezoid sum falls short of the area by exactly slope * (distances of the mode
\* to its two grid neighbours), which is at most slope * res^2 / 4
IntArea2 == Trap2(Dens, {0, task.c, IntW})
IntResult ==
    (pc = "done" /\ task.t = "integ") =>
        /\ {0, IntW} \subseteq out /\ out \subseteq 0..IntW
        /\ reg.r - reg.l < task.res /\ reg.l <= task.c /\ task.c <= reg.r /\ {reg.l, reg.r} \subseteq out
        /\ \A extra \in SUBSET ((0..IntW) \ out) :
              LET g  == out \cup extra
                  lo == CHOOSE x \in g : x <= task.c /\ \A y \in g : y <= task.c => y <= x
                  hi == CHOOSE x \in g : x >= task.c /\ \A y \in g : y >= task.c => x <= y
              IN  /\ IntArea2 - Trap2(Dens, g) = 2 * task.sl * (task.c - lo) * (hi - task.c)
                  /\ 4 * (IntArea2 - Trap2(Dens, g)) <= 2 * task.sl * task.res * task.res
                  /\ Trap2(Dens, g) <= IntArea2
\* a density that is linear on the whole interval, or has its only knot at the first midpoint, is integrated
\* exactly on every grid that contains the end points (and that midpoint)
LinDens(x) == 3 + 2 * x
TentDens(x) == IF 2 * x <= IntW THEN 1 + 3 * x ELSE 1 + 3 * (IntW \div 2) - (x - IntW \div 2)
IntExactLemma ==
    (pc = "done" /\ task.t = "integ") =>
        /\ Trap2(LinDens, out) = Trap2(LinDens, {0, IntW})
        /\ (IntW \div 2) \in out
        /\ Trap2(TentDens, out) = Trap2(TentDens, {0, IntW \div 2, IntW})

Rank == (CASE pc = "start" -> 0 [] pc = "build" -> 1 [] pc = "built" -> 2
           [] pc \in {"search", "map", "reduce", "lower", "stride", "halve"} -> 3 [] pc = "upper" -> 4 [] OTHER -> 5) * 1000
        + (IF pc \in {"build", "map", "reduce", "stride"} THEN reg.i ELSE 0)
        + (IF pc = "halve" THEN Cardinality(reg.seen) ELSE 0)
        + (IF pc \in {"search", "lower", "upper"} THEN (IF reg.found # 0 THEN 100 ELSE 50 - (reg.hi - reg.lo)) ELSE 0)
Progress == [][Rank' > Rank]_vars
NoStall  == pc # "done" => ENABLED Next
=============================================================================
