CONSTANTS
  MaxLen = 4
  MaxVal = 2
  MaxW = 2
  One = 8
  WD = 4
  SampLen = 16
  SampN = 8
  IntW = 16
  IntRes = {2, 4, 8, 64}
  IntSlopes = {1, 3}
SPECIFICATION Spec
INVARIANTS TypeOK SortMeaning BuildMeaning BuildResult GetResult GetPmfResult MapMeaning MapResult ReduceMeaning ReduceResult CredResult SampleOnPmf SampleResult IntMeaning IntResult IntExactLemma NoStall
PROPERTY Progress
CHECK_DEADLOCK FALSE
