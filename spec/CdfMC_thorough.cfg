CONSTANTS
  MaxLen = 4
  MaxVal = 2
  MaxW = 2
  One = 8
  WD = 4
  SampLen = 16
  SampN = 8
SPECIFICATION Spec
INVARIANTS TypeOK SortMeaning BuildMeaning BuildResult GetResult GetPmfResult MapMeaning MapResult ReduceMeaning ReduceResult CredResult SampleOnPmf SampleResult NoStall
PROPERTY Progress
CHECK_DEADLOCK FALSE
