------------------------------ MODULE CdfTrace ------------------------------
(***************************************************************************)
(* Trace validation for family "cdf" (X04).  run.cfg.grp selects the group *)
(*                                                                         *)
(*  cdf   cfg = [d, s, k]: weights are in units of 1 / d, recorded         *)
(*        probabilities are round(p * s), k = s / d.  One run = history    *)
(*        of one CDF object; model state st.cdf = sequence of [v, c]       *)
(*        (c exact, in units of 1 / s).                                    *)
(*        from_pmf[e] / from_cdf[e] / reduce / sample[n] / iter            *)
(*                       -> vals, cums, bad     (the entries of the object)*)
(*        sample_fresh[n] -> the same, on a copy (state not advanced)      *)
(*        shift_values[k] -> the same, after adding k to every value       *)
(*                       through iter_mut                                  *)
(*        get[x], get_pmf[x] -> some, p, bad ; total_prob -> p, bad        *)
(*        len -> n, empty ; iter_pmf -> vals, ps, bad ; map -> some, v     *)
(*        credible_interval[wn, wd] -> some, lo, hi                        *)
(*        expected_value, variance -> v (x * s), bad ;                     *)
(*        standard_deviation -> v (x * 1024), bad                          *)
(*  model cfg = [d, s, vals, pr, lk, groups] (see Bayes.tla)               *)
(*        compute[u, dat] / compute_from_marginal[u, dat] -> marg, bad,    *)
(*        calls ; posterior[g] -> some, p, bad ; maximum_posterior ->      *)
(*        some, v ; event_posteriors -> vals, ps, bad ; expected_value     *)
(*  bf    evidence[num, den, ulp] / evidence_inf / new[wa, wb, d]          *)
(*                       -> lvl, name, back (, k = factor * 1024)          *)
(*  fdr   cfg = [s]: expected_fdr[peps, d] -> out, bad                     *)
(*  integ cfg = [s]: ln_integrate_exp[knots, den, hd, rnum, rden]          *)
(*                       -> v (area * s), bad, evals                       *)
(*                                                                         *)
(* Two verdicts: Explains = the property (REJECT when false); Exact =      *)
(* conformance with the machine layer where the property leaves freedom    *)
(* (which entries sample keeps, rank of tied PEPs, number of likelihood    *)
(* evaluations): DRIFT, not an alarm; the model state is re-synchronised   *)
(* from the observation (also after reduce, which may or may not drop an   *)
(* entry whose mass is below the tolerance).                               *)
(***************************************************************************)
EXTENDS Cdf, Bayes, Json, IOUtils

Rec == ndJsonDeserialize(IOEnv.TRACE)

VARIABLES run, idx, ok, st
vars == <<run, idx, ok, st>>

InitState == [cdf |-> << >>, u |-> << >>, dat |-> 0]

\* ------------------------------------------------------------------- cdf
DumpShape(r) == r.bad = 0 /\ Len(r.vals) = Len(r.cums)
\* the recorded entries are the entries sq; the recorded cumulative values are monotone
DumpNear(sq, r) ==
    /\ DumpShape(r) /\ Len(r.vals) = Len(sq)
    /\ \A i \in 1..Len(sq) : r.vals[i] = sq[i].v /\ Near(r.cums[i], sq[i].c, sq[i].c)
    /\ \A i \in 1..(Len(sq) - 1) : r.cums[i] <= r.cums[i + 1]
ValsSubSeq(sq, vals) ==
    /\ \A j \in 1..Len(vals) : IdxOf(sq, vals[j]) # {}
    /\ \A j \in 1..(Len(vals) - 1) : vals[j] < vals[j + 1]
PickByVals(sq, vals) == SubSeqBy(sq, {i \in 1..Len(sq) : \E j \in 1..Len(vals) : vals[j] = sq[i].v})
ValsOf(sq) == [i \in 1..Len(sq) |-> sq[i].v]
Shifted(sq, k) == [i \in 1..Len(sq) |-> [v |-> sq[i].v + k, c |-> sq[i].c]]

Built(cfg, c) ==
    IF c.op = "from_pmf" THEN CapM(CdfDef(ScalePmf(c.a.e, cfg.k)), cfg.s)
    ELSE CdfOfPairs(ScalePmf(c.a.e, cfg.k))

\* reduce: nothing invented, every entry without mass gone, every entry with a mass above the tolerance kept
ReduceGood(sq, r) ==
    /\ DumpShape(r) /\ ValsSubSeq(sq, r.vals)
    /\ DumpNear(PickByVals(sq, r.vals), r)
    /\ \A i \in 1..Len(sq) :
          LET kept == \E j \in 1..Len(r.vals) : r.vals[j] = sq[i].v IN
          /\ (Pmf(sq, i) = 0 => ~kept)
          /\ (Pmf(sq, i) > Tol(sq[i].c) => kept)
SampleGood(sq, n, r) ==
    /\ DumpShape(r) /\ ValsSubSeq(sq, r.vals)
    /\ DumpNear(PickByVals(sq, r.vals), r)
    /\ SampleOK(sq, n, PickByVals(sq, r.vals))

SumAbsTol(sq) == SumSeq([i \in 1..Len(sq) |-> Abs(sq[i].v) * Tol(sq[i].c)])
SumTol(sq)    == SumSeq([i \in 1..Len(sq) |-> Tol(sq[i].c)])
Spread(sq)    == IF Len(sq) = 0 THEN 0 ELSE sq[Len(sq)].v - sq[1].v
VarTol(sq)    == Spread(sq) * Spread(sq) * SumTol(sq) + 2 * Spread(sq) * SumAbsTol(sq) + SumAbsTol(sq) + 2
UnitSeq(sq, k) == [i \in 1..Len(sq) |-> [v |-> sq[i].v, c |-> sq[i].c \div k]]
\* variance scaled by s: VarNum / d^3 * s  (d <= 64, s = 2^20: s / d^3 is an integer)
VarWant(cfg, sq) == VarNum(UnitSeq(sq, cfg.k), cfg.d) * (cfg.s \div (cfg.d * cfg.d * cfg.d))

CdfExplains(cfg, sq, c, r) ==
    LET op == c.op  a == c.a IN
    CASE op \in {"from_pmf", "from_cdf"} -> r.st = "ok" /\ DumpNear(Built(cfg, c), r)
      [] op = "iter" -> r.st = "ok" /\ DumpNear(sq, r)
      [] op = "shift_values" -> r.st = "ok" /\ DumpNear(Shifted(sq, a.k), r)
      [] op = "reduce" -> r.st = "ok" /\ ReduceGood(sq, r)
      [] op \in {"sample", "sample_fresh"} ->
           IF a.n <= 1 THEN r.st = "panic" ELSE r.st = "ok" /\ SampleGood(sq, a.n, r)
      [] op = "get" ->
           /\ r.st = "ok"
           /\ IF Len(sq) = 0 THEN r.some = 0
              ELSE r.some = 1 /\ r.bad = 0 /\ Near(r.p, GetDef(sq, a.x), GetDef(sq, a.x))
      [] op = "get_pmf" ->
           /\ r.st = "ok"
           /\ IF Len(sq) = 0 THEN r.some = 0
              ELSE /\ r.some = 1 /\ r.bad = 0
                   /\ IF IdxOf(sq, a.x) = {} THEN r.p = 0
                      ELSE Near(r.p, GetPmfDef(sq, a.x), GetDef(sq, a.x))
      [] op = "total_prob" -> r.st = "ok" /\ r.bad = 0 /\ Near(r.p, TotalDef(sq), TotalDef(sq))
      [] op = "len" -> r.st = "ok" /\ r.n = Len(sq) /\ r.empty = (IF Len(sq) = 0 THEN 1 ELSE 0)
      [] op = "iter_pmf" ->
           /\ r.st = "ok" /\ r.bad = 0 /\ Len(r.vals) = Len(sq) /\ Len(r.ps) = Len(sq)
           /\ \A i \in 1..Len(sq) : r.vals[i] = sq[i].v /\ Near(r.ps[i], Pmf(sq, i), sq[i].c)
      [] op = "map" ->
           /\ r.st = "ok"
           /\ IF Len(sq) = 0 THEN r.some = 0 ELSE r.some = 1 /\ IsMode(sq, r.v, TRUE)
      [] op = "credible_interval" ->
           IF a.wn < 0 \/ a.wn > a.wd THEN r.st = "panic"
           ELSE /\ r.st = "ok"
                /\ IF Len(sq) = 0 THEN r.some = 0
                   ELSE r.some = 1 /\ CredibleOK(sq, cfg.s, a.wn, a.wd, r.lo, r.hi, TRUE)
      [] op = "expected_value" ->
           r.st = "ok" /\ r.bad = 0 /\ Abs(r.v - EvNum(sq)) <= SumAbsTol(sq) + 1
      [] op = "variance" ->
           r.st = "ok" /\ r.bad = 0 /\ cfg.d <= 64 /\ Abs(r.v - VarWant(cfg, sq)) <= VarTol(sq)
      [] op = "standard_deviation" ->
           /\ r.st = "ok" /\ r.bad = 0 /\ cfg.d <= 64 /\ r.v >= 0 /\ r.v <= 40000
           /\ LET lo == Max2(r.v - 1, 0)  hi == r.v + 1  w == VarWant(cfg, sq) IN
              lo * lo <= w + VarTol(sq) /\ hi * hi >= w - VarTol(sq)
      [] OTHER -> FALSE

\* machine layer, where the property leaves freedom
CdfExact(cfg, sq, c, r) ==
    \* (reduce has no second verdict: whether an entry whose mass is below the tolerance survives depends on
    \* rounding -- a total of one can overshoot and be capped before the last entry is added)
    CASE c.op \in {"sample", "sample_fresh"} -> (c.a.n <= 1 \/ r.vals = ValsOf(SampleM(sq, c.a.n)))
      [] OTHER -> TRUE
CdfAfter(cfg, sq, c, r) ==
    CASE c.op \in {"from_pmf", "from_cdf"} -> Built(cfg, c)
      [] c.op = "reduce" -> PickByVals(sq, r.vals)                 \* = ReduceDef(sq) up to sub-tolerance masses
      [] c.op = "sample" -> IF c.a.n <= 1 THEN sq ELSE PickByVals(sq, r.vals)
      [] c.op = "shift_values" -> Shifted(sq, c.a.k)
      [] OTHER -> sq

\* ----------------------------------------------------------------- model
ModelExplains(m, s, c, r) ==
    LET op == c.op  a == c.a IN
    CASE op \in {"compute", "compute_from_marginal"} ->
           /\ r.st = "ok" /\ r.bad = 0 /\ Marginal(m, a.dat, a.u) > 0
           /\ LET want == Marginal(m, a.dat, a.u) * (m.s \div (m.d * m.d)) IN Abs(r.marg - want) <= BTol(want)
      [] op = "posterior" ->
           /\ r.st = "ok"
           /\ IF a.g \in USet(s.u)
              THEN r.some = 1 /\ r.bad = 0 /\ Abs(r.p - PosteriorDef(m, s.dat, s.u, a.g, m.s)) <= BTol(m.s) + 1
              ELSE r.some = 0
      [] op = "maximum_posterior" ->
           /\ r.st = "ok"
           /\ IF Touched(m, s.u) = {} THEN r.some = 0
              ELSE r.some = 1 /\ \E e \in EventOfVal(m, r.v) : IsMAP(m, s.dat, s.u, e)
      [] op = "event_posteriors" ->
           /\ r.st = "ok" /\ r.bad = 0
           /\ Len(r.vals) = Cardinality(Touched(m, s.u)) /\ Len(r.ps) = Len(r.vals)
           /\ \A i \in 1..Len(r.vals) : EventOfVal(m, r.vals[i]) # {}
           /\ LET ev == [i \in 1..Len(r.vals) |-> CHOOSE e \in EventOfVal(m, r.vals[i]) : TRUE] IN
              /\ {ev[i] : i \in 1..Len(ev)} = Touched(m, s.u)
              /\ \A i \in 1..Len(ev) : Abs(r.ps[i] - BasePosteriorDef(m, s.dat, s.u, ev[i], m.s)) <= BTol(m.s) + 1
              \* descending
              /\ \A i \in 1..(Len(ev) - 1) : Joint(m, s.dat, ev[i]) >= Joint(m, s.dat, ev[i + 1])
      [] op = "expected_value" ->
           /\ r.st = "ok" /\ r.bad = 0
           /\ Abs(r.v - ExpectedDef(m, s.dat, s.u, m.s))
                 <= 2 + Cardinality(Touched(m, s.u)) * MaxAbsVal(m) * BTol(m.s)
      [] OTHER -> FALSE
ModelExact(m, s, c, r) ==
    IF c.op \in {"compute", "compute_from_marginal"} THEN r.calls = CallsDef(m, c.a.u) ELSE TRUE

\* -------------------------------------------------------------------- bf
Sign(x) == IF x > 0 THEN 1 ELSE IF x < 0 THEN -1 ELSE 0
BfExplains(c, r) ==
    LET op == c.op  a == c.a IN
    /\ r.st = "ok"
    /\ CASE op = "evidence" ->
              LET want == KRLevel(a.num * 4 + Sign(a.ulp), a.den * 4) IN
              r.lvl = want /\ r.name = KRName(want) /\ r.back = want
         [] op = "evidence_inf" -> r.lvl = 4 /\ r.name = KRName(4) /\ r.back = 4
         [] op = "new" ->
              /\ r.lvl \in {KRLevel(a.wa * 1024 - 1, a.wb * 1024), KRLevel(a.wa * 1024 + 1, a.wb * 1024)}
              /\ r.name = KRName(r.lvl) /\ r.back = r.lvl
              /\ r.k >= 0 /\ r.k <= 2097152 /\ Abs(r.k * a.wb - a.wa * 1024) <= a.wb + a.wa \div 1000
         [] OTHER -> FALSE

\* ------------------------------------------------------------------- fdr
FdrNear(cfg, a, r, i, rank) == Abs(r.out[i] - FdrAtRank(a.peps, i, rank, cfg.s \div a.d, cfg.s)) <= BTol(cfg.s) + 1
FdrExplains(cfg, c, r) ==
    /\ c.op = "expected_fdr" /\ r.st = "ok" /\ r.bad = 0 /\ Len(r.out) = Len(c.a.peps)
    /\ \A i \in 1..Len(c.a.peps) :
          \E rank \in (FdrLo(c.a.peps, i) + 1)..FdrHi(c.a.peps, i) : FdrNear(cfg, c.a, r, i, rank)
FdrExact(cfg, c, r) == \A i \in 1..Len(c.a.peps) : FdrNear(cfg, c.a, r, i, FdrStableRank(c.a.peps, i))

\* ----------------------------------------------------------------- integ
IntegExplains(cfg, c, r) ==
    /\ c.op = "ln_integrate_exp" /\ r.st = "ok" /\ r.bad = 0
    /\ LET want == (TwiceArea(c.a.knots) * cfg.s) \div (2 * c.a.den * c.a.hd)
           k == c.a.knots IN
       IF Len(k) = 3 /\ ~OnFirstGridPoint(k)
       THEN \* symmetric about a mode anywhere: the chord over the cell of the mode cuts off at most slope r^2 / 4
            /\ IsPeak(k)
            /\ r.v <= want + IntegTol(want)
            /\ r.v >= want - IntegTol(want) - PeakSlack(k, c.a.den, c.a.hd, c.a.rnum, c.a.rden, cfg.s)
       ELSE \* linear, or two pieces meeting at the first grid point: the trapezoid sum does not depend on the grid
            Abs(r.v - want) <= IntegTol(want)

\* ---------------------------------------------------------------- verdicts
Explains(cfg, s, e) ==
    CASE cfg.grp = "cdf"   -> CdfExplains(cfg, s.cdf, e.c, e.r)
      [] cfg.grp = "model" -> ModelExplains(cfg, s, e.c, e.r)
      [] cfg.grp = "bf"    -> BfExplains(e.c, e.r)
      [] cfg.grp = "fdr"   -> FdrExplains(cfg, e.c, e.r)
      [] cfg.grp = "integ" -> IntegExplains(cfg, e.c, e.r)
      [] OTHER -> FALSE
Exact(cfg, s, e) ==
    CASE cfg.grp = "cdf"   -> CdfExact(cfg, s.cdf, e.c, e.r)
      [] cfg.grp = "model" -> ModelExact(cfg, s, e.c, e.r)
      [] cfg.grp = "fdr"   -> FdrExact(cfg, e.c, e.r)
      [] OTHER -> TRUE
After(cfg, s, e) ==
    CASE cfg.grp = "cdf"   -> [s EXCEPT !.cdf = CdfAfter(cfg, s.cdf, e.c, e.r)]
      [] cfg.grp = "model" -> IF e.c.op \in {"compute", "compute_from_marginal"}
                              THEN [s EXCEPT !.u = e.c.a.u, !.dat = e.c.a.dat] ELSE s
      [] OTHER -> s

Init == run \in 1..Len(Rec) /\ idx = 0 /\ ok = TRUE /\ st = InitState
Next ==
    /\ ok /\ idx < Len(Rec[run].ev)
    /\ LET R == Rec[run]
           e == R.ev[idx + 1]
           good == Explains(R.cfg, st, e)
       IN  /\ ok' = good
           /\ st' = IF good THEN After(R.cfg, st, e) ELSE st
           /\ IF good
              THEN (IF Exact(R.cfg, st, e) THEN TRUE ELSE PrintT(<<"DRIFT", run, idx + 1>>))
              ELSE PrintT(<<"REJECT", run, idx + 1>>)
    /\ idx' = idx + 1
    /\ UNCHANGED run
Spec == Init /\ [][Next]_vars
=============================================================================
