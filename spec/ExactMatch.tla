----------------------------- MODULE ExactMatch -----------------------------
(***************************************************************************)
(* C08 -- exact pattern matchers of rust-bio (src/pattern_matching).        *)
(*                                                                         *)
(* Definition layer:  Occ(p,t)  = ascending sequence of the 0-based start  *)
(* positions of all (possibly overlapping) occurrences of p in t.          *)
(*                                                                         *)
(* Machine layer: one state machine per matcher, shaped like the code:     *)
(*   ShiftAnd  one step per text symbol, register = set of bits of a       *)
(*             W-bit word (W = 64 in the code; scaled down for TLC)        *)
(*   BNDM      one step per window, inner loop over a W-bit word           *)
(*   BOM       factor-oracle construction + one step per window           *)
(*   Horspool  bad-character shift table + one step per candidate          *)
(*   KMP       lps table + delta, one step per text symbol                 *)
(* Words are sets of bit positions 0..W-1; a shift drops bits >= W, so the *)
(* |p| = W boundary is part of the model.                                  *)
(***************************************************************************)
EXTENDS Naturals, Sequences, FiniteSets

\* ------------------------------------------------------------ definition
OccursAt(p, t, i) ==      \* i is 0-based
    /\ i + Len(p) <= Len(t)
    /\ \A j \in 1..Len(p) : t[i + j] = p[j]

Occ(p, t) ==
    IF Len(t) < Len(p) THEN << >>
    ELSE SelectSeq([i \in 1..(Len(t) - Len(p) + 1) |-> i - 1],
                   LAMBDA i : OccursAt(p, t, i))

\* occurrences whose start position is < bound
OccBefore(p, t, bound) == SelectSeq(Occ(p, t), LAMBDA i : i < bound)

\* closed form for the comb family (used for texts of 10^6 symbols, logged as parameters only):
\* text = (a^(L-1) b)^r, pattern = a^m b with m < L: one occurrence per period, at (k-1)*L + L-1-m
CombText(L, r, a, b) == [i \in 1..(L * r) |-> IF i % L = 0 THEN b ELSE a]
CombPattern(m, a, b) == [i \in 1..(m + 1) |-> IF i = m + 1 THEN b ELSE a]
CombOcc(L, r, m) == [k \in 1..r |-> (k - 1) * L + L - 1 - m]

Algos == {"shiftand", "bndm", "bom", "horspool", "kmp"}
BitParallel(a) == a \in {"shiftand", "bndm"}

\* --------------------------------------------------------------- words
Shl1(word, W) == {b + 1 : b \in {x \in word : x + 1 < W}}

\* ------------------------------------------------------------- ShiftAnd
SAMask(p, c, W)  == {j - 1 : j \in {x \in 1..Len(p) : p[x] = c /\ x - 1 < W}}
SAAccept(p)      == Len(p) - 1
SAStep(p, active, c, W) == (Shl1(active, W) \cup {0}) \cap SAMask(p, c, W)

\* ----------------------------------------------------------------- BNDM
Rev(s) == [i \in 1..Len(s) |-> s[Len(s) + 1 - i]]
\* inner loop of one window: returns <<found, lastsuffix>>
RECURSIVE BNDMInner(_, _, _, _, _, _, _)
BNDMInner(p, t, window, active, j, lastsuffix, W) ==
    IF active = {} THEN <<FALSE, lastsuffix>>
    ELSE LET m  == Len(p)
             a2 == active \cap SAMask(Rev(p), t[window - j + 1], W)
         IN  IF (m - 1) \in a2
             THEN IF j = m THEN <<TRUE, lastsuffix>>
                  ELSE BNDMInner(p, t, window, Shl1(a2, W), j + 1, j, W)
             ELSE BNDMInner(p, t, window, Shl1(a2, W), j + 1, lastsuffix, W)

\* ------------------------------------------------------------------ BOM
None == 1000000    \* "no state" (Option::None)
\* table: sequence over states 0..(i-1) (1-based index q+1) of functions Sym -> state or None
\* suff : sequence over states 0..m (1-based) of state or None
RECURSIVE BOMChain(_, _, _, _, _)
\* walk the suffix chain from k, adding edges a -> i; returns <<table, k at exit>>
BOMChain(table, suff, k, a, i) ==
    IF k = None THEN <<table, None>>
    ELSE IF table[k + 1][a] # None THEN <<table, k>>
    ELSE BOMChain([table EXCEPT ![k + 1][a] = i], suff, suff[k + 1], a, i)

RECURSIVE BOMBuild(_, _, _, _, _)
BOMBuild(p, Sym, j, table, suff) ==     \* j = number of symbols of rev(p) already read
    IF j = Len(p) THEN table
    ELSE LET i     == j + 1
             a     == p[Len(p) - j]
             ch    == BOMChain(table, suff, suff[i], a, i)      \* suff[i-1] at 1-based index i
             tab2  == ch[1]
             k     == ch[2]
             s     == IF k = None THEN 0 ELSE tab2[k + 1][a]
             delta == [c \in Sym |-> IF c = a THEN i ELSE None]
         IN  BOMBuild(p, Sym, i, Append(tab2, delta), Append(suff, s))

BOMTable(p, Sym) == BOMBuild(p, Sym, 0, << >>, << None >>)
BOMDelta(table, q, a) == IF q >= Len(table) THEN None ELSE table[q + 1][a]

\* inner loop of one window: returns <<q, j>>
RECURSIVE BOMInner(_, _, _, _, _, _)
BOMInner(table, m, t, window, q, j) ==
    IF j > m \/ q = None THEN <<q, j>>
    ELSE BOMInner(table, m, t, window, BOMDelta(table, q, t[window - j + 1]), j + 1)

\* ------------------------------------------------------------- Horspool
HShift(p, c) ==
    LET m == Len(p)
        S == {j \in 1..(m - 1) : p[j] = c}         \* pattern[..m-1]
    IN  IF S = {} THEN m
        ELSE m - (CHOOSE j \in S : \A x \in S : x <= j)   \* last one wins: m-1-(j-1)

\* skip loop: advance `last` (0-based) while the last symbol differs
RECURSIVE HSkip(_, _, _)
HSkip(p, t, last) ==
    IF last < Len(t) /\ t[last + 1] # p[Len(p)]
    THEN HSkip(p, t, last + HShift(p, t[last + 1]))
    ELSE last

\* ------------------------------------------------------------------ KMP
RECURSIVE LpsFall(_, _, _, _)
LpsFall(p, lps, q, c) == IF q > 0 /\ p[q + 1] # c THEN LpsFall(p, lps, lps[q], c) ELSE q

RECURSIVE LpsBuild(_, _, _)
LpsBuild(p, lps, q) ==             \* lps has i entries, computes entry i+1 (0-based i)
    IF Len(lps) = Len(p) THEN lps
    ELSE LET c  == p[Len(lps) + 1]
             q1 == LpsFall(p, lps, q, c)
             q2 == IF p[q1 + 1] = c THEN q1 + 1 ELSE q1
         IN  LpsBuild(p, Append(lps, q2), q2)

Lps(p) == LpsBuild(p, << 0 >>, 0)

RECURSIVE KmpFall(_, _, _, _)
KmpFall(p, lps, q, a) ==
    IF q = Len(p) \/ (p[q + 1] # a /\ q > 0) THEN KmpFall(p, lps, lps[q], a) ELSE q
KmpDelta(p, lps, q, a) ==
    LET q1 == KmpFall(p, lps, q, a) IN IF p[q1 + 1] = a THEN q1 + 1 ELSE q1

\* definition of lps, for the table lemma
IsBorder(p, i, b) == b < i /\ \A x \in 1..b : p[x] = p[i - b + x]       \* border of p[1..i]
LpsDef(p) == [i \in 1..Len(p) |-> CHOOSE b \in 0..(i - 1) :
                 IsBorder(p, i, b) /\ \A b2 \in 0..(i - 1) : IsBorder(p, i, b2) => b2 <= b]

=============================================================================
