CONSTANTS
  W = 4
  Sym = {1, 2}
  MaxT = 6
SPECIFICATION Spec
INVARIANTS CombLemma Final Decided ShiftAndMeaning KmpMeaning LpsLemma BomLemma HorspoolLemma
PROPERTY Progress
CHECK_DEADLOCK FALSE
