---------------------------- MODULE ExactMatchMC ----------------------------
(* Exhaustive check of the five matcher machines against Occ(p,t) for all   *)
(* patterns over Sym with 1 <= |p| <= W and all texts with |t| <= MaxT.     *)
EXTENDS ExactMatch, TLC
CONSTANTS W, Sym, MaxT

VARIABLES algo, p, t, k, reg, out, done
vars == <<algo, p, t, k, reg, out, done>>

Strings(lo, hi) == UNION {[1..n -> Sym] : n \in lo..hi}
M == Len(p)
N == Len(t)

Init ==
    /\ algo \in Algos
    /\ p \in Strings(1, W)
    /\ t \in Strings(0, MaxT)
    /\ k = CASE algo \in {"shiftand", "kmp"} -> 0
             [] algo \in {"bndm", "bom"}     -> Len(p)
             [] algo = "horspool"            -> Len(p) - 1
    /\ reg = IF algo = "shiftand" THEN {} ELSE 0
    /\ out = << >>
    /\ done = FALSE

ShiftAndStep ==
    /\ algo = "shiftand" /\ ~done /\ k < N
    /\ LET r == SAStep(p, reg, t[k + 1], W)
       IN  /\ reg' = r
           /\ out' = IF SAAccept(p) \in r THEN Append(out, k + 1 - M) ELSE out
    /\ k' = k + 1
    /\ UNCHANGED <<algo, p, t, done>>

KmpStep ==
    /\ algo = "kmp" /\ ~done /\ k < N
    /\ LET q == KmpDelta(p, Lps(p), reg, t[k + 1])
       IN  /\ reg' = q
           /\ out' = IF q = M THEN Append(out, 1 + k - M) ELSE out
    /\ k' = k + 1
    /\ UNCHANGED <<algo, p, t, done>>

BndmStep ==
    /\ algo = "bndm" /\ ~done /\ k <= N
    /\ LET r == BNDMInner(p, t, k, 0..(M - 1), 1, 0, W)
       IN  /\ out' = IF r[1] THEN Append(out, k - M) ELSE out
           /\ k' = k + M - r[2]
    /\ UNCHANGED <<algo, p, t, reg, done>>

BomStep ==
    /\ algo = "bom" /\ ~done /\ k <= N
    /\ LET r == BOMInner(BOMTable(p, Sym), M, t, k, 0, 1)
       IN  /\ out' = IF r[1] # None THEN Append(out, k - M) ELSE out
           /\ k' = k + M + 2 - r[2]
    /\ UNCHANGED <<algo, p, t, reg, done>>

HorspoolStep ==
    /\ algo = "horspool" /\ ~done
    /\ LET last == HSkip(p, t, k)
       IN  IF last >= N
           THEN done' = TRUE /\ k' = last /\ UNCHANGED out
           ELSE LET i == last + 1 - M
                IN  /\ k' = last + HShift(p, p[M])
                    /\ out' = IF SubSeq(t, i + 1, last) = SubSeq(p, 1, M - 1)
                              THEN Append(out, i) ELSE out
                    /\ done' = FALSE
    /\ UNCHANGED <<algo, p, t, reg>>

Finish ==
    /\ ~done
    /\ \/ algo \in {"shiftand", "kmp"} /\ k >= N
       \/ algo \in {"bndm", "bom"} /\ k > N
    /\ done' = TRUE
    /\ UNCHANGED <<algo, p, t, k, reg, out>>

Next == ShiftAndStep \/ KmpStep \/ BndmStep \/ BomStep \/ HorspoolStep \/ Finish
Spec == Init /\ [][Next]_vars

\* ------------------------------------------------------------ invariants
Final == done => out = Occ(p, t)

\* everything left of the current position is already decided, and correctly
Decided ==
    LET bound == CASE algo \in {"shiftand", "kmp"} -> IF k + 1 >= M THEN k + 1 - M ELSE 0
                   [] algo \in {"bndm", "bom"}     -> k - M
                   [] algo = "horspool"            -> k + 1 - M
    IN  out = OccBefore(p, t, bound)

\* meaning of the registers
IsSuffixPrefix(j) == j <= k /\ \A x \in 1..j : p[x] = t[k - j + x]   \* p[1..j] is a suffix of t[1..k]
ShiftAndMeaning ==
    algo = "shiftand" => reg = {j - 1 : j \in {x \in 1..M : IsSuffixPrefix(x)}}
KmpMeaning ==
    algo = "kmp" => /\ IsSuffixPrefix(reg)
                    /\ \A j \in 0..M : IsSuffixPrefix(j) => j <= reg

\* table lemmas (evaluated once per pattern: in the initial states)
LpsLemma == (algo = "kmp" /\ k = 0) => Lps(p) = LpsDef(p)

RECURSIVE OracleRun(_, _, _)
OracleRun(table, q, w) == IF w = << >> \/ q = None THEN q
                          ELSE OracleRun(table, BOMDelta(table, q, Head(w)), Tail(w))
Factors(s) == {SubSeq(s, a, b) : a \in 1..Len(s), b \in 0..Len(s)}
BomLemma ==
    (algo = "bom" /\ k = M /\ out = << >>) =>
        LET tab == BOMTable(p, Sym) IN
        /\ \A f \in Factors(Rev(p)) : OracleRun(tab, 0, f) # None          \* accepts every factor
        /\ \A w \in [1..M -> Sym] : OracleRun(tab, 0, w) # None => w = Rev(p)  \* only p at full length
HorspoolLemma ==
    (algo = "horspool") => \A c \in Sym : HShift(p, c) \in 1..M

\* the closed form used for huge texts equals the definition (evaluated in one state only)
CombLemma ==
    (algo = "kmp" /\ k = 0 /\ p = <<1>> /\ t = << >>) =>
        \A L \in 1..5, r \in 0..3, m \in 0..4 :
            m < L => Occ(CombPattern(m, 1, 2), CombText(L, r, 1, 2)) = CombOcc(L, r, m)

\* progress: every step moves the position forward (termination)
Progress == [][done' \/ k' > k]_vars
=============================================================================
