CONSTANTS
  W = 4
  Sym = {1, 2}
  MaxT = 8
SPECIFICATION Spec
INVARIANTS CombLemma Final Decided ShiftAndMeaning KmpMeaning LpsLemma BomLemma HorspoolLemma
PROPERTY Progress
CHECK_DEADLOCK FALSE
