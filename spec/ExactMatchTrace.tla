--------------------------- MODULE ExactMatchTrace ---------------------------
(* Trace validation for family "exact" (C08).                               *)
(* run.cfg = [algo, p]; events: new (ok, or refused when |p| > 64 for the   *)
(* bit-parallel matchers), find_all(t) -> v which must equal Occ(p,t).      *)
(* The spec is stateless per call: the same matcher object must answer      *)
(* every text like a fresh one.                                             *)
EXTENDS ExactMatch, TLC, Json, IOUtils

Rec == ndJsonDeserialize(IOEnv.TRACE)
WordSize == 64

VARIABLES run, idx, ok
vars == <<run, idx, ok>>

Explains(cfg, e) ==
    LET c == e.c  r == e.r IN
    CASE c.op = "new" ->
           IF BitParallel(cfg.algo) /\ Len(cfg.p) > WordSize
           THEN r.st = "panic"                  \* documented refusal
           ELSE r.st = "ok"
      [] c.op = "find_all" ->
           /\ r.st = "ok"
           /\ r.v = Occ(cfg.p, c.a.t)
      [] c.op = "find_all_comb" ->      \* text (a^(L-1) b)^r given by parameters; pattern must be a^m b
           /\ r.st = "ok"
           /\ c.a.m < c.a.L /\ cfg.p = CombPattern(c.a.m, c.a.a, c.a.b)
           /\ r.v = CombOcc(c.a.L, c.a.r, c.a.m)
      [] OTHER -> FALSE

Init == run \in 1..Len(Rec) /\ idx = 0 /\ ok = TRUE
Next ==
    /\ ok /\ idx < Len(Rec[run].ev)
    /\ LET good == Explains(Rec[run].cfg, Rec[run].ev[idx + 1])
       IN  /\ ok' = good
           /\ IF good THEN TRUE ELSE PrintT(<<"REJECT", run, idx + 1>>)
    /\ idx' = idx + 1
    /\ UNCHANGED run
Spec == Init /\ [][Next]_vars
=============================================================================
