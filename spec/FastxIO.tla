------------------------------ MODULE FastxIO ------------------------------
(***************************************************************************)
(* C11 -- FASTA / FASTQ readers, writers and the format sniffer of         *)
(* rust-bio (src/io/fasta.rs, fastq.rs, fastx.rs).                         *)
(*                                                                         *)
(* Definition layer                                                        *)
(*   Lines(b), TrimEnd, header split        byte stream -> lines -> fields *)
(*   WireFasta / WireFastq                  what the writers emit          *)
(*   FastaItems / FastqItems / EitherItems  the outcome sequence of the    *)
(*       `records()` iterators as a function of the BYTES ONLY (records    *)
(*       and error kinds, in order).  Buffer capacity and the chunking of  *)
(*       the underlying read() calls do not occur: any dependence of the   *)
(*       real readers on them is a disagreement with this definition.      *)
(*                                                                         *)
(* Machine layer (operators on a state record m; FastxIOMC wires them to   *)
(* a TLA+ variable and actions)                                            *)
(*   FASTA : look-ahead line `look`, phases idle/seq                       *)
(*   FASTQ : phases idle/seq/qual with the sequence line counter           *)
(*   Either: first-byte sniffer in front of the two machines               *)
(*   Lines : BufReader + read_line (fills of any size 1..cap, scanning     *)
(*           for LF) -- the reason why layout of read() chunks is          *)
(*           invisible                                                     *)
(* Every step consumes one line or ends the iteration (progress measure    *)
(* Mu), which is the termination argument of the property.                 *)
(*                                                                         *)
(* Bytes are integers 0..127 in the exact part (the definition is exact    *)
(* for ASCII input: Rust's char::is_whitespace / trim_end restricted to    *)
(* ASCII is {9,10,11,12,13,32}).                                           *)
(***************************************************************************)
EXTENDS Naturals, Sequences, FiniteSets

GT   == 62   \* '>'
AT   == 64   \* '@'
PLUS == 43   \* '+'
SP   == 32
TAB  == 9
CR   == 13
LF   == 10
NoByte == 1000   \* "no first byte" (empty input)

IsWs(c)    == c \in {9, 10, 11, 12, 13, 32}
IsSpace(c) == c = SP
IsAscii(b) == \A i \in 1..Len(b) : b[i] \in 0..127

MinOf(S) == CHOOSE x \in S : \A y \in S : x <= y
Min2(a, b) == IF a <= b THEN a ELSE b

IsPrefix(s, t) == Len(s) <= Len(t) /\ SubSeq(t, 1, Len(s)) = s

RECURSIVE FlattenSeq(_)
FlattenSeq(ss) == IF ss = << >> THEN << >> ELSE Head(ss) \o FlattenSeq(Tail(ss))

\* ------------------------------------------------------------------ lines
\* std BufRead::read_line: cut after every LF; a last line without LF is a line.
RECURSIVE LinesAcc(_, _, _, _)
LinesAcc(b, i, s, acc) ==
    IF i > Len(b)
    THEN IF s <= Len(b) THEN Append(acc, SubSeq(b, s, Len(b))) ELSE acc
    ELSE IF b[i] = LF
         THEN LinesAcc(b, i + 1, i + 1, Append(acc, SubSeq(b, s, i)))
         ELSE LinesAcc(b, i + 1, s, acc)
LinesRec(b) == LinesAcc(b, 1, 1, << >>)
\* the same without one recursion level per byte (streams of > 8 KiB): positions of the LFs first.
\* FastxIOMC checks Lines = LinesRec on every input (LinesClosedForm).
LFPos(b) == SelectSeq([i \in 1..Len(b) |-> i], LAMBDA i : b[i] = LF)
Lines(b) ==
    LET p == LFPos(b)
        n == Len(p)
        last == IF n = 0 THEN 0 ELSE p[n]
        full == [k \in 1..n |-> SubSeq(b, (IF k = 1 THEN 1 ELSE p[k - 1] + 1), p[k])]
    IN  IF last < Len(b) THEN Append(full, SubSeq(b, last + 1, Len(b))) ELSE full

\* line number i (1-based) or the empty line that read_line reports at EOF
Line(ls, i) == IF i <= Len(ls) THEN ls[i] ELSE << >>
Nx(ls, i)   == IF i <= Len(ls) THEN i + 1 ELSE i

RECURSIVE TrimLen(_, _)
TrimLen(l, n) == IF n > 0 /\ IsWs(l[n]) THEN TrimLen(l, n - 1) ELSE n
TrimEnd(l) == SubSeq(l, 1, TrimLen(l, Len(l)))

\* str::splitn(2, sep) of the right-trimmed header (without its first byte)
SplitHeader(line, IsSep(_)) ==
    LET h == TrimEnd(Tail(line))
        S == {i \in 1..Len(h) : IsSep(h[i])}
    IN  IF S = {} THEN [id |-> h, hd |-> 0, desc |-> << >>]
        ELSE LET k == MinOf(S)
             IN  [id |-> SubSeq(h, 1, k - 1), hd |-> 1, desc |-> SubSeq(h, k + 1, Len(h))]

\* ------------------------------------------------------------------ items
\* one element of the outcome sequence of an iterator (uniform shape)
RecItem(id, hd, desc, seq, qual, chk) ==
    [k |-> "rec", e |-> "", id |-> id, hd |-> hd, desc |-> desc, seq |-> seq, qual |-> qual, chk |-> chk]
ErrItem(kind) ==
    [k |-> "err", e |-> kind, id |-> << >>, hd |-> 0, desc |-> << >>, seq |-> << >>, qual |-> << >>, chk |-> 0]

B2I(x) == IF x THEN 1 ELSE 0
FastaCheck(id, seq)       == B2I(id # << >>)                         \* ASCII is given
FastqCheck(id, seq, qual) == B2I(id # << >> /\ Len(seq) = Len(qual))

\* a generated (valid) record as an item: what the round trip must give back
FastaItemOf(r) == RecItem(r.id, r.hd, r.desc, r.seq, << >>, FastaCheck(r.id, r.seq))
FastqItemOf(r) == RecItem(r.id, r.hd, r.desc, r.seq, r.qual, FastqCheck(r.id, r.seq, r.qual))
ItemsOf(kind, recs) == [i \in 1..Len(recs) |-> IF kind = "fasta" THEN FastaItemOf(recs[i]) ELSE FastqItemOf(recs[i])]

\* ---------------------------------------------------------- FASTA parser
\* sequence lines from line j on: <<seq, index of the line that stopped the loop>>
RECURSIVE FaSeq(_, _, _)
FaSeq(ls, j, acc) ==
    IF j > Len(ls) \/ ls[j][1] = GT THEN <<acc, j>>
    ELSE FaSeq(ls, j + 1, acc \o TrimEnd(ls[j]))

\* fasta::Records: stop at the first error (yield it once); stop silently at an
\* empty record (EOF, or a header without id, description and sequence)
RECURSIVE FaItemsFrom(_, _, _)
FaItemsFrom(ls, i, acc) ==
    IF i > Len(ls) THEN acc
    ELSE IF ls[i][1] # GT THEN Append(acc, ErrItem("fmt"))
    ELSE LET h  == SplitHeader(ls[i], IsWs)
             sq == FaSeq(ls, i + 1, << >>)
         IN  IF h.id = << >> /\ h.hd = 0 /\ sq[1] = << >> THEN acc
             ELSE FaItemsFrom(ls, sq[2],
                              Append(acc, RecItem(h.id, h.hd, h.desc, sq[1], << >>, FastaCheck(h.id, sq[1]))))
FastaItems(b) == FaItemsFrom(Lines(b), 1, << >>)

\* ---------------------------------------------------------- FASTQ parser
\* sequence lines from j on: <<seq, number of lines, index of the '+' line or Len+1>>
RECURSIVE FqSeq(_, _, _, _)
FqSeq(ls, j, acc, n) ==
    IF j > Len(ls) \/ ls[j][1] = PLUS THEN <<acc, n, j>>
    ELSE FqSeq(ls, j + 1, acc \o TrimEnd(ls[j]), n + 1)

\* exactly n quality lines starting at line j (lines behind EOF are empty)
RECURSIVE FqQual(_, _, _, _)
FqQual(ls, j, n, acc) ==
    IF n = 0 THEN acc ELSE FqQual(ls, j + 1, n - 1, acc \o TrimEnd(Line(ls, j)))

\* fastq::Records: errors are yielded and the iteration continues with the next line
RECURSIVE FqItemsFrom(_, _, _)
FqItemsFrom(ls, i, acc) ==
    IF i > Len(ls) THEN acc
    ELSE IF ls[i][1] # AT THEN FqItemsFrom(ls, i + 1, Append(acc, ErrItem("missing_at")))
    ELSE LET h    == SplitHeader(ls[i], IsSpace)
             s    == FqSeq(ls, i + 1, << >>, 0)
             qual == FqQual(ls, s[3] + 1, s[2], << >>)
             nxt  == Min2(s[3] + s[2] + 1, Len(ls) + 1)
             item == IF qual = << >> THEN ErrItem("incomplete")
                     ELSE RecItem(h.id, h.hd, h.desc, s[1], qual, FastqCheck(h.id, s[1], qual))
         IN  FqItemsFrom(ls, nxt, Append(acc, item))
FastqItems(b) == FqItemsFrom(Lines(b), 1, << >>)

\* ---------------------------------------------------------------- sniffer
SniffKind(b) == IF b = << >> THEN "eof"
                ELSE IF b[1] = GT THEN "fasta"
                ELSE IF b[1] = AT THEN "fastq"
                ELSE "invalid"
EitherItems(b) == CASE SniffKind(b) = "eof"     -> << >>
                    [] SniffKind(b) = "fasta"   -> FastaItems(b)
                    [] SniffKind(b) = "fastq"   -> FastqItems(b)
                    [] OTHER                    -> << ErrItem("sniff") >>

\* the sniffer on a seekable source that is not at offset 0: the abstract state of the source is
\* (bytes, position); get_kind_seek reads one byte and puts it back, so the position is unchanged
\* and the selected parser reads the records of bytes[position..]
Suffix(b, off) == SubSeq(b, off + 1, Len(b))
SniffAt(b, off) == [kind |-> SniffKind(Suffix(b, off)), pos |-> off]
ItemsAfterSniff(b, off) ==
    LET k == SniffKind(Suffix(b, off))
    IN  IF k = "fasta" THEN FastaItems(Suffix(b, off))
        ELSE IF k = "fastq" THEN FastqItems(Suffix(b, off))
        ELSE << >>

ItemsFor(parser, b) == CASE parser = "fasta" -> FastaItems(b)
                         [] parser = "fastq" -> FastqItems(b)
                         [] OTHER            -> EitherItems(b)

\* ---------------------------------------------------------------- writers
\* wrap = 0 : the whole sequence on one line (fasta linewrap None; the fastq writer)
\* nl       : <<LF>> or <<CR, LF>>
RECURSIVE Chunks(_, _, _)
Chunks(s, w, nl) == IF s = << >> THEN << >>
                    ELSE SubSeq(s, 1, Min2(w, Len(s))) \o nl \o Chunks(SubSeq(s, w + 1, Len(s)), w, nl)
Body(s, wrap, nl) == IF wrap = 0 THEN s \o nl ELSE Chunks(s, wrap, nl)
HeaderLine(mark, r, nl) == <<mark>> \o r.id \o (IF r.hd = 1 THEN <<SP>> \o r.desc ELSE << >>) \o nl
WireRec(kind, r, wrap, nl) ==
    IF kind = "fasta" THEN HeaderLine(GT, r, nl) \o Body(r.seq, wrap, nl)
    ELSE HeaderLine(AT, r, nl) \o Body(r.seq, wrap, nl) \o <<PLUS>> \o nl \o Body(r.qual, wrap, nl)
Wire(kind, recs, wrap, nl) == FlattenSeq([i \in 1..Len(recs) |-> WireRec(kind, recs[i], wrap, nl)])
NL(crlf) == IF crlf = 1 THEN <<CR, LF>> ELSE <<LF>>

\* validity of generated records (documented preconditions of the round trip)
NoWs(s) == \A i \in 1..Len(s) : ~IsWs(s[i])
ValidDesc(r) == /\ r.hd \in {0, 1}
                /\ r.hd = 0 => r.desc = << >>
                /\ r.hd = 1 => /\ r.desc # << >>
                               /\ ~IsWs(r.desc[Len(r.desc)])
                               /\ \A i \in 1..Len(r.desc) : r.desc[i] \notin {LF, CR, 11, 12}
ValidRec(kind, r, wrap) ==
    /\ r.id # << >> /\ NoWs(r.id) /\ IsAscii(r.id) /\ IsAscii(r.desc) /\ IsAscii(r.seq)
    /\ ValidDesc(r)
    /\ r.seq # << >> /\ NoWs(r.seq)
    /\ IF kind = "fasta"
       THEN \A i \in 1..Len(r.seq) : r.seq[i] # GT            \* a sequence line must not look like a header
       ELSE /\ Len(r.qual) = Len(r.seq) /\ NoWs(r.qual) /\ IsAscii(r.qual)
            /\ r.seq[1] # PLUS
            /\ wrap # 0 => \A i \in 1..Len(r.seq) : r.seq[i] # PLUS   \* a wrapped line must not look like the separator

\* records that pass check(), in order
Checked(items) == SelectSeq(items, LAMBDA it : it.k = "rec" /\ it.chk = 1)

\* ========================================================== machine layer
\* parser machines: one step = one call of read_line (or the use of the pending
\* look-ahead line); `i` is the index of the next unread line of ls.
PInit(kind, b) ==
    [kind |-> kind, ls |-> Lines(b), first |-> IF b = << >> THEN NoByte ELSE b[1], i |-> 1, look |-> << >>,
     phase |-> IF kind = "either" THEN "sniff" ELSE "idle",
     id |-> << >>, hd |-> 0, desc |-> << >>, seq |-> << >>, qual |-> << >>, n |-> 0, q |-> 0,
     out |-> << >>, done |-> FALSE]

Emit(m, item) == [m EXCEPT !.out = Append(m.out, item)]
ClearRec(m)   == [m EXCEPT !.id = << >>, !.hd = 0, !.desc = << >>, !.seq = << >>, !.qual = << >>, !.n = 0, !.q = 0]

\* --- sniffer (fastx::get_kind + EitherRecords::next)
SniffEn(m) == ~m.done /\ m.phase = "sniff"
Sniff(m) ==
    IF m.first = NoByte THEN [m EXCEPT !.done = TRUE]                         \* UnexpectedEof: no items
    ELSE IF m.first = GT THEN [m EXCEPT !.kind = "fasta", !.phase = "idle"]
    ELSE IF m.first = AT THEN [m EXCEPT !.kind = "fastq", !.phase = "idle"]
    ELSE [Emit(m, ErrItem("sniff")) EXCEPT !.done = TRUE]

\* --- FASTA (fasta::Reader::read inside fasta::Records::next)
FaBeginEn(m) == ~m.done /\ m.kind = "fasta" /\ m.phase = "idle"
FaBegin(m) ==
    LET look1 == IF m.look = << >> THEN Line(m.ls, m.i) ELSE m.look
        i1    == IF m.look = << >> THEN Nx(m.ls, m.i) ELSE m.i
        m0    == ClearRec(m)
    IN  IF look1 = << >> THEN [m0 EXCEPT !.i = i1, !.look = << >>, !.done = TRUE]      \* empty record: None
        ELSE IF look1[1] # GT
             THEN [Emit(m0, ErrItem("fmt")) EXCEPT !.i = i1, !.look = look1, !.done = TRUE]   \* look is kept
        ELSE LET h == SplitHeader(look1, IsWs)
             IN  [m0 EXCEPT !.i = i1, !.look = << >>, !.id = h.id, !.hd = h.hd, !.desc = h.desc, !.phase = "seq"]

FaSeqLineEn(m) == ~m.done /\ m.kind = "fasta" /\ m.phase = "seq"
FaSeqLine(m) ==
    LET l == Line(m.ls, m.i)
        m1 == [m EXCEPT !.i = Nx(m.ls, m.i)]
    IN  IF l = << >> \/ l[1] = GT
        THEN \* record complete; the line stays in `look` for the next read
             IF m.id = << >> /\ m.hd = 0 /\ m.seq = << >>
             THEN [m1 EXCEPT !.look = l, !.done = TRUE]                                     \* is_empty: None
             ELSE [Emit(m1, RecItem(m.id, m.hd, m.desc, m.seq, << >>, FastaCheck(m.id, m.seq)))
                      EXCEPT !.look = l, !.phase = "idle"]
        ELSE [m1 EXCEPT !.seq = m.seq \o TrimEnd(l)]

\* --- FASTQ (fastq::Reader::read inside fastq::Records::next)
FqBeginEn(m) == ~m.done /\ m.kind = "fastq" /\ m.phase = "idle"
FqBegin(m) ==
    LET l  == Line(m.ls, m.i)
        m0 == [ClearRec(m) EXCEPT !.i = Nx(m.ls, m.i)]
    IN  IF l = << >> THEN [m0 EXCEPT !.done = TRUE]
        ELSE IF l[1] # AT THEN Emit(m0, ErrItem("missing_at"))                  \* iteration continues
        ELSE LET h == SplitHeader(l, IsSpace)
             IN  [m0 EXCEPT !.id = h.id, !.hd = h.hd, !.desc = h.desc, !.phase = "seq"]

FqSeqLineEn(m) == ~m.done /\ m.kind = "fastq" /\ m.phase = "seq"
FqSeqLine(m) ==
    LET l  == Line(m.ls, m.i)
        m1 == [m EXCEPT !.i = Nx(m.ls, m.i)]
    IN  IF l = << >> \/ l[1] = PLUS
        THEN [m1 EXCEPT !.phase = "qual", !.q = m.n]
        ELSE [m1 EXCEPT !.seq = m.seq \o TrimEnd(l), !.n = m.n + 1]

FqQualLineEn(m) == ~m.done /\ m.kind = "fastq" /\ m.phase = "qual" /\ m.q > 0
FqQualLine(m) ==
    [m EXCEPT !.i = Nx(m.ls, m.i), !.qual = m.qual \o TrimEnd(Line(m.ls, m.i)), !.q = m.q - 1]

FqFinishEn(m) == ~m.done /\ m.kind = "fastq" /\ m.phase = "qual" /\ m.q = 0
FqFinish(m) ==
    LET item == IF m.qual = << >> THEN ErrItem("incomplete")
                ELSE RecItem(m.id, m.hd, m.desc, m.seq, m.qual, FastqCheck(m.id, m.seq, m.qual))
    IN  [Emit(m, item) EXCEPT !.phase = "idle"]

\* progress measure: strictly decreases with every step of a parser machine
Pending(m) == IF m.look = << >> THEN m.i ELSE m.i - 1          \* first line not yet processed
Mu(m) ==
    LET L == Len(m.ls) IN
    CASE m.phase = "sniff" -> 2 * (L + 6) * (L + 6)
      [] m.kind = "fasta"  -> 2 * (L + 1 - Pending(m)) + (IF m.phase = "seq" THEN 1 ELSE 0)
      [] OTHER             -> (L + 1 - m.i) * (L + 5)
                              + (CASE m.phase = "seq" -> L + 3 [] m.phase = "qual" -> 1 + m.q [] OTHER -> 0)

\* --- seekable source + get_kind_seek: read_exact(1 byte), seek(Current(-1))
\* ni = number of consecutive Err(Interrupted) answers of the source: a step that changes nothing but this
\* counter ("no-op, retry": read_exact and read_line retry; a bare read() would give up)
MaxIntr == 2
SInit(b, off) == [kind |-> "seeksrc", data |-> b, pos0 |-> off, pos |-> off, phase |-> "read", byte |-> NoByte,
                  res |-> "", ni |-> 0, done |-> FALSE]
SIntrEn(m) == ~m.done /\ m.phase = "read" /\ m.ni < MaxIntr
SIntr(m) == [m EXCEPT !.ni = m.ni + 1]
SReadEn(m) == ~m.done /\ m.phase = "read"
SRead(m) ==                                   \* read_exact of one byte: UnexpectedEof leaves the position alone
    IF m.pos >= Len(m.data) THEN [m EXCEPT !.res = "eof", !.done = TRUE]
    ELSE [m EXCEPT !.byte = m.data[m.pos + 1], !.pos = m.pos + 1, !.phase = "back", !.ni = 0]
SBackEn(m) == ~m.done /\ m.phase = "back"
SBack(m) ==                                   \* SeekFrom::Current(-1), then the decision on the byte
    [m EXCEPT !.pos = m.pos - 1, !.done = TRUE,
              !.res = IF m.byte = GT THEN "fasta" ELSE IF m.byte = AT THEN "fastq" ELSE "invalid"]

\* --- BufReader + read_line: why the chunking of read() is invisible
LInit(b, cap) == [kind |-> "lines", data |-> b, cap |-> cap, pos |-> 0, buf |-> << >>, line |-> << >>,
                  lines |-> << >>, ni |-> 0, done |-> FALSE]
LIntrEn(m) == ~m.done /\ m.buf = << >> /\ m.ni < MaxIntr        \* the underlying read() answers Err(Interrupted)
LIntr(m)   == [m EXCEPT !.ni = m.ni + 1]                         \* fill_buf fails, read_until retries: nothing else changes
LFillEn(m, k) == ~m.done /\ m.buf = << >> /\ k >= 1 /\ k <= m.cap /\ m.pos + k <= Len(m.data)
LFill(m, k)   == [m EXCEPT !.buf = SubSeq(m.data, m.pos + 1, m.pos + k), !.pos = m.pos + k, !.ni = 0]
LScanEn(m)    == ~m.done /\ m.buf # << >>
LScan(m) ==                                   \* read_until: memchr for LF in the buffered bytes
    LET S == {j \in 1..Len(m.buf) : m.buf[j] = LF}
    IN  IF S = {} THEN [m EXCEPT !.line = m.line \o m.buf, !.buf = << >>]
        ELSE LET j == MinOf(S)
             IN  [m EXCEPT !.lines = Append(m.lines, m.line \o SubSeq(m.buf, 1, j)), !.line = << >>,
                           !.buf = SubSeq(m.buf, j + 1, Len(m.buf))]
LEofEn(m) == ~m.done /\ m.buf = << >> /\ m.pos = Len(m.data)
LEof(m)   == [m EXCEPT !.lines = IF m.line = << >> THEN m.lines ELSE Append(m.lines, m.line),
                       !.line = << >>, !.done = TRUE]
=============================================================================
