CONSTANTS
  MaxTok = 5
  MaxLn = 5
  MaxCap = 3
  Rich = FALSE
SPECIFICATION Spec
INVARIANTS NotStuck Bounded Agree LinesClosedForm ValidGen RoundTrip CutFastq CutFasta LinesKeep LinesAgree SeekSniff SectionLemma
PROPERTY Progress
CHECK_DEADLOCK FALSE
