----------------------------- MODULE FastxIOMC -----------------------------
(***************************************************************************)
(* Exhaustive check of the C11 machines (FastxIO.tla) for small constants. *)
(*                                                                         *)
(* tok   : every string over the token alphabet Sigma up to MaxTok bytes   *)
(*         through the FASTA, FASTQ and sniffing machines: totality (no    *)
(*         stuck state, no evaluation error), termination (Progress,       *)
(*         Bounded) and agreement with the functional definition           *)
(*         FastaItems / FastqItems / EitherItems (Agree).                  *)
(* rt    : every list of <= 2 valid tiny records x line wrap x LF/CRLF x   *)
(*         every cut offset of the wire format: round trip, layout         *)
(*         independence, sniffer, truncation clauses.                      *)
(* lines : BufReader/read_line model, every string over {LF, CR, A} up to  *)
(*         MaxLn bytes, every capacity 1..MaxCap, every fill schedule:     *)
(*         delivered lines = Lines(b).                                     *)
(***************************************************************************)
EXTENDS FastxIO, TLC
CONSTANTS MaxTok,     \* token strings up to this length
          MaxLn,      \* line-reader strings up to this length
          MaxCap,     \* BufReader capacities 1..MaxCap
          Rich        \* TRUE: larger field sets for the round-trip lists

VARIABLES m, src
vars == <<m, src>>

A    == 65
BANG == 33
Sigma  == {GT, AT, PLUS, SP, CR, LF, A, BANG}
LSigma == {LF, CR, A}
Strings(S, n) == UNION {[1..k -> S] : k \in 0..n}

\* ------------------------------------------------------- tiny valid records
Ids    == IF Rich THEN {<<AT>>, <<GT, PLUS>>} ELSE {<<A>>, <<AT>>}
Descs  == IF Rich THEN {<< >>, <<SP, A>>, <<A, SP, GT>>} ELSE {<< >>, <<A, SP, AT>>}
FaSeqs == IF Rich THEN {<<A>>, <<AT, A, PLUS>>, <<A, A, BANG, A>>}
                  ELSE {<<A>>, <<PLUS, A, AT>>}
FqSQ   == IF Rich THEN {<<<<A>>, <<AT>>>>, <<<<A, A>>, <<PLUS, BANG>>>>, <<<<A, AT, A>>, <<AT, PLUS, A>>>>}
                  ELSE {<<<<A>>, <<PLUS>>>>, <<<<A, A, A>>, <<AT, BANG, PLUS>>>>}
MkRec(id, d, s, q) == [id |-> id, hd |-> IF d = << >> THEN 0 ELSE 1, desc |-> d, seq |-> s, qual |-> q]
FaRecs == {MkRec(id, d, s, << >>) : id \in Ids, d \in Descs, s \in FaSeqs}
FqRecs == {MkRec(id, d, sq[1], sq[2]) : id \in Ids, d \in Descs, sq \in FqSQ}
RecsOf(kind) == IF kind = "fasta" THEN FaRecs ELSE FqRecs
Lists(kind) == {<< >>} \cup {<<r>> : r \in RecsOf(kind)} \cup {<<r1, r2>> : r1 \in RecsOf(kind), r2 \in RecsOf(kind)}
Wraps == IF Rich THEN {0, 1, 2, 3} ELSE {0, 1, 2}

NoSrc == [t |-> "tok", b |-> << >>, p |-> "", kind |-> "", recs |-> << >>, wrap |-> 0, crlf |-> 0, full |-> FALSE]

TokInit ==
    \E p \in {"fasta", "fastq", "either"}, b \in Strings(Sigma, MaxTok) :
        /\ m = PInit(p, b)
        /\ src = [NoSrc EXCEPT !.b = b, !.p = p]

RtInit ==
    \E kind \in {"fasta", "fastq"}, wrap \in Wraps, crlf \in {0, 1}, either \in BOOLEAN :
      \E recs \in Lists(kind) :
        LET w == Wire(kind, recs, wrap, NL(crlf)) IN
        \E cut \in 0..Len(w) :
          LET b == SubSeq(w, 1, cut) IN
          /\ m = PInit(IF either THEN "either" ELSE kind, b)
          /\ src = [t |-> "rt", b |-> b, p |-> IF either THEN "either" ELSE kind, kind |-> kind, recs |-> recs, wrap |-> wrap, crlf |-> crlf,
                    full |-> (cut = Len(w))]

LinesInit ==
    \E b \in Strings(LSigma, MaxLn), cap \in 1..MaxCap :
        /\ m = LInit(b, cap)
        /\ src = [NoSrc EXCEPT !.t = "lines"]

\* seekable source sniffed at every offset (strings up to MaxLn over the token alphabet's markers)
SeekInit ==
    \E b \in Strings({GT, AT, LF, A}, MaxLn) : \E off \in 0..Len(b) :
        /\ m = SInit(b, off)
        /\ src = [NoSrc EXCEPT !.t = "seeksrc"]

Init == TokInit \/ RtInit \/ LinesInit \/ SeekInit

\* ------------------------------------------------------------------ actions
SniffA     == SniffEn(m)      /\ m' = Sniff(m)      /\ UNCHANGED src
FaBeginA   == FaBeginEn(m)    /\ m' = FaBegin(m)    /\ UNCHANGED src
FaSeqLineA == FaSeqLineEn(m)  /\ m' = FaSeqLine(m)  /\ UNCHANGED src
FqBeginA   == FqBeginEn(m)    /\ m' = FqBegin(m)    /\ UNCHANGED src
FqSeqLineA == FqSeqLineEn(m)  /\ m' = FqSeqLine(m)  /\ UNCHANGED src
FqQualLineA == FqQualLineEn(m) /\ m' = FqQualLine(m) /\ UNCHANGED src
FqFinishA  == FqFinishEn(m)   /\ m' = FqFinish(m)   /\ UNCHANGED src
IsLines == m.kind = "lines"
IsSeek  == m.kind = "seeksrc"
IsParser == ~IsLines /\ ~IsSeek
SIntrA     == IsSeek /\ SIntrEn(m) /\ m' = SIntr(m) /\ UNCHANGED src
LIntrA     == IsLines /\ LIntrEn(m) /\ m' = LIntr(m) /\ UNCHANGED src
SReadA     == IsSeek /\ SReadEn(m) /\ m' = SRead(m) /\ UNCHANGED src
SBackA     == IsSeek /\ SBackEn(m) /\ m' = SBack(m) /\ UNCHANGED src
LFillA(k)  == IsLines /\ LFillEn(m, k) /\ m' = LFill(m, k) /\ UNCHANGED src
LScanA     == IsLines /\ LScanEn(m)    /\ m' = LScan(m)    /\ UNCHANGED src
LEofA      == IsLines /\ LEofEn(m)     /\ m' = LEof(m)     /\ UNCHANGED src

ParserNext == ~IsLines /\ ~IsSeek /\ (SniffA \/ FaBeginA \/ FaSeqLineA \/ FqBeginA \/ FqSeqLineA \/ FqQualLineA \/ FqFinishA)
Next == ParserNext \/ (\E k \in 1..MaxCap : LFillA(k)) \/ LScanA \/ LEofA \/ SReadA \/ SBackA \/ SIntrA \/ LIntrA
Spec == Init /\ [][Next]_vars

\* --------------------------------------------------------------- invariants
\* totality: a machine that is not finished can always take a step
NotStuck ==
    m.done \/ IF IsLines THEN (\E k \in 1..MaxCap : LFillEn(m, k)) \/ LScanEn(m) \/ LEofEn(m)
              ELSE IF IsSeek THEN SReadEn(m) \/ SBackEn(m)
              ELSE SniffEn(m) \/ FaBeginEn(m) \/ FaSeqLineEn(m) \/ FqBeginEn(m) \/ FqSeqLineEn(m)
                   \/ FqQualLineEn(m) \/ FqFinishEn(m)

\* the iterator ends within (number of lines + 1) items
Bounded == IsParser => /\ m.i <= Len(m.ls) + 1
                       /\ Len(m.out) <= Len(m.ls) + 1
                       /\ m.q <= m.n /\ m.n <= Len(m.ls)

\* the step machine and the functional definition agree on every input
Agree == (IsParser /\ m.done) => m.out = ItemsFor(src.p, src.b)

\* the closed form of Lines used for long streams = the byte-by-byte definition
LinesClosedForm == IF IsLines THEN m.pos = 0 => Lines(m.data) = LinesRec(m.data)
                   ELSE IsParser => (m.out = << >> => Lines(src.b) = LinesRec(src.b))

\* generated records respect the documented preconditions
ValidGen == src.t = "rt" => \A i \in 1..Len(src.recs) : ValidRec(src.kind, src.recs[i], src.wrap)

\* Parse(Write(recs, wrap, LF/CRLF)) = recs, also through the sniffer
RoundTrip == (src.t = "rt" /\ m.done /\ src.full) => m.out = ItemsOf(src.kind, src.recs)

\* cut stream, FASTQ: the records that pass check() are a prefix of the originals
CutFastq == (src.t = "rt" /\ m.done /\ src.kind = "fastq") =>
                IsPrefix(Checked(m.out), ItemsOf("fastq", src.recs))

\* cut stream, FASTA: never an error item; everything before the last record is original
CutFasta == (src.t = "rt" /\ m.done /\ src.kind = "fasta") =>
                /\ \A i \in 1..Len(m.out) : m.out[i].k = "rec"
                /\ Len(m.out) <= Len(src.recs)
                /\ Len(m.out) > 0 => IsPrefix(SubSeq(m.out, 1, Len(m.out) - 1), ItemsOf("fasta", src.recs))

\* BufReader/read_line: nothing is lost or reordered, and the result is Lines(b)
LinesKeep == IsLines => FlattenSeq(m.lines) \o m.line \o m.buf = SubSeq(m.data, 1, m.pos)
LinesAgree == (IsLines /\ m.done) => m.lines = Lines(m.data)

\* termination: every step decreases the measure
LMu(x) == 3 * (2 * ((Len(x.data) - x.pos) + Len(x.buf)) + (IF x.buf = << >> THEN 1 ELSE 0)) + (MaxIntr - x.ni)
Progress == [][IF IsLines THEN m'.done \/ LMu(m') < LMu(m)
                ELSE IF IsSeek THEN m'.done \/ (m.phase = "read" /\ m'.phase = "back") \/ m'.ni > m.ni
                ELSE m'.done \/ Mu(m') < Mu(m)]_vars

\* get_kind_seek on a source at any offset: the position is unchanged and the answer is the
\* kind of the bytes from that offset on (SniffAt of the definition layer)
SeekSniff == (IsSeek /\ m.done) => /\ m.pos = m.pos0
                                   /\ [kind |-> m.res, pos |-> m.pos] = SniffAt(m.data, m.pos0)
\* a section of valid records behind any prefix: sniffed at its offset it is read back as the records
SectionLemma ==
    (src.t = "rt" /\ src.full /\ m.out = << >> /\ ~m.done /\ m.i = 1 /\ m.phase \in {"idle", "sniff"}) =>
        \A pre \in {<<AT, A, LF>>, src.b, <<A>>} :
            LET c == pre \o src.b IN
            /\ Suffix(c, Len(pre)) = src.b
            /\ ItemsAfterSniff(c, Len(pre)) = ItemsOf(src.kind, src.recs)
            /\ src.recs # << >> => SniffAt(c, Len(pre)).kind = src.kind
=============================================================================
