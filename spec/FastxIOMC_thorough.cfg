CONSTANTS
  MaxTok = 6
  MaxLn = 7
  MaxCap = 4
  Rich = TRUE
SPECIFICATION Spec
INVARIANTS NotStuck Bounded Agree LinesClosedForm ValidGen RoundTrip CutFastq CutFasta LinesKeep LinesAgree SeekSniff SectionLemma
PROPERTY Progress
CHECK_DEADLOCK FALSE
