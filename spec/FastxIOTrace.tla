---------------------------- MODULE FastxIOTrace ----------------------------
(* Trace validation for family "fastx" (C11).                               *)
(* run.cfg = [cls, kind, recs]; recs = the valid records of a round-trip    *)
(* run (empty for the classes that feed raw bytes).                         *)
(* events                                                                   *)
(*   write/display : bytes of the real writers = Wire(kind, recs, wrap, LF) *)
(*   parse  : outcome sequence of fasta::Records / fastq::Records /         *)
(*            fastx::EitherRecords (or the documented read() loops) over    *)
(*            BufReader(cap) over a scripted reader.                        *)
(*            - ASCII input: items = ItemsFor(parser, bytes) exactly. cap    *)
(*              and sched are not arguments of the definition, hence any    *)
(*              dependence on them is a rejection.                          *)
(*            - lay = 1: the bytes must be Wire(kind, recs, wrap, nl) (cut  *)
(*              after `cut` bytes); not cut: items = recs (round trip,      *)
(*              layout independence, sniffer); cut: truncation clauses.     *)
(*            - non-ASCII input: only "returns, no panic, ends within       *)
(*              |bytes|+2 items" (the property requires nothing else).      *)
(*   sniff  : kind()/get_kind/get_kind_seek = SniffKind(bytes)              *)
EXTENDS FastxIO, TLC, Json, IOUtils

Rec == ndJsonDeserialize(IOEnv.TRACE)

VARIABLES run, idx, ok
vars == <<run, idx, ok>>

ValidCfg(cfg, wrap) ==
    /\ cfg.kind \in {"fasta", "fastq"}
    /\ wrap >= 0
    /\ \A i \in 1..Len(cfg.recs) : ValidRec(cfg.kind, cfg.recs[i], wrap)

VariantKinds(items, b) ==
    [i \in 1..Len(items) |-> IF items[i].k = "err" THEN "err" ELSE SniffKind(b)]

LayoutClause(cfg, a, r) ==
    LET w    == Wire(cfg.kind, cfg.recs, a.wrap, NL(a.crlf))
        orig == ItemsOf(cfg.kind, cfg.recs)
    IN  /\ ValidCfg(cfg, a.wrap)
        /\ a.crlf \in {0, 1}
        /\ a.p \in {cfg.kind, "either"}
        /\ IF a.cut < 0
           THEN /\ a.b = w
                /\ r.items = orig                                   \* lossless, layout independent
           ELSE /\ a.cut <= Len(w)
                /\ a.b = SubSeq(w, 1, a.cut)
                /\ IF cfg.kind = "fastq"
                   THEN IsPrefix(Checked(r.items), orig)            \* checked records: originals, in order
                   ELSE /\ \A i \in 1..Len(r.items) : r.items[i].k = "rec"
                        /\ Len(r.items) <= Len(orig)
                        /\ Len(r.items) > 0 => IsPrefix(SubSeq(r.items, 1, Len(r.items) - 1), orig)

ParseOk(cfg, a, r) ==
    /\ r.st = "ok"
    /\ r.capped = 0
    /\ Len(r.items) <= Len(a.b) + 2
    /\ a.p \in {"fasta", "fastq", "either"}
    /\ IF IsAscii(a.b)
       THEN /\ r.items = ItemsFor(a.p, a.b)
            /\ a.p = "either" => r.vk = VariantKinds(r.items, a.b)
       ELSE TRUE
    /\ a.lay = 1 => LayoutClause(cfg, a, r)

Explains(cfg, e) ==
    LET c == e.c  r == e.r  a == e.c.a IN
    CASE c.op = "write" ->
           /\ r.st = "ok"
           /\ ValidCfg(cfg, a.wrap)
           /\ r.b = Wire(cfg.kind, cfg.recs, a.wrap, NL(0))
      [] c.op = "display" ->
           /\ r.st = "ok"
           /\ ValidCfg(cfg, 0)
           /\ r.b = Wire(cfg.kind, cfg.recs, 0, NL(0))
      [] c.op = "parse" -> ParseOk(cfg, a, r)
      [] c.op = "sniff" ->
           /\ r.st = "ok"
           /\ r.kind = SniffKind(a.b)
           /\ r.pos = 0
      [] OTHER -> FALSE

Init == run \in 1..Len(Rec) /\ idx = 0 /\ ok = TRUE
Next ==
    /\ ok /\ idx < Len(Rec[run].ev)
    /\ LET good == Explains(Rec[run].cfg, Rec[run].ev[idx + 1])
       IN  /\ ok' = good
           /\ IF good THEN TRUE ELSE PrintT(<<"REJECT", run, idx + 1>>)
    /\ idx' = idx + 1
    /\ UNCHANGED run
Spec == Init /\ [][Next]_vars
=============================================================================
