---------------------------- MODULE FastxIOTrace ----------------------------
(* Trace validation for family "fastx" (C11).                               *)
(* run.cfg = [cls, kind, recs]; recs = the valid records of a round-trip    *)
(* run (empty for the classes that feed raw bytes).                         *)
(* st = the bytes produced by the last `write` event of the run.            *)
(*                                                                          *)
(* Two verdicts per event.                                                  *)
(* Explains (the property, REJECT):                                         *)
(*   every call returns, no panic, the iteration ends within |bytes|+2      *)
(*   items (any input); a stream that is a layout of cfg.recs -- the bytes  *)
(*   the real writer produced (lay = 1, whatever they look like) or the     *)
(*   wire format re-wrapped / with CRLF built by the harness (lay = 2, the  *)
(*   specification re-derives it) -- is read back as exactly cfg.recs, by   *)
(*   the direct reader and through the sniffer, under every capacity and    *)
(*   chunking and every pattern of Err(Interrupted) answers of the source   *)
(*   or sink (args cap, sched, intr: not arguments of the expectation, the  *)
(*   contract of Interrupted is "no-op, retry"); cut after `cut`            *)
(*   bytes: the FASTQ records that pass check() are a prefix of cfg.recs.   *)
(*   sniff_at: the sniffer on a seekable source positioned at offset `off`   *)
(*   (reached by seek or by consuming bytes): when bytes[off..] is a layout  *)
(*   of cfg.recs (lay = 2, any prefix in front) the kind must be cfg.kind,   *)
(*   get_kind_seek must leave the position at `off` (also when repeated)     *)
(*   and the selected reader must yield exactly cfg.recs.                    *)
(* Exact (machine layer / exact parser definition, DRIFT):                  *)
(*   the writers' bytes = Wire(kind, recs, wrap, LF); for ASCII input the   *)
(*   outcome sequence (records AND error kinds, also on garbage) =          *)
(*   ItemsFor(parser, bytes); sniffer result on arbitrary bytes; cut FASTA  *)
(*   streams yield no error item and only the last record is damaged.       *)
EXTENDS FastxIO, TLC, Json, IOUtils

Rec == ndJsonDeserialize(IOEnv.TRACE)

VARIABLES run, idx, st, ok
vars == <<run, idx, st, ok>>

ValidCfg(cfg, wrap) ==
    /\ cfg.kind \in {"fasta", "fastq"}
    /\ wrap >= 0
    /\ \A i \in 1..Len(cfg.recs) : ValidRec(cfg.kind, cfg.recs[i], wrap)

VariantKinds(items, kind) ==
    [i \in 1..Len(items) |-> IF items[i].k = "err" THEN "err" ELSE kind]

\* the uncut stream an event with lay # 0 claims to read
Stream(cfg, s, a) == IF a.lay = 1 THEN s ELSE Wire(cfg.kind, cfg.recs, a.wrap, NL(a.crlf))

LayoutClause(cfg, s, a, r) ==
    LET w    == Stream(cfg, s, a)
        orig == ItemsOf(cfg.kind, cfg.recs)
    IN  /\ ValidCfg(cfg, a.wrap)
        /\ a.lay \in {1, 2} /\ a.crlf \in {0, 1}
        /\ a.p \in {cfg.kind, "either"}
        /\ IF a.cut < 0
           THEN /\ a.b = w
                /\ r.items = orig                                   \* lossless, layout independent
                /\ a.p = "either" => r.vk = VariantKinds(r.items, cfg.kind)     \* the matching parser
           ELSE /\ a.cut <= Len(w)
                /\ a.b = SubSeq(w, 1, a.cut)
                /\ cfg.kind = "fastq" => IsPrefix(Checked(r.items), orig)    \* checked records: originals, in order

ParseOk(cfg, s, a, r) ==
    /\ r.st = "ok"
    /\ r.capped = 0
    /\ Len(r.items) <= Len(a.b) + 2
    /\ a.p \in {"fasta", "fastq", "either"}
    /\ a.lay # 0 => LayoutClause(cfg, s, a, r)
    \* other ways to obtain the same records (a.how: copies by clone / serde / clone_from, read() then
    \* records() on one reader, iterator adapters, file constructors): `items` is judged as above, plus
    /\ a.how = "adapters" => /\ r.count = Len(r.items)
                             /\ r.last = IF r.items = << >> THEN << >> ELSE << r.items[Len(r.items)] >>
    /\ a.how = "copies" => r.fresh_empty = 1                       \* Record::new() = Record::default(), empty
    /\ (a.how = "from_file" /\ a.p = "either" /\ a.lay # 0 /\ a.cut < 0 /\ cfg.recs # << >>) =>
            r.kind_file = cfg.kind                                  \* get_kind_file: the matching parser

SniffAtOk(cfg, a, r) ==
    /\ r.st = "ok" /\ r.capped = 0
    /\ a.off >= 0 /\ a.off <= Len(a.b)
    /\ Len(r.items) <= Len(a.b) + 2
    /\ a.lay # 0 =>
          /\ a.lay = 2 /\ ValidCfg(cfg, a.wrap) /\ a.crlf \in {0, 1} /\ a.cut < 0
          /\ Suffix(a.b, a.off) = Wire(cfg.kind, cfg.recs, a.wrap, NL(a.crlf))
          /\ cfg.recs # << >> =>
                /\ r.kind = cfg.kind /\ r.kind2 = cfg.kind                   \* the matching parser
                /\ r.pos = a.off /\ r.pos2 = a.off                           \* the source stays where it was
                /\ r.items = ItemsOf(cfg.kind, cfg.recs)                      \* the records of bytes[off..]

SniffAtExact(a, r) ==
    LET suf == Suffix(a.b, a.off) IN
    /\ r.pos = a.off /\ r.pos2 = a.off
    /\ r.kind = SniffKind(suf) /\ r.kind2 = r.kind
    /\ IsAscii(suf) => r.items = ItemsAfterSniff(a.b, a.off)

Explains(cfg, s, e) ==
    LET c == e.c  r == e.r  a == e.c.a IN
    CASE c.op = "write"   -> r.st = "ok" /\ ValidCfg(cfg, a.wrap)
      [] c.op = "display" -> r.st = "ok" /\ ValidCfg(cfg, 0)
      [] c.op = "parse"   -> ParseOk(cfg, s, a, r)
      [] c.op = "sniff"   -> r.st = "ok"
      [] c.op = "write_fail" -> r.st = "ok"      \* another writer object ran into a hard I/O error: it may report
                                                \* errors but must not panic; nothing else about it is judged. The
                                                \* writers and readers that follow are judged as usual.
      [] c.op = "sniff_at" -> SniffAtOk(cfg, a, r)
      [] OTHER -> FALSE

ParseExact(cfg, a, r) ==
    /\ (a.how = "from_file" /\ a.p = "either") => r.kind_file = SniffKind(a.b)
    /\ IsAscii(a.b) => /\ r.items = ItemsFor(a.p, a.b)
                       /\ a.p = "either" => r.vk = VariantKinds(r.items, SniffKind(a.b))
    /\ (a.lay # 0 /\ a.cut >= 0 /\ cfg.kind = "fasta") =>
            LET orig == ItemsOf("fasta", cfg.recs) IN
            /\ \A i \in 1..Len(r.items) : r.items[i].k = "rec"
            /\ Len(r.items) <= Len(orig)
            /\ Len(r.items) > 0 => IsPrefix(SubSeq(r.items, 1, Len(r.items) - 1), orig)

Exact(cfg, e) ==
    LET c == e.c  r == e.r  a == e.c.a IN
    CASE c.op = "write"   -> r.b = Wire(cfg.kind, cfg.recs, a.wrap, NL(0))
      [] c.op = "display" -> r.b = Wire(cfg.kind, cfg.recs, 0, NL(0))
      [] c.op = "parse"   -> ParseExact(cfg, a, r)
      [] c.op = "sniff"   -> r.kind = SniffKind(a.b) /\ r.pos = 0
      [] c.op = "sniff_at" -> SniffAtExact(a, r)
      [] OTHER -> TRUE

After(s, e) == IF e.c.op = "write" THEN e.r.b ELSE s

Init == run \in 1..Len(Rec) /\ idx = 0 /\ st = << >> /\ ok = TRUE
Next ==
    /\ ok /\ idx < Len(Rec[run].ev)
    /\ LET e    == Rec[run].ev[idx + 1]
           good == Explains(Rec[run].cfg, st, e)
       IN  /\ ok' = good
           /\ st' = IF good THEN After(st, e) ELSE st
           /\ IF good
              THEN (IF Exact(Rec[run].cfg, e) THEN TRUE ELSE PrintT(<<"DRIFT", run, idx + 1>>))
              ELSE PrintT(<<"REJECT", run, idx + 1>>)
    /\ idx' = idx + 1
    /\ UNCHANGED run
Spec == Init /\ [][Next]_vars
=============================================================================
