CONSTANTS
  MaxLen = 6
  Values <- MC_Values
  MaxSteps = 3
SPECIFICATION Spec
INVARIANT PrefixCorrect
CHECK_DEADLOCK FALSE
