------------------------------ MODULE FenwickMC ------------------------------
(* Fenwick tree machine (tree array, low-bit walks) = prefix sum / prefix   *)
(* max of the update log, for every index, after every history of updates.  *)
EXTENDS Packed, TLC
CONSTANTS MaxLen, Values, MaxSteps

VARIABLES op, n, tree, updates
vars == <<op, n, tree, updates>>

MC_Values == {-2, 1, 3}

Init == /\ op \in {"sum", "max"} /\ n \in 1..MaxLen
        /\ tree = [i \in 1..n |-> 0] /\ updates = << >>
SetA(i, v) ==
    /\ tree' = FSet(tree, op, i + 1, v)
    /\ updates' = Append(updates, <<i, v>>)
    /\ UNCHANGED <<op, n>>
Next == /\ Len(updates) < MaxSteps
        /\ \E i \in 0..(n - 1), v \in Values : (op = "max" => v >= 0) /\ SetA(i, v)
Spec == Init /\ [][Next]_vars

PrefixCorrect == \A i \in 0..(n - 1) : FGet(tree, op, i + 1, 0) = FDef(updates, op, i)
=============================================================================
