CONSTANTS
  MaxLen = 8
  Values <- MC_Values
  MaxSteps = 4
SPECIFICATION Spec
INVARIANT PrefixCorrect
CHECK_DEADLOCK FALSE
