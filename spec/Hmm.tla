-------------------------------- MODULE Hmm --------------------------------
(***************************************************************************)
(* C14 -- discrete-emission hidden Markov models of rust-bio               *)
(* (src/stats/hmm/mod.rs: viterbi, forward, backward).                     *)
(*                                                                         *)
(* Numbers.  A model is a record                                           *)
(*     [s, m, den, a, b, pi, eps]                                          *)
(* of integer numerators over the common denominator `den`:                *)
(*     a[i+1][j+1]  transition  i -> j          (s x s)                    *)
(*     b[i+1][o+1]  emission of symbol o in i   (s x m)                    *)
(*     pi[i+1]      initial                      (s)                       *)
(*     eps[i+1]     end probability              (s)   (= den for every    *)
(*                  state when the model has no explicit end distribution, *)
(*                  i.e. the factor 1)                                     *)
(* States and symbols are 0-based (as in the code), sequences 1-based.     *)
(* The joint probability of a state path and an observation sequence of    *)
(* length T is an integer over Scale(m,T) = den^(2T+1):                    *)
(*     pi * B^T * A^(T-1) * eps.                                           *)
(* Everything below is exact integer arithmetic (TLC: 32 bit, so the       *)
(* drivers keep den^(2T+1) <= 2^30).                                       *)
(*                                                                         *)
(* Definition layer: PathNum, and the maximum / the sum / the arg-max set  *)
(* over ALL s^T state paths -- once literally over the function set        *)
(* [1..T -> States] (MaxNumSet, SumNumSet, ArgMaxSet) and once as an eager *)
(* depth-first enumeration of the same paths (MaxNum, SumNum), which is    *)
(* what the trace validation evaluates.  No dynamic programming, no        *)
(* sharing between paths: s^T products.                                    *)
(*                                                                         *)
(* Machine layer (shaped like the code): the Viterbi matrix with           *)
(* back-pointers and the zero-aware, last-wins maximum; the forward        *)
(* recursion; the backward recursion with its row-0 = end probabilities    *)
(* and its special single-observation branch.  HmmMC.tla runs these        *)
(* machines against the definition layer.                                  *)
(***************************************************************************)
EXTENDS Integers, Sequences, FiniteSets, FiniteSetsExt, TLC

RECURSIVE Pow(_, _)
Pow(x, e) == IF e <= 0 THEN 1 ELSE x * Pow(x, e - 1)

Scale(m, T) == Pow(m.den, 2 * T + 1)

States(m)   == 0..(m.s - 1)
A(m, i, j)  == m.a[i + 1][j + 1]
B(m, i, o)  == m.b[i + 1][o + 1]
Pi(m, i)    == m.pi[i + 1]
Eps(m, i)   == m.eps[i + 1]

Max2(x, y) == IF x >= y THEN x ELSE y

\* ------------------------------------------------------------ definition
\* joint "probability" (numerator over Scale) of one state path and obs
RECURSIVE PathNumFrom(_, _, _, _, _)
PathNumFrom(m, obs, path, t, acc) ==      \* acc = product up to and including position t
    IF t = Len(obs) THEN acc * Eps(m, path[t])
    ELSE PathNumFrom(m, obs, path, t + 1,
                     acc * A(m, path[t], path[t + 1]) * B(m, path[t + 1], obs[t + 1]))

PathNum(m, obs, path) ==
    PathNumFrom(m, obs, path, 1, Pi(m, path[1]) * B(m, path[1], obs[1]))

IsPath(m, obs, path) ==
    /\ Len(path) = Len(obs)
    /\ \A t \in 1..Len(path) : path[t] \in States(m)

\* literally over the set of all state paths
AllPaths(m, T)   == [1..T -> States(m)]
MaxNumSet(m, obs) == Max({PathNum(m, obs, p) : p \in AllPaths(m, Len(obs))})
SumNumSet(m, obs) == MapThenSumSet(LAMBDA p : PathNum(m, obs, p), AllPaths(m, Len(obs)))
ArgMaxSet(m, obs) == LET mx == MaxNumSet(m, obs)
                     IN  {p \in AllPaths(m, Len(obs)) : PathNum(m, obs, p) = mx}

\* the same enumeration, eager and depth first: (t, s, acc) = a path prefix
\* ending in state s at position t whose product so far is acc
RECURSIVE SumFrom(_, _, _, _, _), SumNext(_, _, _, _, _, _)
SumFrom(m, obs, t, s, acc) ==
    IF acc = 0 THEN 0                      \* every extension of a zero prefix is zero
    ELSE IF t = Len(obs) THEN acc * Eps(m, s)
    ELSE SumNext(m, obs, t, s, acc, 0)
SumNext(m, obs, t, s, acc, j) ==
    IF j = m.s THEN 0
    ELSE SumFrom(m, obs, t + 1, j, acc * A(m, s, j) * B(m, j, obs[t + 1]))
         + SumNext(m, obs, t, s, acc, j + 1)

RECURSIVE SumStart(_, _, _)
SumStart(m, obs, s) ==
    IF s = m.s THEN 0
    ELSE SumFrom(m, obs, 1, s, Pi(m, s) * B(m, s, obs[1])) + SumStart(m, obs, s + 1)
SumNum(m, obs) == SumStart(m, obs, 0)

RECURSIVE MaxFrom(_, _, _, _, _), MaxNext(_, _, _, _, _, _)
MaxFrom(m, obs, t, s, acc) ==
    IF acc = 0 THEN 0
    ELSE IF t = Len(obs) THEN acc * Eps(m, s)
    ELSE MaxNext(m, obs, t, s, acc, 0)
MaxNext(m, obs, t, s, acc, j) ==
    IF j = m.s THEN 0
    ELSE Max2(MaxFrom(m, obs, t + 1, j, acc * A(m, s, j) * B(m, j, obs[t + 1])),
              MaxNext(m, obs, t, s, acc, j + 1))

RECURSIVE MaxStart(_, _, _)
MaxStart(m, obs, s) ==
    IF s = m.s THEN 0
    ELSE Max2(MaxFrom(m, obs, 1, s, Pi(m, s) * B(m, s, obs[1])), MaxStart(m, obs, s + 1))
MaxNum(m, obs) == MaxStart(m, obs, 0)

\* tolerance of the log-space sums (C15): 0.5 % of the exact value + quantisation
Tol(x) == (x \div 200) + 1
Near(x, exact) == x >= exact - Tol(exact) /\ x <= exact + Tol(exact)

\* ---- meaning of the DP registers (used by the invariants of the machines)
\* product of a prefix path p (length t): pi * B^t * A^(t-1), over den^(2t)
RECURSIVE PrefixNumFrom(_, _, _, _, _)
PrefixNumFrom(m, obs, p, t, acc) ==
    IF t = Len(p) THEN acc
    ELSE PrefixNumFrom(m, obs, p, t + 1, acc * A(m, p[t], p[t + 1]) * B(m, p[t + 1], obs[t + 1]))
PrefixNum(m, obs, p) == PrefixNumFrom(m, obs, p, 1, Pi(m, p[1]) * B(m, p[1], obs[1]))
PrefixesEndingIn(m, t, s) == {p \in [1..t -> States(m)] : p[t] = s}
PrefixMax(m, obs, t, s) == Max({PrefixNum(m, obs, p) : p \in PrefixesEndingIn(m, t, s)})
PrefixSum(m, obs, t, s) == MapThenSumSet(LAMBDA p : PrefixNum(m, obs, p), PrefixesEndingIn(m, t, s))

\* product of a suffix q = states at positions t..T (q[1] is the state at t):
\* (A*B)^(T-t) * eps, over den^(2(T-t)+1)
RECURSIVE SuffixNumFrom(_, _, _, _, _, _)
SuffixNumFrom(m, obs, q, t, k, acc) ==      \* k = index into q, position t+k-1
    IF k = Len(q) THEN acc * Eps(m, q[k])
    ELSE SuffixNumFrom(m, obs, q, t, k + 1, acc * A(m, q[k], q[k + 1]) * B(m, q[k + 1], obs[t + k]))
SuffixNum(m, obs, q, t) == SuffixNumFrom(m, obs, q, t, 1, 1)
SuffixSum(m, obs, t, s) ==
    MapThenSumSet(LAMBDA q : SuffixNum(m, obs, q, t),
                  {q \in [1..(Len(obs) - t + 1) -> States(m)] : q[1] = s})

\* ------------------------------------------------------------- machines
\* Rows are sequences over the states (index s+1).

\* --- Viterbi (viterbi_matrices / viterbi_traceback)
\* (TLCEval: rows are built eagerly; a lazily evaluated row would be recomputed on every access)
VitRow0(m, o) == TLCEval([k \in 1..m.s |-> Pi(m, k - 1) * B(m, k - 1, o)])
FromRow0(m)   == [k \in 1..m.s |-> k - 1]

\* the comparator handed to Iterator::max_by: -1 Less, 0 Equal, 1 Greater
VitCmp(m, prev, a, bb, j) ==
    LET x == prev[a + 1]  y == prev[bb + 1] IN
    IF x = 0 /\ y = 0 THEN 0
    ELSE IF x = 0 THEN -1
    ELSE IF y = 0 THEN 1
    ELSE LET xa == x * A(m, a, j)  yb == y * A(m, bb, j)
         IN  IF xa < yb THEN -1 ELSE IF xa > yb THEN 1 ELSE 0

\* Iterator::max_by keeps the LAST of several maximal elements
RECURSIVE VitBest(_, _, _, _, _)
VitBest(m, prev, j, best, k) ==
    IF k = m.s THEN best
    ELSE VitBest(m, prev, j, IF VitCmp(m, prev, best, k, j) = 1 THEN best ELSE k, k + 1)

VitPred(m, prev, j) == VitBest(m, prev, j, 0, 1)
VitRow(m, prev, o)  ==
    TLCEval([k \in 1..m.s |-> LET a == VitPred(m, prev, k - 1)
                              IN  prev[a + 1] * A(m, a, k - 1) * B(m, k - 1, o)])
FromRow(m, prev)    == TLCEval([k \in 1..m.s |-> VitPred(m, prev, k - 1)])

\* the end term (factor 1 for models without end distribution)
EndRow(m, row) == TLCEval([k \in 1..m.s |-> row[k] * Eps(m, k - 1)])

\* Iterator::max_by_key also keeps the last maximum
RECURSIVE LastArgMax(_, _, _)
LastArgMax(row, best, k) ==
    IF k > Len(row) THEN best
    ELSE LastArgMax(row, IF row[k] >= row[best] THEN k ELSE best, k + 1)
VitLast(row) == LastArgMax(row, 1, 2) - 1          \* state with the best final value

\* traceback: state sequence, built from the back
RECURSIVE VitTrace(_, _, _, _)
VitTrace(from, i, cur, acc) ==      \* acc = states at rows i..T (1-based rows)
    IF i = 1 THEN acc
    ELSE LET p == from[i][cur + 1] IN VitTrace(from, i - 1, p, <<p>> \o acc)

\* --- forward
FwdRow0(m, o) == VitRow0(m, o)
RECURSIVE DotCol(_, _, _, _, _)
\* sum_k prev[k] * A[k][j]  (k = 0..s-1)
DotCol(m, prev, j, k, acc) ==
    IF k = m.s THEN acc ELSE DotCol(m, prev, j, k + 1, acc + prev[k + 1] * A(m, k, j))
FwdRow(m, prev, o) == TLCEval([k \in 1..m.s |-> DotCol(m, prev, k - 1, 0, 0) * B(m, k - 1, o)])
RECURSIVE SumSeq(_, _, _)
SumSeq(row, k, acc) == IF k > Len(row) THEN acc ELSE SumSeq(row, k + 1, acc + row[k])
FwdFinal(m, row) == SumSeq(EndRow(m, row), 1, 0)

\* --- backward (rows are stored in reverse time order, row 0 = end probabilities)
BwdRow0(m) == TLCEval([k \in 1..m.s |-> Eps(m, k - 1)])
RECURSIVE DotRow(_, _, _, _, _, _)
\* sum_k prev[k] * A[j][k] * B[k][o]
DotRow(m, prev, j, o, k, acc) ==
    IF k = m.s THEN acc
    ELSE DotRow(m, prev, j, o, k + 1, acc + prev[k + 1] * A(m, j, k) * B(m, k, o))
BwdRow(m, prev, o) == TLCEval([k \in 1..m.s |-> DotRow(m, prev, k - 1, o, 0, 0)])
BwdFinal(m, row, o) == SumSeq([k \in 1..m.s |-> row[k] * Pi(m, k - 1) * B(m, k - 1, o)], 1, 0)

\* ---- the machines run to completion (used by the trace validation: every traced
\* input also re-checks machine = definition, and a reported Viterbi path that is
\* optimal but not the machine's path is flagged as model drift, not as a violation)
RECURSIVE VitRun(_, _, _, _, _)
VitRun(m, obs, i, rows, from) ==
    IF i = Len(obs) THEN <<rows, from>>
    ELSE VitRun(m, obs, i + 1, Append(rows, VitRow(m, rows[i], obs[i + 1])), Append(from, FromRow(m, rows[i])))
MachineViterbi(m, obs) ==
    LET rf   == VitRun(m, obs, 1, <<VitRow0(m, obs[1])>>, <<FromRow0(m)>>)
        T    == Len(obs)
        lrow == EndRow(m, rf[1][T])
        last == VitLast(lrow)
    IN  [p |-> lrow[last + 1], path |-> VitTrace(rf[2], T, last, <<last>>)]
RECURSIVE FwdRun(_, _, _, _)
FwdRun(m, obs, i, row) == IF i = Len(obs) THEN row ELSE FwdRun(m, obs, i + 1, FwdRow(m, row, obs[i + 1]))
MachineForward(m, obs) == FwdFinal(m, FwdRun(m, obs, 1, FwdRow0(m, obs[1])))
RECURSIVE BwdRun(_, _, _, _)
BwdRun(m, obs, i, row) ==      \* row = beta_{T-i+1}; stops at beta_1
    IF i = Len(obs) THEN row ELSE BwdRun(m, obs, i + 1, BwdRow(m, row, obs[Len(obs) - i + 1]))
MachineBackward(m, obs) == BwdFinal(m, BwdRun(m, obs, 1, BwdRow0(m)), obs[1])

\* Tie-aware conformance of a reported Viterbi path with the Viterbi machine.  The code compares
\* log-space sums in f64: candidates that are EXACTLY equal as rationals differ there in the last
\* ulp (the order of the additions differs), so which of several exactly tied predecessors / final
\* states wins is decided by rounding noise, not by the position (the deterministic last-wins rule
\* of VitBest / VitLast, model-checked in HmmMC, is one such resolution).  The machine layer
\* therefore admits every resolution of exact ties: the path must end in a state with the maximal
\* final value, and every back pointer must be a predecessor attaining the maximal candidate.  The cell VALUES
\* do not depend on how ties are resolved.
\* Cells whose candidates are all zero involve no rounding (-inf compares exactly): there the
\* deterministic choice of the machine (VitPred / VitLast) is THE choice.
RECURSIVE BestInto(_, _, _, _, _)
BestInto(m, prev, j, k, acc) ==        \* max over predecessors k of prev[k] * A[k][j]
    IF k = m.s THEN acc ELSE BestInto(m, prev, j, k + 1, Max2(acc, prev[k + 1] * A(m, k, j)))
VitConsistent(m, obs, path) ==
    LET rows == VitRun(m, obs, 1, <<VitRow0(m, obs[1])>>, <<FromRow0(m)>>)[1]
        T    == Len(obs)
        lrow == EndRow(m, rows[T])
        top  == Max({lrow[k] : k \in 1..m.s})
    IN  /\ IF top > 0 THEN lrow[path[T] + 1] = top ELSE path[T] = VitLast(lrow)
        /\ \A t \in 2..T :
              LET j == path[t]  k == path[t - 1]  best == BestInto(m, rows[t - 1], j, 0, 0) IN
              IF best > 0 THEN rows[t - 1][k + 1] * A(m, k, j) = best ELSE k = VitPred(m, rows[t - 1], j)
=============================================================================
