------------------------------- MODULE HmmExp -------------------------------
(***************************************************************************)
(* C14, second model class: every parameter is a power of two or zero.     *)
(* A probability is an exponent e (p = 2^-e, e = 0, 1, 2, ... ; -1 in the  *)
(* recorded model = probability ZERO).  The joint probability of a state   *)
(* path and an observation sequence is 2^-(sum of the exponents on the     *)
(* path), so                                                               *)
(*     max over paths of the probability  =  MIN over paths of the         *)
(*     exponent sum                                                        *)
(* -- exact small integers, with a dynamic range far beyond what f64 can   *)
(* hold in linear space (exponent sums up to several thousand bits;        *)
(* -500 nats, where the fast exponential underflows to 0.0, is 721.3 bits).*)
(*                                                                         *)
(* Definition layer: PathExp, MinExp / arg-min over all S^T paths          *)
(* (set form and eager depth-first form), and for the likelihood the exact *)
(* mantissa  Num = sum over paths of 2^(MB - (E_p - MinExp))  (paths more  *)
(* than MB bits below the optimum are counted, each contributes < 1 unit). *)
(* Machine layer: the Viterbi matrix over the (min,+) semiring with the    *)
(* code's zero-aware, last-wins comparator; forward / backward as          *)
(* (log-sum, +) are covered by the mantissa bound only.                    *)
(***************************************************************************)
EXTENDS Integers, Sequences, FiniteSets, FiniteSetsExt, TLC

INF == 100000000                        \* exponent of probability zero
MB  == 16                               \* mantissa bits of the likelihood comparison

Ex(e)      == IF e < 0 THEN INF ELSE e
Plus(x, y) == IF x >= INF \/ y >= INF THEN INF ELSE x + y
Min2(x, y) == IF x <= y THEN x ELSE y

XStates(m)  == 0..(m.s - 1)
XA(m, i, j) == Ex(m.a[i + 1][j + 1])
XB(m, i, o) == Ex(m.b[i + 1][o + 1])
XPi(m, i)   == Ex(m.pi[i + 1])
XEps(m, i)  == Ex(m.eps[i + 1])          \* 0 for every state when there is no end distribution

\* ------------------------------------------------------------ definition
RECURSIVE PathExpFrom(_, _, _, _, _)
PathExpFrom(m, obs, path, t, acc) ==
    IF t = Len(obs) THEN Plus(acc, XEps(m, path[t]))
    ELSE PathExpFrom(m, obs, path, t + 1,
                     Plus(acc, Plus(XA(m, path[t], path[t + 1]), XB(m, path[t + 1], obs[t + 1]))))
PathExp(m, obs, path) == PathExpFrom(m, obs, path, 1, Plus(XPi(m, path[1]), XB(m, path[1], obs[1])))

XAllPaths(m, T)    == [1..T -> XStates(m)]
MinExpSet(m, obs)  == Min({PathExp(m, obs, p) : p \in XAllPaths(m, Len(obs))})
ArgMinSet(m, obs)  == LET mn == MinExpSet(m, obs) IN {p \in XAllPaths(m, Len(obs)) : PathExp(m, obs, p) = mn}

\* the same enumeration, eager and depth first
RECURSIVE MinFrom(_, _, _, _, _), MinNext(_, _, _, _, _, _)
MinFrom(m, obs, t, s, acc) ==
    IF acc >= INF THEN INF
    ELSE IF t = Len(obs) THEN Plus(acc, XEps(m, s))
    ELSE MinNext(m, obs, t, s, acc, 0)
MinNext(m, obs, t, s, acc, j) ==
    IF j = m.s THEN INF
    ELSE Min2(MinFrom(m, obs, t + 1, j, Plus(acc, Plus(XA(m, s, j), XB(m, j, obs[t + 1])))),
              MinNext(m, obs, t, s, acc, j + 1))
RECURSIVE MinStart(_, _, _)
MinStart(m, obs, s) ==
    IF s = m.s THEN INF
    ELSE Min2(MinFrom(m, obs, 1, s, Plus(XPi(m, s), XB(m, s, obs[1]))), MinStart(m, obs, s + 1))
MinExp(m, obs) == MinStart(m, obs, 0)

\* likelihood: sum over paths of 2^-(E_p), relative to 2^-mn, in units of 2^-MB:
\* <<sum of 2^(MB - d) over paths with d = E_p - mn <= MB,  number of paths with MB < d < INF>>
RECURSIVE Pow2(_)
Pow2(k) == IF k <= 0 THEN 1 ELSE 2 * Pow2(k - 1)
Term(e, mn) == IF e >= INF THEN <<0, 0>> ELSE IF e - mn <= MB THEN <<Pow2(MB - (e - mn)), 0>> ELSE <<0, 1>>
Add2(x, y) == <<x[1] + y[1], x[2] + y[2]>>
RECURSIVE NumFrom(_, _, _, _, _, _), NumNext(_, _, _, _, _, _, _)
NumFrom(m, obs, mn, t, s, acc) ==
    IF acc >= INF THEN <<0, 0>>
    ELSE IF t = Len(obs) THEN Term(Plus(acc, XEps(m, s)), mn)
    ELSE NumNext(m, obs, mn, t, s, acc, 0)
NumNext(m, obs, mn, t, s, acc, j) ==
    IF j = m.s THEN <<0, 0>>
    ELSE Add2(NumFrom(m, obs, mn, t + 1, j, Plus(acc, Plus(XA(m, s, j), XB(m, j, obs[t + 1])))),
              NumNext(m, obs, mn, t, s, acc, j + 1))
RECURSIVE NumStart(_, _, _, _)
NumStart(m, obs, mn, s) ==
    IF s = m.s THEN <<0, 0>>
    ELSE Add2(NumFrom(m, obs, mn, 1, s, Plus(XPi(m, s), XB(m, s, obs[1]))), NumStart(m, obs, mn, s + 1))
\* mn = MinExp(m, obs) < INF
MantissaAt(m, obs, mn) == NumStart(m, obs, mn, 0)
Mantissa(m, obs) == MantissaAt(m, obs, MinExp(m, obs))

\* ------------------------------------------------- Viterbi machine, (min,+)
XVitRow0(m, o) == TLCEval([k \in 1..m.s |-> Plus(XPi(m, k - 1), XB(m, k - 1, o))])
XFromRow0(m)   == [k \in 1..m.s |-> k - 1]
\* comparator of max_by on log-probabilities: -1 Less, 0 Equal, 1 Greater ("zero" = exponent INF)
XVitCmp(m, prev, a, bb, j) ==
    LET x == prev[a + 1]  y == prev[bb + 1] IN
    IF x >= INF /\ y >= INF THEN 0
    ELSE IF x >= INF THEN -1
    ELSE IF y >= INF THEN 1
    ELSE LET xa == Plus(x, XA(m, a, j))  yb == Plus(y, XA(m, bb, j))
         IN  IF xa > yb THEN -1 ELSE IF xa < yb THEN 1 ELSE 0       \* the smaller exponent is the greater probability
RECURSIVE XVitBest(_, _, _, _, _)
XVitBest(m, prev, j, best, k) ==
    IF k = m.s THEN best
    ELSE XVitBest(m, prev, j, IF XVitCmp(m, prev, best, k, j) = 1 THEN best ELSE k, k + 1)
XVitPred(m, prev, j) == XVitBest(m, prev, j, 0, 1)
XVitRow(m, prev, o) ==
    TLCEval([k \in 1..m.s |-> LET a == XVitPred(m, prev, k - 1)
                              IN  Plus(prev[a + 1], Plus(XA(m, a, k - 1), XB(m, k - 1, o)))])
XFromRow(m, prev) == TLCEval([k \in 1..m.s |-> XVitPred(m, prev, k - 1)])
XEndRow(m, row)   == TLCEval([k \in 1..m.s |-> Plus(row[k], XEps(m, k - 1))])
\* max_by_key on the last row keeps the last maximum = the last minimal exponent
RECURSIVE XLastArgMin(_, _, _)
XLastArgMin(row, best, k) ==
    IF k > Len(row) THEN best ELSE XLastArgMin(row, IF row[k] <= row[best] THEN k ELSE best, k + 1)
XVitLast(row) == XLastArgMin(row, 1, 2) - 1
RECURSIVE XVitTrace(_, _, _, _)
XVitTrace(from, i, cur, acc) ==
    IF i = 1 THEN acc ELSE LET p == from[i][cur + 1] IN XVitTrace(from, i - 1, p, <<p>> \o acc)
RECURSIVE XVitRun(_, _, _, _, _)
XVitRun(m, obs, i, rows, from) ==
    IF i = Len(obs) THEN <<rows, from>>
    ELSE XVitRun(m, obs, i + 1, Append(rows, XVitRow(m, rows[i], obs[i + 1])), Append(from, XFromRow(m, rows[i])))
XMachineViterbi(m, obs) ==
    LET rf   == XVitRun(m, obs, 1, <<XVitRow0(m, obs[1])>>, <<XFromRow0(m)>>)
        T    == Len(obs)
        lrow == XEndRow(m, rf[1][T])
        last == XVitLast(lrow)
    IN  [e |-> lrow[last + 1], path |-> XVitTrace(rf[2], T, last, <<last>>)]

\* prefix meaning of the matrix cells
RECURSIVE PrefixExpFrom(_, _, _, _, _)
PrefixExpFrom(m, obs, p, t, acc) ==
    IF t = Len(p) THEN acc
    ELSE PrefixExpFrom(m, obs, p, t + 1, Plus(acc, Plus(XA(m, p[t], p[t + 1]), XB(m, p[t + 1], obs[t + 1]))))
PrefixExp(m, obs, p) == PrefixExpFrom(m, obs, p, 1, Plus(XPi(m, p[1]), XB(m, p[1], obs[1])))
PrefixMin(m, obs, t, s) == Min({PrefixExp(m, obs, p) : p \in {q \in [1..t -> XStates(m)] : q[t] = s}})

\* tie-aware conformance of a reported path with the (min,+) Viterbi machine (see Hmm.tla,
\* VitConsistent: exact ties are resolved by floating-point rounding in the code)
RECURSIVE XBestInto(_, _, _, _, _)
XBestInto(m, prev, j, k, acc) ==
    IF k = m.s THEN acc ELSE XBestInto(m, prev, j, k + 1, Min2(acc, Plus(prev[k + 1], XA(m, k, j))))
XVitConsistent(m, obs, path) ==
    LET rows == XVitRun(m, obs, 1, <<XVitRow0(m, obs[1])>>, <<XFromRow0(m)>>)[1]
        T    == Len(obs)
        lrow == XEndRow(m, rows[T])
        top  == Min({lrow[k] : k \in 1..m.s})
    IN  /\ IF top < INF THEN lrow[path[T] + 1] = top ELSE path[T] = XVitLast(lrow)
        /\ \A t \in 2..T :
              LET j == path[t]  k == path[t - 1]  best == XBestInto(m, rows[t - 1], j, 0, INF) IN
              IF best < INF THEN Plus(rows[t - 1][k + 1], XA(m, k, j)) = best ELSE k = XVitPred(m, rows[t - 1], j)

\* ------------------------------------------------ closed-form family "cycle"
\* Models too large for any enumeration (S in the hundreds) are described by a few
\* parameters; the run carries only these, the harness builds the dense matrices from them:
\*   transition i -> i      exponent cs        (self loop)
\*              i -> i+1    exponent cf        (mod s)
\*              i -> i-1    exponent cb        (mod s)
\*              any other   exponent big
\*   emission   eb for every state and symbol;  end exponent ee for every state
\*   initial    0 for state s0, pbig for every other state          (-1 = probability zero)
\* If exactly one of cs, cf, cb is the strict minimum cmin, big > cmin and pbig >= 1, then the
\* unique optimal path starts in s0 and repeats that one move, and its exponent sum is
\*   T * eb + (T - 1) * cmin + ee
\* (any other path pays pbig >= 1 at the start or replaces at least one move by a strictly
\* more expensive one).  HmmExpMC (Cyc = TRUE) proves this equal to MinExp / the arg-min set
\* of the general definition for all small parameter values (s = 3, 4).
CycA(p, i, j) ==
    IF j = i THEN p.cs
    ELSE IF j = (i + 1) % p.s THEN p.cf
    ELSE IF j = (i + p.s - 1) % p.s THEN p.cb
    ELSE p.big
CycleModel(p) ==
    [s |-> p.s, m |-> p.m,
     a   |-> [i \in 1..p.s |-> [j \in 1..p.s |-> CycA(p, i - 1, j - 1)]],
     b   |-> [i \in 1..p.s |-> [o \in 1..p.m |-> p.eb]],
     pi  |-> [i \in 1..p.s |-> IF i - 1 = p.s0 THEN 0 ELSE p.pbig],
     eps |-> [i \in 1..p.s |-> p.ee]]
CycMin(p) == Min2(Ex(p.cs), Min2(Ex(p.cf), Ex(p.cb)))
CycValid(p) ==
    /\ p.s >= 3 /\ p.m >= 1 /\ p.s0 \in 0..(p.s - 1) /\ p.eb >= 0 /\ p.ee >= 0
    /\ CycMin(p) < INF
    /\ Cardinality({k \in {"s", "f", "b"} :
                       Ex(CASE k = "s" -> p.cs [] k = "f" -> p.cf [] OTHER -> p.cb) = CycMin(p)}) = 1
    /\ Ex(p.big) > CycMin(p) /\ Ex(p.pbig) >= 1
CycStep(p) == IF Ex(p.cs) = CycMin(p) THEN 0 ELSE IF Ex(p.cf) = CycMin(p) THEN 1 ELSE p.s - 1
ClosedPath(p, T) == [t \in 1..T |-> (p.s0 + CycStep(p) * (t - 1)) % p.s]
ClosedExp(p, T)  == T * p.eb + (T - 1) * CycMin(p) + p.ee
RECURSIVE Log2Ceil(_)
Log2Ceil(n) == IF n <= 1 THEN 0 ELSE 1 + Log2Ceil((n + 1) \div 2)

\* --------------------------------- closed-form family "decoupled chains with takeover"
\* k independent chains: transition i -> i has exponent de[i], every other transition is
\* ZERO; chain i emits symbol a (0) with exponent ae[i] and symbol b (1) with be[i]; initial
\* pe[i], end ee[i] (-1 = probability zero).  Observations are a^n or a^n b (hundreds or
\* thousands of symbols: only n and the presence of b are recorded).  Only the k constant
\* paths can have non-zero probability, so with T = n + hasb
\*     E_i = pe_i + (T - 1) * de_i + n * ae_i + hasb * be_i + ee_i ,
\* the Viterbi optimum is min_i E_i on the constant path i, and the likelihood is
\* sum_i 2^-E_i.  The dominant chain may die at the very end (be_i or ee_i ZERO) after the
\* other chains have fallen hundreds of nats behind it ("takeover").  HmmExpMC (Dec = TRUE)
\* proves the closed forms equal to MinExp / arg-min / Mantissa of the general definition.
Times(c, e) == IF c = 0 THEN 0 ELSE IF e >= INF THEN INF ELSE c * e
DecE(p, i, n, hasb) ==
    Plus(Ex(p.pe[i]), Plus(Times(n + hasb - 1, Ex(p.de[i])),
         Plus(Times(n, Ex(p.ae[i])), Plus(Times(hasb, Ex(p.be[i])), Ex(p.ee[i])))))
DecMin(p, n, hasb) == Min({DecE(p, i, n, hasb) : i \in 1..p.k})
RECURSIVE DecMantFrom(_, _, _, _, _, _)
DecMantFrom(p, n, hasb, mn, i, acc) ==
    IF i > p.k THEN acc ELSE DecMantFrom(p, n, hasb, mn, i + 1, Add2(acc, Term(DecE(p, i, n, hasb), mn)))
DecMantissa(p, n, hasb, mn) == DecMantFrom(p, n, hasb, mn, 1, <<0, 0>>)
DecObs(n, hasb) == [t \in 1..(n + hasb) |-> IF t <= n THEN 0 ELSE 1]
DecModel(p) ==
    [s |-> p.k, m |-> 2,
     a   |-> [i \in 1..p.k |-> [j \in 1..p.k |-> IF i = j THEN p.de[i] ELSE -1]],
     b   |-> [i \in 1..p.k |-> <<p.ae[i], p.be[i]>>],
     pi  |-> p.pe, eps |-> p.ee]
DecValid(p) == /\ p.k >= 1 /\ Len(p.pe) = p.k /\ Len(p.de) = p.k /\ Len(p.ae) = p.k
               /\ Len(p.be) = p.k /\ Len(p.ee) = p.k
=============================================================================
