CONSTANTS
  S = 2
  M = 1
  MaxT = 3
  Exps <- ExpsQ
  InitExps <- InitQ
  EndVecs <- OneEnd
  \* (thorough adds a second end vector with a zero and the exponent 3)
  CycSet <- CycParamsQ
  Cyc = FALSE
  Dec = FALSE
  DecSet <- DecParamsQ
SPECIFICATION Spec
INVARIANTS DefinitionsAgree VitMeaning VitResult MantissaBound NoStall
PROPERTY Progress
CHECK_DEADLOCK FALSE
