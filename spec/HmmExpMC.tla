------------------------------ MODULE HmmExpMC ------------------------------
(* The Viterbi machine over the (min,+) exponent semiring (HmmExp.tla) against  *)
(* the brute-force minimum over all S^T paths, for ALL models whose exponents   *)
(* are drawn from Exps (-1 = probability zero), with and without an end         *)
(* distribution, and all observation sequences of length 1..MaxT.               *)
(* Actions: VitFirst, VitStep*, VitEnd, VitTraceback.                           *)
EXTENDS HmmExp
CONSTANTS S, M, MaxT, Exps, InitExps, EndVecs,
          CycSet,    \* parameter set of the lemma run
          Dec, DecSet,   \* TRUE: lemma run of the decoupled-chains family over DecSet
          Cyc        \* TRUE: the models are the closed-form cycle family (lemma run)

NoEnd == [k \in 1..S |-> 0]
\* candidate end families
NoExplicitEnd == {}
OneEnd == {[k \in 1..S |-> IF k = 1 THEN 0 ELSE 1]}
TwoEnds == OneEnd \cup {[k \in 1..S |-> IF k = S THEN -1 ELSE 2]}
ExpsQ == {-1, 0, 1}
InitQ == {0, 1}          \* quick tier: a zero initial entry acts like a zero emission entry
ExpsT == {-1, 0, 1, 3}

Models == {[s |-> S, m |-> M, a |-> ta, b |-> tb, pi |-> ti, eps |-> te] :
              ta \in [1..S -> [1..S -> Exps]], tb \in [1..S -> [1..M -> Exps]],
              ti \in [1..S -> InitExps], te \in EndVecs \cup {NoEnd}}
ObsSeqs == UNION {[1..n -> 0..(M - 1)] : n \in 1..MaxT}

\* parameters of the cycle family explored by the lemma run (s = 3, 4; every move kind the
\* strict minimum; zero entries; with / without end exponent)
CycParams ==
    {p \in [s : {3, 4}, m : {M}, s0 : 0..3, cs : {-1, 0, 1, 2}, cf : {-1, 0, 1, 2}, cb : {-1, 0, 1, 2},
            big : {-1, 3}, pbig : {-1, 1}, eb : {0, 1}, ee : {0, 2}] : CycValid(p)}

CycParamsQ == {p \in CycParams : p.eb = 0 /\ p.ee = 0 /\ p.big = 3}

\* decoupled chains: 2 chains, every exponent role with a zero variant
DecChains == [pe : {0, 1}, de : {0, 1}, ae : {-1, 0, 2}, be : {-1, 0, 1}, ee : {-1, 0}]
DecOf(c1, c2) == [k |-> 2, pe |-> <<c1.pe, c2.pe>>, de |-> <<c1.de, c2.de>>, ae |-> <<c1.ae, c2.ae>>,
                  be |-> <<c1.be, c2.be>>, ee |-> <<c1.ee, c2.ee>>]
DecParams  == {DecOf(c1, c2) : c1 \in DecChains, c2 \in DecChains}
DecParamsQ == {DecOf(c1, c2) : c1 \in {c \in DecChains : c.pe = 0 /\ c.de = 0 /\ c.ae = 0}, c2 \in DecChains}
DecObsSet  == {DecObs(nn, hb) : nn \in 0..MaxT, hb \in {0, 1}} \ {<< >>}

VARIABLES m, obs, pc, i, rows, from, res, par
vars == <<m, obs, pc, i, rows, from, res, par>>
T == Len(obs)

Init == /\ IF Cyc THEN par \in CycSet /\ m = CycleModel(par) /\ obs \in ObsSeqs
           ELSE IF Dec THEN par \in DecSet /\ m = DecModel(par) /\ obs \in {o \in DecObsSet : Len(o) <= MaxT}
           ELSE par = 0 /\ m \in Models /\ obs \in ObsSeqs
        /\ pc = "vit" /\ i = 0 /\ rows = << >> /\ from = << >> /\ res = [e |-> -1, path |-> << >>]
VitFirst ==
    /\ pc = "vit" /\ i = 0
    /\ rows' = <<XVitRow0(m, obs[1])>> /\ from' = <<XFromRow0(m)>> /\ i' = 1
    /\ UNCHANGED <<m, obs, pc, res, par>>
VitStep ==
    /\ pc = "vit" /\ i >= 1 /\ i < T
    /\ rows' = Append(rows, XVitRow(m, rows[i], obs[i + 1]))
    /\ from' = Append(from, XFromRow(m, rows[i])) /\ i' = i + 1
    /\ UNCHANGED <<m, obs, pc, res, par>>
VitEnd ==
    /\ pc = "vit" /\ i = T
    /\ rows' = [rows EXCEPT ![T] = XEndRow(m, rows[T])] /\ pc' = "tb"
    /\ UNCHANGED <<m, obs, i, from, res, par>>
VitTraceback ==
    /\ pc = "tb"
    /\ LET last == XVitLast(rows[T])
       IN  res' = [e |-> rows[T][last + 1], path |-> XVitTrace(from, T, last, <<last>>)]
    /\ pc' = "done"
    /\ UNCHANGED <<m, obs, i, rows, from, par>>
Next == VitFirst \/ VitStep \/ VitEnd \/ VitTraceback
Spec == Init /\ [][Next]_vars

DefinitionsAgree == (pc = "vit" /\ i = 0) => MinExp(m, obs) = MinExpSet(m, obs)
VitMeaning ==
    (pc = "vit" /\ i >= 1) => \A st \in XStates(m) : rows[i][st + 1] = PrefixMin(m, obs, i, st)
VitResult ==
    pc = "done" => /\ res.e = MinExpSet(m, obs)
                   /\ res.path \in ArgMinSet(m, obs)
                   /\ res = XMachineViterbi(m, obs)
\* closed form of the cycle family = general definition (unique optimum)
CycleLemma ==
    (Cyc /\ pc = "done") =>
        /\ MinExpSet(m, obs) = ClosedExp(par, T)
        /\ ArgMinSet(m, obs) = {ClosedPath(par, T)}
        /\ res.path = ClosedPath(par, T) /\ res.e = ClosedExp(par, T)
        /\ T * Log2Ceil(par.s) >= 0
\* closed forms of the decoupled-chains family = general definition
NA == Cardinality({t \in 1..T : obs[t] = 0})
DecLemma ==
    (Dec /\ pc = "done") =>
        LET hb == T - NA
            mn == DecMin(par, NA, hb)
        IN  /\ MinExpSet(m, obs) = mn
            /\ mn < INF => /\ Mantissa(m, obs) = DecMantissa(par, NA, hb, mn)
                            /\ ArgMinSet(m, obs) = {[t \in 1..T |-> c - 1] : c \in {x \in 1..par.k : DecE(par, x, NA, hb) = mn}}
\* the likelihood mantissa: max term <= sum <= (number of paths) * max term
MantissaBound ==
    (pc = "done" /\ res.e < INF) =>
        LET mt == Mantissa(m, obs) IN
        mt[1] >= Pow2(MB) /\ mt[1] + mt[2] <= Cardinality(XAllPaths(m, T)) * Pow2(MB)
Rank == (IF pc = "vit" THEN 0 ELSE IF pc = "tb" THEN 1 ELSE 2) * (MaxT + 2) + i
Progress == [][Rank' > Rank]_vars
NoStall  == pc # "done" => ENABLED Next
=============================================================================
