CONSTANTS
  S = 4
  M = 1
  MaxT = 3
  Exps <- ExpsQ
  InitExps <- InitQ
  EndVecs <- NoExplicitEnd
  CycSet <- CycParamsQ
  Cyc = TRUE
SPECIFICATION Spec
INVARIANTS DefinitionsAgree VitMeaning VitResult MantissaBound CycleLemma NoStall
PROPERTY Progress
CHECK_DEADLOCK FALSE
