CONSTANTS
  S = 4
  M = 1
  MaxT = 4
  Exps <- ExpsQ
  InitExps <- InitQ
  EndVecs <- NoExplicitEnd
  CycSet <- CycParams
  Cyc = TRUE
  Dec = FALSE
  DecSet <- DecParamsQ
SPECIFICATION Spec
INVARIANTS DefinitionsAgree VitMeaning VitResult MantissaBound CycleLemma NoStall
PROPERTY Progress
CHECK_DEADLOCK FALSE
