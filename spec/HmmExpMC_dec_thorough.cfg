CONSTANTS
  S = 2
  M = 2
  MaxT = 4
  Exps <- ExpsQ
  InitExps <- InitQ
  EndVecs <- NoExplicitEnd
  CycSet <- CycParamsQ
  Cyc = FALSE
  Dec = TRUE
  DecSet <- DecParams
SPECIFICATION Spec
INVARIANTS DefinitionsAgree VitMeaning VitResult MantissaBound DecLemma NoStall
PROPERTY Progress
CHECK_DEADLOCK FALSE
