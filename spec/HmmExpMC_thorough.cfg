CONSTANTS
  S = 2
  M = 1
  MaxT = 3
  Exps <- ExpsT
  InitExps <- ExpsT
  EndVecs <- OneEnd
  CycSet <- CycParamsQ
  Cyc = FALSE
  Dec = FALSE
  DecSet <- DecParamsQ
SPECIFICATION Spec
INVARIANTS DefinitionsAgree VitMeaning VitResult MantissaBound NoStall
PROPERTY Progress
CHECK_DEADLOCK FALSE
