----------------------------- MODULE HmmExpTrace -----------------------------
(* Trace validation for family "hmmx" (C14, power-of-two model class).          *)
(* run.cfg = [kind, s, m, a, b, pi, eps]: exponents (p = 2^-e), -1 = zero;      *)
(* eps = 0 everywhere when the model has no end distribution.                   *)
(* Projection done by the harness (its only arithmetic, no expected value):     *)
(*   x = -ln p / ln 2                       (bits)                              *)
(*   viterbi : e = round(x), dev = round(|x - e| * 1e6)  (micro-bits)           *)
(*   forward / backward : k = ceil(x), mant = round(2^(k - x) * 2^16) in        *)
(*             [2^16, 2^17]   (p = mant * 2^-16 * 2^-k, like frexp)             *)
(*   flags nan / posinf / neginf                                                *)
(* Acceptance:                                                                  *)
(*   viterbi : the returned path is a state path whose exponent sum is the      *)
(*             MINIMUM over all S^T paths (any arg-min path), the reported      *)
(*             probability is 2^-(that sum) within 1e-3 bit (0.07 %);           *)
(*   forward / backward : p * 2^MinExp, on the 2^-16 mantissa scale, within     *)
(*             0.5 % (+ quantisation) of the exact sum over all paths of        *)
(*             2^-(E_p - MinExp); not below the Viterbi maximum; backward       *)
(*             within the same tolerance of the preceding forward;              *)
(*   probability zero (no path with finite exponent) <=> exactly ln(0).         *)
(*                                                                              *)
(* run.cfg.cls = "gen": the model is given entry by entry (above).              *)
(* run.cfg.cls = "cyc": closed-form cycle family of HmmExp.tla (hundreds of     *)
(*   states; the run carries only the parameters).  Viterbi must return THE     *)
(*   optimal path ClosedPath (it is unique) with exponent ClosedExp; forward /  *)
(*   backward are only bounded: max term <= sum <= S^T * max term, in exponent  *)
(*   form  ClosedExp - T*ceil(log2 S) <= k <= ClosedExp (+1 for a mantissa      *)
(*   rounded up to 2).                                                          *)
(* run.cfg.cls = "dec": closed-form decoupled-chains family (k chains, only the  *)
(*   exponents per chain are recorded); events carry the observation string as   *)
(*   (na, b) = a^na followed by b iff b = 1, and the Viterbi path run-length     *)
(*   encoded.  Same demands as for "gen", with MinExp / mantissa from the closed *)
(*   form: viterbi = constant path of an optimal chain with exactly its          *)
(*   exponent, forward = backward = sum over the chains within 0.5 %, never      *)
(*   below the Viterbi maximum, zero iff every chain has probability zero.       *)
EXTENDS HmmExp, Json, IOUtils

Rec == ndJsonDeserialize(IOEnv.TRACE)
VARIABLES run, idx, ok
vars == <<run, idx, ok>>

Flags0(r) == r.nan = 0 /\ r.posinf = 0
GoodPath(m, obs, path) == Len(path) = Len(obs) /\ \A t \in 1..Len(path) : path[t] \in XStates(m)
Prev(evs, k, op, obs) ==
    LET c == {j \in 1..(k - 1) : evs[j].c.op = op /\ evs[j].r.st = "ok" /\ evs[j].c.a.obs = obs}
    IN  IF c = {} THEN 0 ELSE Max(c)

\* reported likelihood on the mantissa scale of the optimum: mant * 2^(mn - k)
\* (d = mn - k in -1..MaxShift; -1 absorbs a mantissa that rounded up to 2)
MaxShift == 13
Scaled(mant, d) == IF d < 0 THEN mant \div 2 ELSE mant * Pow2(d)
LikOK(r, mn, mt) ==
    LET d == mn - r.k
        tol == (mt[1] \div 200) + mt[2] + Pow2(IF d < 0 THEN 0 ELSE d) + 1
    IN  /\ d >= -1 /\ d <= MaxShift
        /\ r.mant >= Pow2(MB) - 1 /\ r.mant <= Pow2(MB + 1)
        /\ Scaled(r.mant, d) >= mt[1] - tol /\ Scaled(r.mant, d) <= mt[1] + mt[2] + tol
        /\ Scaled(r.mant, d) >= Pow2(MB) - 1                    \* never below the Viterbi maximum

\* mn = MinExp(m, obs) of the event (computed once per event in Next)
Explains(evs, k, m, mn) ==
    LET e == evs[k]  c == e.c  r == e.r IN
    CASE c.op = "new" -> r.st = "ok"
      [] c.op = "viterbi" ->
           /\ r.st = "ok" /\ Flags0(r)
           /\ GoodPath(m, c.a.obs, r.path)
           /\ PathExp(m, c.a.obs, r.path) = mn
           /\ (r.neginf = 1) <=> (mn >= INF)
           /\ mn < INF => r.e = mn /\ r.dev <= 1000
      [] c.op \in {"forward", "backward"} ->
           /\ r.st = "ok" /\ Flags0(r)
           /\ LET pf == IF c.op = "backward" THEN Prev(evs, k, "forward", c.a.obs) ELSE 0
              IN  /\ (r.neginf = 1) <=> (mn >= INF)
                  /\ mn < INF =>
                       LET mt == MantissaAt(m, c.a.obs, mn) IN
                       /\ LikOK(r, mn, mt)
                       /\ (pf # 0 /\ evs[pf].r.neginf = 0) =>
                             LET f == evs[pf].r
                                 x == Scaled(r.mant, mn - r.k)  y == Scaled(f.mant, mn - f.k)
                                 tol == (mt[1] \div 200) + Pow2(MaxShift) + 1
                             IN  mn - f.k >= -1 /\ mn - f.k <= MaxShift /\ x - y <= tol /\ y - x <= tol
      [] OTHER -> FALSE

Init == run \in 1..Len(Rec) /\ idx = 0 /\ ok = TRUE
CycExplains(evs, k, p) ==
    LET e == evs[k]  c == e.c  r == e.r IN
    CASE c.op = "new" -> r.st = "ok" /\ CycValid(p)
      [] c.op = "viterbi" ->
           /\ r.st = "ok" /\ Flags0(r) /\ r.neginf = 0
           /\ Len(c.a.obs) >= 1
           /\ r.path = ClosedPath(p, Len(c.a.obs))
           /\ r.e = ClosedExp(p, Len(c.a.obs)) /\ r.dev <= 1000
      [] c.op \in {"forward", "backward"} ->
           /\ r.st = "ok" /\ Flags0(r) /\ r.neginf = 0
           /\ LET d == ClosedExp(p, Len(c.a.obs)) - r.k
              IN  d >= -1 /\ d <= Len(c.a.obs) * Log2Ceil(p.s)
           /\ r.mant >= Pow2(MB) - 1 /\ r.mant <= Pow2(MB + 1)
      [] OTHER -> FALSE

DecExplains(evs, k, p) ==
    LET e == evs[k]  c == e.c  r == e.r IN
    CASE c.op = "new" -> r.st = "ok" /\ DecValid(p)
      [] c.op \in {"viterbi", "forward", "backward"} ->
           /\ r.st = "ok" /\ Flags0(r)
           /\ c.a.na >= 0 /\ c.a.b \in {0, 1} /\ c.a.na + c.a.b >= 1
           /\ LET mn == DecMin(p, c.a.na, c.a.b)
                  T  == c.a.na + c.a.b
              IN  /\ (r.neginf = 1) <=> (mn >= INF)
                  /\ mn < INF =>
                       IF c.op = "viterbi"
                       THEN /\ r.e = mn /\ r.dev <= 1000
                            /\ Len(r.rle) = 1 /\ r.rle[1][2] = T               \* one constant run
                            /\ r.rle[1][1] \in 0..(p.k - 1)
                            /\ DecE(p, r.rle[1][1] + 1, c.a.na, c.a.b) = mn
                       ELSE LET mt == DecMantissa(p, c.a.na, c.a.b, mn)
                                pf == IF c.op = "backward" THEN k - 1 ELSE 0
                            IN  /\ LikOK(r, mn, mt)
                                /\ (pf >= 1 /\ evs[pf].c.op = "forward" /\ evs[pf].c.a = c.a
                                     /\ evs[pf].r.st = "ok" /\ evs[pf].r.neginf = 0) =>
                                      LET f == evs[pf].r
                                          x == Scaled(r.mant, mn - r.k)  y == Scaled(f.mant, mn - f.k)
                                          tol == (mt[1] \div 200) + Pow2(MaxShift) + 1
                                      IN  mn - f.k >= -1 /\ mn - f.k <= MaxShift /\ x - y <= tol /\ y - x <= tol
      [] OTHER -> FALSE

\* For viterbi events the machine layer is run on the traced input: its value must be the
\* path minimum (specification self-check: TLC error, never a VIOLATION); a reported path
\* that is minimal but not the machine's path is DRIFT.
Next ==
    /\ ok /\ idx < Len(Rec[run].ev)
    /\ LET e    == Rec[run].ev[idx + 1]
           m    == Rec[run].cfg
           gen  == m.cls = "gen"
           mn   == IF gen /\ e.c.op \in {"viterbi", "forward", "backward"} THEN MinExp(m, e.c.a.obs) ELSE 0
           good == IF gen THEN Explains(Rec[run].ev, idx + 1, m, mn)
                   ELSE IF m.cls = "dec" THEN DecExplains(Rec[run].ev, idx + 1, m)
                   ELSE CycExplains(Rec[run].ev, idx + 1, m)
       IN  /\ ok' = good
           /\ IF ~good THEN PrintT(<<"REJECT", run, idx + 1>>)
              ELSE IF ~gen \/ e.c.op # "viterbi" THEN TRUE
              ELSE LET mv == XMachineViterbi(m, e.c.a.obs) IN
                   /\ Assert(mv.e = mn, "(min,+) Viterbi machine # path minimum")
                   /\ IF ~XVitConsistent(m, e.c.a.obs, e.r.path)
                      THEN PrintT(<<"DRIFT", run, idx + 1>>) ELSE TRUE
    /\ idx' = idx + 1
    /\ UNCHANGED run
Spec == Init /\ [][Next]_vars
=============================================================================
