------------------------------- MODULE HmmMC -------------------------------
(***************************************************************************)
(* Exhaustive check of the Viterbi / forward / backward machines (shaped    *)
(* like src/stats/hmm/mod.rs) against the brute-force definitions over all  *)
(* S^T state paths, for ALL models with S states, M symbols, numerators     *)
(* over Den (rows sub-stochastic: zeros, ties, defective rows included),    *)
(* with and without an end distribution, and ALL observation sequences of   *)
(* length 1..MaxT.                                                          *)
(*                                                                         *)
(* One behaviour = viterbi, then forward, then backward on one (model,obs): *)
(*   VitFirst, VitStep*, VitEnd, VitTraceback,                              *)
(*   FwdFirst, FwdStep*, FwdEnd, BwdFirst, (BwdStep* BwdLast | BwdSingle)   *)
(***************************************************************************)
EXTENDS Hmm, TLC
CONSTANTS S, M, Den, MaxT,
          TRows,      \* rows allowed in the transition matrix
          ERows,      \* rows allowed in the emission matrix
          IRows,      \* allowed initial vectors
          EndRows     \* allowed explicit end vectors (the model without one is always included)

SubStochastic(n) == {r \in [1..n -> 0..Den] : SumSeq(r, 1, 0) <= Den}
AnyRow(n)        == [1..n -> 0..Den]
\* candidate instantiations (picked by the .cfg files)
AllT  == SubStochastic(S)
AllE  == SubStochastic(M)
AllI  == SubStochastic(S)
AllEnd == AnyRow(S)
Stochastic(n)    == {r \in [1..n -> 0..Den] : SumSeq(r, 1, 0) = Den}
\* reduced families for the quick tier (zeros, ties and defective rows all still present)
QE   == {r \in Stochastic(M) : r[1] >= r[M]} \cup {[k \in 1..M |-> IF k = M THEN 1 ELSE 0]}
QI   == {r \in Stochastic(S) : r[1] <= r[S]} \cup {[k \in 1..S |-> IF k = 1 THEN 1 ELSE 0]}
QEnd == {[k \in 1..S |-> IF k = 1 THEN 1 ELSE Den]}
QEnd2 == {[k \in 1..S |-> IF k = 1 THEN 1 ELSE Den], [k \in 1..S |-> IF k = S THEN 1 ELSE 0]}
FewEnd == {r \in AnyRow(S) : r[1] # r[S] \/ r[1] = 1}
StochT == Stochastic(S)

NoEnd == [k \in 1..S |-> Den]

Models ==
    {[s |-> S, m |-> M, den |-> Den, a |-> ta, b |-> tb, pi |-> ti, eps |-> te] :
        ta \in [1..S -> TRows], tb \in [1..S -> ERows], ti \in IRows, te \in EndRows \cup {NoEnd}}

ObsSeqs == UNION {[1..n -> 0..(M - 1)] : n \in 1..MaxT}

VARIABLES m, obs, pc, i, rows, from, res
vars == <<m, obs, pc, i, rows, from, res>>
\* rows : the matrix `vals` built so far (sequence of rows)
\* from : the back-pointer matrix (Viterbi only)
\* i    : number of rows computed in the current phase
\* res  : results so far  [vp, path, fwd, bwd]  (-1 / <<>> = not yet)
T == Len(obs)

Init ==
    /\ m \in Models
    /\ obs \in ObsSeqs
    /\ pc = "vit" /\ i = 0 /\ rows = << >> /\ from = << >>
    /\ res = [vp |-> -1, path |-> << >>, fwd |-> -1, bwd |-> -1]

\* ---------------------------------------------------------------- Viterbi
VitFirst ==
    /\ pc = "vit" /\ i = 0
    /\ rows' = <<VitRow0(m, obs[1])>> /\ from' = <<FromRow0(m)>> /\ i' = 1
    /\ UNCHANGED <<m, obs, pc, res>>
VitStep ==
    /\ pc = "vit" /\ i >= 1 /\ i < T
    /\ rows' = Append(rows, VitRow(m, rows[i], obs[i + 1]))
    /\ from' = Append(from, FromRow(m, rows[i]))
    /\ i' = i + 1
    /\ UNCHANGED <<m, obs, pc, res>>
VitEnd ==                                  \* end probabilities enter the last row
    /\ pc = "vit" /\ i = T
    /\ rows' = [rows EXCEPT ![T] = EndRow(m, rows[T])]
    /\ pc' = "vit_tb"
    /\ UNCHANGED <<m, obs, i, from, res>>
VitTraceback ==
    /\ pc = "vit_tb"
    /\ LET last == VitLast(rows[T])
       IN  res' = [res EXCEPT !.vp = rows[T][last + 1],
                              !.path = VitTrace(from, T, last, <<last>>)]
    /\ pc' = "fwd" /\ i' = 0 /\ rows' = << >> /\ from' = << >>
    /\ UNCHANGED <<m, obs>>

\* ---------------------------------------------------------------- forward
FwdFirst ==
    /\ pc = "fwd" /\ i = 0
    /\ rows' = <<FwdRow0(m, obs[1])>> /\ i' = 1
    /\ UNCHANGED <<m, obs, pc, from, res>>
FwdStep ==
    /\ pc = "fwd" /\ i >= 1 /\ i < T
    /\ rows' = Append(rows, FwdRow(m, rows[i], obs[i + 1])) /\ i' = i + 1
    /\ UNCHANGED <<m, obs, pc, from, res>>
FwdEnd ==
    /\ pc = "fwd" /\ i = T
    /\ res' = [res EXCEPT !.fwd = FwdFinal(m, rows[T])]
    /\ pc' = "bwd" /\ i' = 0 /\ rows' = << >>
    /\ UNCHANGED <<m, obs, from>>

\* --------------------------------------------------------------- backward
\* rows[k] = beta at time T-k+1 (rows[1] = end probabilities = beta_T)
BwdFirst ==
    /\ pc = "bwd" /\ i = 0
    /\ rows' = <<BwdRow0(m)>> /\ i' = 1
    /\ UNCHANGED <<m, obs, pc, from, res>>
BwdSingle ==                               \* the `observations.len() == 1` branch
    /\ pc = "bwd" /\ i = 1 /\ T = 1
    /\ res' = [res EXCEPT !.bwd = BwdFinal(m, rows[1], obs[1])]
    /\ pc' = "done"
    /\ UNCHANGED <<m, obs, i, rows, from>>
BwdStep ==                                 \* consumes obs[T-i+1], produces beta_{T-i}
    /\ pc = "bwd" /\ i >= 1 /\ i < T
    /\ rows' = Append(rows, BwdRow(m, rows[i], obs[T - i + 1])) /\ i' = i + 1
    /\ UNCHANGED <<m, obs, pc, from, res>>
BwdLast ==                                 \* i = T > 1: combine beta_1 with pi and obs[1]
    /\ pc = "bwd" /\ i = T /\ T > 1
    /\ res' = [res EXCEPT !.bwd = BwdFinal(m, rows[T], obs[1])]
    /\ pc' = "done"
    /\ UNCHANGED <<m, obs, i, rows, from>>

Next == VitFirst \/ VitStep \/ VitEnd \/ VitTraceback \/ FwdFirst \/ FwdStep \/ FwdEnd
        \/ BwdFirst \/ BwdSingle \/ BwdStep \/ BwdLast
Spec == Init /\ [][Next]_vars

\* ------------------------------------------------------------ invariants
\* the two formulations of the definition layer agree (checked once per (m,obs))
DefinitionsAgree ==
    (pc = "vit" /\ i = 0) =>
        /\ MaxNum(m, obs) = MaxNumSet(m, obs)
        /\ SumNum(m, obs) = SumNumSet(m, obs)
        /\ SumNumSet(m, obs) >= MaxNumSet(m, obs)
        /\ SumNumSet(m, obs) <= Scale(m, T)          \* sub-stochastic rows: a (defective) distribution

\* meaning of the registers
VitMeaning ==
    pc = "vit" => \A t \in {i} \ {0} : \A st \in States(m) :    \* the newest row (older rows: earlier states)
        /\ rows[t][st + 1] = PrefixMax(m, obs, t, st)
        /\ from[t][st + 1] \in States(m)
        \* the back pointer achieves the cell value
        /\ t > 1 => rows[t][st + 1] =
                      rows[t - 1][from[t][st + 1] + 1] * A(m, from[t][st + 1], st) * B(m, st, obs[t])
FwdMeaning ==
    pc = "fwd" => \A t \in {i} \ {0} : \A st \in States(m) :
        rows[t][st + 1] = PrefixSum(m, obs, t, st)
BwdMeaning ==
    pc = "bwd" => \A k \in {i} \ {0} : \A st \in States(m) :
        rows[k][st + 1] = SuffixSum(m, obs, T - k + 1, st)

\* results
\* (each checked in the state in which the result appears; `res` never changes afterwards)
VitResult ==
    (pc = "fwd" /\ i = 0) => /\ res.vp = MaxNumSet(m, obs)
                   /\ IsPath(m, obs, res.path)
                   /\ res.path \in ArgMaxSet(m, obs)
                   /\ PathNum(m, obs, res.path) = res.vp
FwdResult == (pc = "bwd" /\ i = 0) => res.fwd = SumNumSet(m, obs)
BwdResult == pc = "done" => res.bwd = SumNumSet(m, obs)
Final     == pc = "done" => res.fwd = res.bwd /\ res.fwd >= res.vp /\ res.vp >= 0

TypeOK ==
    /\ pc \in {"vit", "vit_tb", "fwd", "bwd", "done"}
    /\ i \in 0..T /\ Len(rows) = i

\* progress: a rank that strictly increases with every step and is bounded, and
\* no state before "done" without a successor  ==> every behaviour terminates
PhaseNo == CASE pc = "vit" -> 0 [] pc = "vit_tb" -> 1 [] pc = "fwd" -> 2 [] pc = "bwd" -> 3 [] OTHER -> 4
Rank == PhaseNo * (MaxT + 2) + i
Progress == [][Rank' > Rank]_vars
NoStall  == pc # "done" => ENABLED Next
=============================================================================
