CONSTANTS
  S = 3
  M = 1
  Den = 2
  MaxT = 3
  TRows <- StochT
  ERows <- QE
  IRows <- QI
  EndRows <- QEnd2
SPECIFICATION Spec
INVARIANTS TypeOK DefinitionsAgree VitMeaning FwdMeaning BwdMeaning VitResult FwdResult BwdResult Final NoStall
PROPERTY Progress
CHECK_DEADLOCK FALSE
