CONSTANTS
  S = 2
  M = 2
  Den = 2
  MaxT = 3
  TRows <- AllT
  ERows <- AllE
  IRows <- AllI
  EndRows <- QEnd2
SPECIFICATION Spec
INVARIANTS TypeOK DefinitionsAgree VitMeaning FwdMeaning BwdMeaning VitResult FwdResult BwdResult Final NoStall
PROPERTY Progress
CHECK_DEADLOCK FALSE
