------------------------------ MODULE HmmTrace ------------------------------
(* Trace validation for family "hmm" (C14).                                  *)
(* run.cfg = the model [kind, ctor, s, m, den, a, b, pi, eps] (numerators;   *)
(* eps = den everywhere when the model has no end distribution).             *)
(* events (all on the same model object):                                    *)
(*   new                    -> ok                                            *)
(*   viterbi(obs)  -> path, p   p = round(exp(logp) * den^(2T+1))            *)
(*   forward(obs)  -> p         (same projection; flags nan/posinf/neginf)   *)
(*   backward(obs) -> p                                                      *)
(* Acceptance (DESIGN.md sec. 5 C14):                                        *)
(*   viterbi : path is a state path of length T, its joint probability with  *)
(*             obs equals the reported probability, and that is the maximum  *)
(*             over all S^T paths (any arg-max path is accepted);            *)
(*   forward / backward : within 0.5 % (+1 unit) of the sum over all S^T     *)
(*             paths, never below the Viterbi maximum, backward within the   *)
(*             same tolerance of the preceding forward on the same obs;      *)
(*   probability zero is reported exactly as zero (log -inf) and only then;  *)
(*   NaN, +inf, panic, dangling call: never explained.                       *)
EXTENDS Hmm, TLC, Json, IOUtils

Rec == ndJsonDeserialize(IOEnv.TRACE)

VARIABLES run, idx, ok
vars == <<run, idx, ok>>

Flags0(r)  == r.nan = 0 /\ r.posinf = 0
ZeroRule(r, exact) == /\ (r.neginf = 1) <=> (exact = 0)
                      /\ (r.neginf = 1) => r.p = 0

\* total: `path` is whatever the code returned
GoodPath(m, obs, path) ==
    /\ Len(path) = Len(obs)
    /\ \A t \in 1..Len(path) : path[t] \in States(m)

\* index of the latest earlier ok-event `op` on the same observations (0 = none)
Prev(evs, k, op, obs) ==
    LET c == {j \in 1..(k - 1) : evs[j].c.op = op /\ evs[j].r.st = "ok" /\ evs[j].c.a.obs = obs}
    IN  IF c = {} THEN 0 ELSE Max(c)

Explains(evs, k, m) ==
    LET e == evs[k]  c == e.c  r == e.r IN
    CASE c.op = "new" -> r.st = "ok"
      \* secondary observables of the model object
      [] c.op = "meta" ->
           /\ r.st = "ok" /\ r.ns = m.s
           /\ r.states = [i \in 1..m.s |-> i - 1]
           /\ r.trans = [i \in 1..(m.s * m.s) |-> <<(i - 1) \div m.s, (i - 1) % m.s>>]
      [] c.op = "clone" -> r.st = "ok" /\ r.eq = 1      \* a clone is equal to (and from now on replaces) the model
      [] c.op = "viterbi" ->
           /\ r.st = "ok"
           /\ Flags0(r)
           /\ r.scale = Scale(m, Len(c.a.obs))
           /\ GoodPath(m, c.a.obs, r.path)
           /\ LET mx == MaxNum(m, c.a.obs) IN
              /\ r.p = mx
              /\ PathNum(m, c.a.obs, r.path) = mx
              /\ ZeroRule(r, mx)
      [] c.op \in {"forward", "backward"} ->
           /\ r.st = "ok"
           /\ Flags0(r)
           /\ r.scale = Scale(m, Len(c.a.obs))
           /\ LET sm == SumNum(m, c.a.obs)
                  mx == MaxNum(m, c.a.obs)
                  pf == IF c.op = "backward" THEN Prev(evs, k, "forward", c.a.obs) ELSE 0
                  \* the last computed row of the returned table: alpha_T (forward), beta_1 (backward)
                  want == IF c.op = "forward" THEN FwdRun(m, c.a.obs, 1, FwdRow0(m, c.a.obs[1]))
                          ELSE BwdRun(m, c.a.obs, 1, BwdRow0(m))
              IN  /\ Near(r.p, sm)
                  /\ r.shape = <<Len(c.a.obs), m.s>> /\ Len(r.row) = m.s
                  /\ \A st \in 1..m.s : /\ r.row[st].nan = 0 /\ r.row[st].posinf = 0
                                         /\ Near(r.row[st].p, want[st]) /\ ZeroRule(r.row[st], want[st])
                  /\ r.p >= mx
                  /\ ZeroRule(r, sm)
                  /\ pf # 0 => LET f == evs[pf].r.p IN r.p - f <= Tol(sm) /\ f - r.p <= Tol(sm)
      [] OTHER -> FALSE

\* machine layer on the traced inputs: must agree with the definition layer (otherwise the
\* specification itself is inconsistent: TLC error, exit 2 -- never a VIOLATION)
MachineAgrees(m, c) ==
    CASE c.op = "viterbi"  -> Assert(MachineViterbi(m, c.a.obs).p = MaxNum(m, c.a.obs), "Viterbi machine # path maximum")
      [] c.op = "forward"  -> Assert(MachineForward(m, c.a.obs) = SumNum(m, c.a.obs), "forward machine # path sum")
      [] c.op = "backward" -> Assert(MachineBackward(m, c.a.obs) = SumNum(m, c.a.obs), "backward machine # path sum")
      [] OTHER -> TRUE
\* an accepted Viterbi path that is not the one the machine layer (tie-breaks of the code) takes
\* (exact ties are resolved by floating-point rounding in the code: any resolution is the machine's,
\* see VitConsistent; where every candidate is zero nothing is rounded and the machine's choice is THE choice)
Drift(m, e) == e.c.op = "viterbi" /\ ~VitConsistent(m, e.c.a.obs, e.r.path)

Init == run \in 1..Len(Rec) /\ idx = 0 /\ ok = TRUE
Next ==
    /\ ok /\ idx < Len(Rec[run].ev)
    /\ LET good == Explains(Rec[run].ev, idx + 1, Rec[run].cfg)
       IN  /\ ok' = good
           /\ MachineAgrees(Rec[run].cfg, Rec[run].ev[idx + 1].c)
           /\ IF good
              THEN IF Drift(Rec[run].cfg, Rec[run].ev[idx + 1]) THEN PrintT(<<"DRIFT", run, idx + 1>>) ELSE TRUE
              ELSE PrintT(<<"REJECT", run, idx + 1>>)
    /\ idx' = idx + 1
    /\ UNCHANGED run
Spec == Init /\ [][Next]_vars
=============================================================================
