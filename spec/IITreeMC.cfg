CONSTANTS
  Starts = {1, 2, 3, 4}
  Widths = {1, 3}
  MaxN = 5
  LL = 0
SPECIFICATION Spec
INVARIANTS PruneSafe FindExact Sorted MaxLevel
CHECK_DEADLOCK FALSE
