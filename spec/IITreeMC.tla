------------------------------- MODULE IITreeMC -------------------------------
(* Array-backed interval tree machine: insert (append, clears `indexed`),   *)
(* index (stable sort + bottom-up max augmentation incl. the virtual right  *)
(* spine trick), find (explicit stack, leaf level LL). After any history of *)
(* inserts interleaved with index, find on an indexed tree reports exactly  *)
(* the overlapping entries, each once.                                      *)
EXTENDS IntervalIndex, TLC
CONSTANTS Starts, Widths, MaxN, LL

VARIABLES a, ml, indexed
vars == <<a, ml, indexed>>

Init == a = << >> /\ ml = 0 /\ indexed = FALSE
Insert(s, wd) ==
    /\ Len(a) < MaxN
    /\ a' = Append(a, [s |-> s, e |-> s + wd, d |-> 0, mx |-> s + wd])
    /\ indexed' = FALSE /\ UNCHANGED ml
Index ==
    /\ ~indexed
    /\ LET r == IndexCore(StableSort(a, << >>)) IN a' = r[1] /\ ml' = r[2]
    /\ indexed' = TRUE
Next == (\E s \in Starts, wd \in Widths : Insert(s, wd)) \/ Index
Spec == Init /\ [][Next]_vars

Lo == CHOOSE x \in Starts : \A y \in Starts : x <= y
Hi == (CHOOSE x \in Starts : \A y \in Starts : x >= y) + (CHOOSE x \in Widths : \A y \in Widths : x >= y)
Queries == {q \in ((Lo - 1)..(Hi + 1)) \X ((Lo - 1)..(Hi + 1)) : q[1] < q[2]}

ToSet(seq) == {seq[i] : i \in 1..Len(seq)}
FindExact ==
    indexed => \A q \in Queries :
        LET r == IIFind(a, ml, q[1], q[2], LL) IN
        /\ Cardinality(ToSet(r)) = Len(r)                                      \* no duplicates
        /\ ToSet(r) = {i \in 0..(Len(a) - 1) : Ovl(a[i + 1].s, a[i + 1].e, q[1], q[2])}
PruneSafe == indexed => IIPruneSafe(a, ml, LL)
Sorted == indexed => \A i \in 1..(Len(a) - 1) : a[i].s <= a[i + 1].s
MaxLevel == indexed /\ a # << >> => (Pow2i(ml) <= Len(a) /\ Pow2i(ml + 1) > Len(a))
=============================================================================
