---------------------------- MODULE IndexedFasta ----------------------------
(***************************************************************************)
(* C12 -- random access into a FASTA file through a .fai index             *)
(* (rust-bio src/io/fasta.rs: Index, IndexedReader, IndexedReaderIterator).*)
(*                                                                         *)
(* Definition layer                                                        *)
(*   FileOf(recs), FaiOf(recs)   layout of a file whose record r has lines *)
(*                               of r.w bases + r.t terminator bytes, and  *)
(*                               the index rows that describe it           *)
(*   Expected(seq,start,stop)    = seq[start..stop)                        *)
(*   NeedEnd(row,start,stop)     first file offset behind the last needed  *)
(*                               base: a file cut before it cannot serve   *)
(*                               the interval                              *)
(*   ReadRefusal                 the documented error cases                *)
(*                                                                         *)
(* Machine layer (operators on a state record m and a file context F;      *)
(* IndexedFastaMC wires them to TLA+ variables/actions, IndexedFastaTrace  *)
(* replays recorded seeks and read() sizes through the same operators)     *)
(*   Fetch*          select record + interval (no validation, as the code) *)
(*   ReadBegin       validation, seek_to: position arithmetic, BufReader   *)
(*                   buffer discarded                                      *)
(*   Fill(k)         ENVIRONMENT: the underlying read() returns k bytes,   *)
(*                   1 <= k <= min(cap, rest of file); only on an empty    *)
(*                   buffer (BufReader::fill_buf)                          *)
(*   Eof             read() returned 0: "FASTA file is truncated"          *)
(*   ReadLineStep    IndexedReader::read_line (bases on line, bytes to     *)
(*                   read / keep, terminator skipping, zero-base steps)    *)
(*   Done            bases_left = 0                                        *)
(*   IterYield/IterRefill/IFillStep/IterEnd   IndexedReaderIterator with   *)
(*                   its bounded internal buffer (capacity                 *)
(*                   min(ICap, min(bases_left, line_bases)), ICap = 512)   *)
(* Scaled constants: F.cap (BufReader capacity, 8192), F.icap (512).       *)
(***************************************************************************)
EXTENDS Naturals, Sequences, FiniteSets

GT == 62
SP == 32
CR == 13
LF == 10

Min2(a, b) == IF a <= b THEN a ELSE b
MaxOf(S) == CHOOSE x \in S : \A y \in S : y <= x
IsPrefix(s, t) == Len(s) <= Len(t) /\ SubSeq(t, 1, Len(s)) = s

\* ============================================================== definition
\* a record: [name, desc, seq, w, t]   w = bases per line (>= 1), t = 1 (LF) or 2 (CRLF)
Term(t) == IF t = 2 THEN <<CR, LF>> ELSE <<LF>>

RECURSIVE Chunks(_, _, _)
Chunks(s, w, nl) == IF s = << >> THEN << >>
                    ELSE SubSeq(s, 1, Min2(w, Len(s))) \o nl \o Chunks(SubSeq(s, w + 1, Len(s)), w, nl)

RecHeader(r) == <<GT>> \o r.name \o (IF r.desc # << >> THEN <<SP>> \o r.desc ELSE << >>) \o Term(r.t)
RecBody(r)   == Chunks(r.seq, r.w, Term(r.t))

RECURSIVE FileFrom(_, _)
FileFrom(recs, i) == IF i > Len(recs) THEN << >> ELSE RecHeader(recs[i]) \o RecBody(recs[i]) \o FileFrom(recs, i + 1)
FileOf(recs) == FileFrom(recs, 1)

\* .fai rows: name, sequence length, offset of the first base, bases per line, bytes per line
RECURSIVE FaiFrom(_, _, _, _)
FaiFrom(recs, i, at, acc) ==
    IF i > Len(recs) THEN acc
    ELSE LET r   == recs[i]
             off == at + Len(RecHeader(r))
         IN  FaiFrom(recs, i + 1, off + Len(RecBody(r)),
                     Append(acc, [name |-> r.name, len |-> Len(r.seq), off |-> off, lb |-> r.w, lby |-> r.w + r.t]))
FaiOf(recs) == FaiFrom(recs, 1, 0, << >>)

Expected(seq, start, stop) == SubSeq(seq, start + 1, stop)

\* first offset behind the last needed base (0: nothing is needed)
NeedEnd(row, start, stop) ==
    IF stop > start
    THEN row.off + ((stop - 1) \div row.lb) * row.lby + ((stop - 1) % row.lb) + 1
    ELSE 0

\* HashMap::insert per row: the last row of a name wins. 0 = unknown; otherwise rid + 1
NameRid(idx, name) ==
    LET S == {i \in 1..Len(idx) : idx[i].name = name} IN IF S = {} THEN 0 ELSE MaxOf(S)
RidOk(idx, rid) == rid + 1 \in 1..Len(idx)

\* ------------------------------------------------- closed-form huge family
\* One record of `len` bases (len up to ~5*10^9, never materialised) whose i-th base (0-based) is
\* "ACGTN"[i mod 5] (period 5: a position error of 2^32 bases or bytes is visible, 2^32 mod 5 = 1).
\* TLC integers are 32 bit: a position travels as a pair <<hi, lo>> = hi * R + lo
\* with 5 | R (R = 10^6 in the traces), so the slice starting there depends on lo only.
\* IndexedFastaMC checks BigLemma: for small parameters this closed form is Expected() of the
\* definition above.
BigBases == <<65, 67, 71, 84, 78>>
BigPeriod == 5
BigBase(i) == BigBases[(i % BigPeriod) + 1]
BigSeq(len) == [i \in 1..len |-> BigBase(i - 1)]
BigExpected(lo, n) == [j \in 1..n |-> BigBase((lo + j - 1) % BigPeriod)]
PairNorm(R, hi, lo) == <<hi + (lo \div R), lo % R>>
PairLE(a, b) == a[1] < b[1] \/ (a[1] = b[1] /\ a[2] <= b[2])

\* ================================================================= machine
\* F = [data, idx, cap, icap]: (possibly truncated) file bytes, index rows, BufReader
\*     capacity, iterator buffer bound
\* m = reader state
MInit == [f |-> 0, start |-> 0, stop |-> 0,              \* fetched record (rid+1, 0 = none) and interval
          phase |-> "idle", last |-> "none", why |-> "none",
          pos |-> 0, buf |-> << >>,                      \* BufReader: position of the underlying reader, unread bytes
          lineoff |-> 0, left |-> 0, out |-> << >>,
          ibuf |-> << >>, ibi |-> 0, icapv |-> 0, want |-> 0]

\* --- fetch protocol (a failed fetch leaves the previous selection in place)
FetchSet(m, k, start, stop) ==        \* last/why: ghost record of the previous read call's outcome
    [m EXCEPT !.f = k, !.start = start, !.stop = stop, !.last = "none", !.why = "none"]
FetchName(F, m, name, start, stop) ==
    LET k == NameRid(F.idx, name) IN IF k = 0 THEN m ELSE FetchSet(m, k, start, stop)
FetchRid(F, m, rid, start, stop) ==
    IF RidOk(F.idx, rid) THEN FetchSet(m, rid + 1, start, stop) ELSE m
FetchAllName(F, m, name) ==
    LET k == NameRid(F.idx, name) IN IF k = 0 THEN m ELSE FetchSet(m, k, 0, F.idx[k].len)
FetchAllRid(F, m, rid) ==
    IF RidOk(F.idx, rid) THEN FetchSet(m, rid + 1, 0, F.idx[rid + 1].len) ELSE m

\* --- read / read_iter entry
ReadRefusal(F, m) ==
    IF m.f = 0 THEN "nofetch"
    ELSE IF m.stop > F.idx[m.f].len THEN "oob"
    ELSE IF m.start > m.stop THEN "invalid"
    ELSE "none"

Row(F, m) == F.idx[m.f]
SeekPos(row, start) == row.off + (start \div row.lb) * row.lby + (start % row.lb)

Refuse(F, m) == [m EXCEPT !.last = "refused", !.why = ReadRefusal(F, m)]
ReadBegin(F, m, path) ==                      \* requires ReadRefusal = "none"
    LET row  == Row(F, m)
        left == m.stop - m.start
    IN  [m EXCEPT !.phase = IF path = "buf" THEN "reading" ELSE "iter",
                  !.last = "none", !.why = "none",
                  !.pos = SeekPos(row, m.start), !.buf = << >>,
                  !.lineoff = m.start % row.lb, !.left = left, !.out = << >>,
                  !.ibuf = << >>, !.ibi = 0, !.want = 0,
                  !.icapv = Min2(F.icap, Min2(left, row.lb))]

\* --- environment: BufReader::fill_buf on an empty buffer
NeedFill(m) == m.phase \in {"reading", "ifill"} /\ m.left > 0 /\ m.buf = << >>
FillEn(F, m, k) == NeedFill(m) /\ k >= 1 /\ k <= F.cap /\ m.pos + k <= Len(F.data)
Fill(F, m, k) == [m EXCEPT !.buf = SubSeq(F.data, m.pos + 1, m.pos + k), !.pos = m.pos + k]
EofEn(F, m) == NeedFill(m) /\ m.pos >= Len(F.data)
Eof(m) == [m EXCEPT !.phase = "idle", !.last = "err", !.why = "trunc",
                    !.left = IF m.phase = "ifill" THEN 0 ELSE m.left]

\* --- IndexedReader::read_line: avail buffered bytes, want = bases still wanted
RL(row, lineoff, avail, want) ==
    LET basesOnLine == row.lb - Min2(row.lb, lineoff)
        basesInBuf  == Min2(avail, basesOnLine)
        x == IF basesInBuf <= want
             THEN [read |-> Min2(avail, row.lby - lineoff), keep |-> basesInBuf]
             ELSE [read |-> want, keep |-> want]
    IN  [read |-> x.read, keep |-> x.keep,
         off  |-> IF lineoff + x.read >= row.lby THEN 0 ELSE lineoff + x.read]

ReadLineStepEn(m) == m.phase = "reading" /\ m.left > 0 /\ m.buf # << >>
ReadLineStep(F, m) ==
    LET x == RL(Row(F, m), m.lineoff, Len(m.buf), m.left)
    IN  [m EXCEPT !.out = m.out \o SubSeq(m.buf, 1, x.keep),
                  !.buf = SubSeq(m.buf, x.read + 1, Len(m.buf)),
                  !.left = m.left - x.keep, !.lineoff = x.off]
DoneEn(m) == m.phase = "reading" /\ m.left = 0
Done(m) == [m EXCEPT !.phase = "idle", !.last = "done"]

\* --- IndexedReaderIterator
IterYieldEn(m) == m.phase = "iter" /\ m.ibi < Len(m.ibuf)
IterYield(m) == [m EXCEPT !.out = Append(m.out, m.ibuf[m.ibi + 1]), !.ibi = m.ibi + 1]
\* k consecutive yields at once (used by the trace replay; IndexedFastaMC checks YieldLemma)
IterYieldN(m, k) == [m EXCEPT !.out = m.out \o SubSeq(m.ibuf, m.ibi + 1, m.ibi + k), !.ibi = m.ibi + k]
IterRefillEn(m) == m.phase = "iter" /\ m.ibi >= Len(m.ibuf) /\ m.left > 0
IterRefill(m) == [m EXCEPT !.phase = "ifill", !.ibuf = << >>, !.ibi = 0, !.want = Min2(m.icapv, m.left)]
IterEndEn(m) == m.phase = "iter" /\ m.ibi >= Len(m.ibuf) /\ m.left = 0
IterEnd(m) == [m EXCEPT !.phase = "idle", !.last = "done"]
IFillStepEn(m) == m.phase = "ifill" /\ m.buf # << >>
IFillStep(F, m) ==
    LET x == RL(Row(F, m), m.lineoff, Len(m.buf), m.want)
    IN  [m EXCEPT !.ibuf = SubSeq(m.buf, 1, x.keep),
                  !.buf = SubSeq(m.buf, x.read + 1, Len(m.buf)),
                  !.left = m.left - x.keep, !.lineoff = x.off,
                  !.phase = IF x.keep > 0 THEN "iter" ELSE "ifill"]

\* bytes of the file consumed by the reader so far (logical position)
LogicalPos(m) == m.pos - Len(m.buf)
\* progress measure of a read in progress
Measure(F, m) ==
    LET rest == IF LogicalPos(m) >= Len(F.data) THEN 0 ELSE Len(F.data) - LogicalPos(m)
    IN  8 * rest + 2 * (Len(m.ibuf) - m.ibi)
        + (IF m.buf = << >> THEN 1 ELSE 0) + (IF m.phase = "iter" THEN 1 ELSE 0)
=============================================================================
