CONSTANTS
  MaxLen = 3
  MaxLen2 = 0
  Ws = {1, 2}
  Cap = 3
  ICap = 2
  MaxFetch = 1
  EmitOn = TRUE
SPECIFICATION Spec
INVARIANTS NeverShifted DoneExact ErrIffTruncated Emit
CHECK_DEADLOCK FALSE
