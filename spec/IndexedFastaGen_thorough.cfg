CONSTANTS
  MaxLen = 4
  MaxLen2 = 2
  Ws = {1, 2, 3}
  Cap = 3
  ICap = 2
  MaxFetch = 1
  EmitOn = TRUE
SPECIFICATION Spec
INVARIANTS NeverShifted DoneExact ErrIffTruncated Emit
CHECK_DEADLOCK FALSE
