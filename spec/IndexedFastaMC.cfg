CONSTANTS
  MaxLen = 5
  MaxLen2 = 2
  Ws = {1, 2, 3}
  Cap = 4
  ICap = 2
  MaxFetch = 1
  EmitOn = FALSE
SPECIFICATION Spec
VIEW View
INVARIANTS NeverShifted DoneExact ErrIffTruncated Progress Refusals Aligned IndexSound YieldLemma BigLemma RestingPlace
PROPERTY Terminates
CHECK_DEADLOCK FALSE
