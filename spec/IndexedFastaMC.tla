--------------------------- MODULE IndexedFastaMC ---------------------------
(***************************************************************************)
(* Exhaustive check of the C12 machine (IndexedFasta.tla) for small        *)
(* constants: every file of one record (len <= MaxLen, line width in Ws,   *)
(* LF/CRLF) and a family of two-record files, every truncation point,      *)
(* every fetch (by name / record number, valid, inverted, out of range,    *)
(* unknown), both read paths, every schedule of fill sizes 1..Cap.         *)
(* Bases are position-coded (100*record + position), so shifted, short or  *)
(* foreign data is visible.                                                *)
(*                                                                         *)
(* spec -> impl: with EmitOn (IndexedFastaGen.cfg, tiny constants, no VIEW) *)
(* every completed read is printed as a behaviour (file parameters, cut,   *)
(* fetch, path, the sequence of fill sizes); the driver replays it into    *)
(* the real IndexedReader. In the verification configs `hist` is hidden by *)
(* the VIEW.                                                               *)
(***************************************************************************)
EXTENDS IndexedFasta, TLC, Json
CONSTANTS MaxLen,      \* sequence lengths 0..MaxLen (single-record files)
          MaxLen2,     \* second record of the two-record files: 0..MaxLen2
          Ws,          \* line widths
          Cap,         \* BufReader capacity (8192 in the code)
          ICap,        \* iterator buffer bound (512 in the code)
          MaxFetch,    \* fetch calls per history
          EmitOn       \* print behaviours (generation config)

VARIABLES F, S, m, nf, hist
vars == <<F, S, m, nf, hist>>
View == <<F, S, m, nf>>

\* names "1", "2"; record 2 has the description "7" (the driver rebuilds the same layout)
MkRec(j, len, w, t) == [name |-> <<48 + j>>, desc |-> IF j = 2 THEN <<55>> ELSE << >>,
                        seq |-> [i \in 1..len |-> 100 * j + i], w |-> w, t |-> t]
RecLists ==
    {<<MkRec(1, len, w, t)>> : len \in 0..MaxLen, w \in Ws, t \in {1, 2}}
    \cup {<<MkRec(1, 2, 2, t), MkRec(2, len, w, t2)>> : len \in 0..MaxLen2, w \in Ws, t \in {1, 2}, t2 \in {1, 2}}
MaxL == IF MaxLen > MaxLen2 THEN MaxLen ELSE MaxLen2

Init ==
    /\ \E recs \in RecLists :
         \E cut \in 0..Len(FileOf(recs)) :
            /\ F = [data |-> SubSeq(FileOf(recs), 1, cut), idx |-> FaiOf(recs), cap |-> Cap, icap |-> ICap]
            /\ S = [i \in 1..Len(recs) |-> recs[i].seq]
    /\ m = MInit
    /\ nf = 0
    /\ hist = [path |-> "", fills |-> << >>]

Idle == m.phase = "idle"
Names == {<<49>>, <<50>>, <<57>>}

FetchRidA(rid, s, e) ==
    /\ Idle /\ nf < MaxFetch
    /\ m' = FetchRid(F, m, rid, s, e) /\ nf' = nf + 1 /\ UNCHANGED <<F, S, hist>>
FetchNameA(name, s, e) ==
    /\ Idle /\ nf < MaxFetch
    /\ m' = FetchName(F, m, name, s, e) /\ nf' = nf + 1 /\ UNCHANGED <<F, S, hist>>
FetchAllRidA(rid) ==
    /\ Idle /\ nf < MaxFetch
    /\ m' = FetchAllRid(F, m, rid) /\ nf' = nf + 1 /\ UNCHANGED <<F, S, hist>>
FetchAllNameA(name) ==
    /\ Idle /\ nf < MaxFetch
    /\ m' = FetchAllName(F, m, name) /\ nf' = nf + 1 /\ UNCHANGED <<F, S, hist>>
ReadBeginA(path) ==
    /\ Idle
    /\ m' = IF ReadRefusal(F, m) = "none" THEN ReadBegin(F, m, path) ELSE Refuse(F, m)
    /\ hist' = [path |-> path, fills |-> << >>]
    /\ UNCHANGED <<F, S, nf>>
FillA(k)      == FillEn(F, m, k)  /\ m' = Fill(F, m, k)       /\ hist' = [hist EXCEPT !.fills = Append(@, k)]
                 /\ UNCHANGED <<F, S, nf>>
EofA          == EofEn(F, m)      /\ m' = Eof(m)              /\ UNCHANGED <<F, S, nf, hist>>
ReadLineStepA == ReadLineStepEn(m) /\ m' = ReadLineStep(F, m) /\ UNCHANGED <<F, S, nf, hist>>
DoneA         == DoneEn(m)        /\ m' = Done(m)             /\ UNCHANGED <<F, S, nf, hist>>
IterYieldA    == IterYieldEn(m)   /\ m' = IterYield(m)        /\ UNCHANGED <<F, S, nf, hist>>
IterRefillA   == IterRefillEn(m)  /\ m' = IterRefill(m)       /\ UNCHANGED <<F, S, nf, hist>>
IterEndA      == IterEndEn(m)     /\ m' = IterEnd(m)          /\ UNCHANGED <<F, S, nf, hist>>
IFillStepA    == IFillStepEn(m)   /\ m' = IFillStep(F, m)     /\ UNCHANGED <<F, S, nf, hist>>

Next ==
    \/ \E rid \in 0..Len(F.idx), s \in 0..(MaxL + 1), e \in 0..(MaxL + 1) : FetchRidA(rid, s, e)
    \/ \E name \in Names, s \in 0..(MaxL + 1), e \in 0..(MaxL + 1) : FetchNameA(name, s, e)
    \/ \E rid \in 0..Len(F.idx) : FetchAllRidA(rid)
    \/ \E name \in Names : FetchAllNameA(name)
    \/ \E path \in {"buf", "iter"} : ReadBeginA(path)
    \/ \E k \in 1..Cap : FillA(k)
    \/ EofA \/ ReadLineStepA \/ DoneA \/ IterYieldA \/ IterRefillA \/ IterEndA \/ IFillStepA
Spec == Init /\ [][Next]_vars

\* ---------------------------------------------------------------- invariants
Active == m.f # 0 /\ (m.phase # "idle" \/ m.last \in {"done", "err"})
Want   == Expected(S[m.f], m.start, m.stop)
Cut    == Len(F.data)

\* whatever has been delivered is the beginning of the requested slice: never shifted, never foreign
NeverShifted == Active => IsPrefix(m.out, Want)
\* a successful read delivers exactly the slice
DoneExact == (Active /\ m.last = "done") => m.out = Want
\* error iff the file ends before the last needed base
ErrIffTruncated ==
    Active => /\ m.last = "err"  => Cut < NeedEnd(Row(F, m), m.start, m.stop)
              /\ m.last = "done" => Cut >= NeedEnd(Row(F, m), m.start, m.stop)
\* read_line always consumes at least one byte (the code asserts it); no stuck state inside a read
Progress ==
    /\ ReadLineStepEn(m) => RL(Row(F, m), m.lineoff, Len(m.buf), m.left).read > 0
    /\ IFillStepEn(m)    => RL(Row(F, m), m.lineoff, Len(m.buf), m.want).read > 0
    /\ m.phase # "idle" => \/ (\E k \in 1..Cap : FillEn(F, m, k)) \/ EofEn(F, m) \/ ReadLineStepEn(m) \/ DoneEn(m)
                           \/ IterYieldEn(m) \/ IterRefillEn(m) \/ IterEndEn(m) \/ IFillStepEn(m)
\* the documented refusals, and only those
Refusals ==
    /\ m.last = "refused" => /\ m.why = ReadRefusal(F, m)
                             /\ m.f = 0 \/ m.stop > Len(S[m.f]) \/ m.start > m.stop
    /\ m.phase # "idle" => m.f # 0 /\ m.start <= m.stop /\ m.stop <= Len(S[m.f])
\* the position bookkeeping: line_offset is the column of the logical file position, and the
\* bases handed out so far are exactly the bases in front of it
Aligned ==
    m.phase # "idle" =>
        LET row == Row(F, m)
            p   == LogicalPos(m)
            rel == p - row.off
            got == Len(m.out) + (Len(m.ibuf) - m.ibi)
        IN  /\ p >= row.off
            /\ rel % row.lby = m.lineoff
            /\ m.start + got = (rel \div row.lby) * row.lb + Min2(m.lineoff, row.lb)
            /\ m.left = (m.stop - m.start) - got
            /\ Len(m.ibuf) <= m.icapv
            /\ m.icapv <= ICap
            /\ Len(m.buf) <= Cap
\* the index the machine works with is the one of the file layout
IndexSound ==
    \A i \in 1..Len(F.idx) : F.idx[i].len = Len(S[i]) /\ F.idx[i].lby > F.idx[i].lb /\ F.idx[i].lb >= 1

\* closed-form family of the huge-file traces = the definition layer, for small parameters
\* (constant-level; evaluated in the initial states of the empty files only)
BigLemma ==
    (m = MInit /\ nf = 0 /\ Len(F.data) = 0 /\ Len(F.idx) = 1 /\ F.idx[1].len = 0) =>
        \A R \in {5, 10, 15} : \A hi \in 0..2 : \A lo \in 0..(R - 1) : \A n \in 0..6 :
            LET L == 40  start == hi * R + lo IN
            /\ start + n <= L => Expected(BigSeq(L), start, start + n) = BigExpected(lo, n)
            /\ PairNorm(R, hi, lo + n) = <<(start + n) \div R, (start + n) % R>>
            /\ \A h2 \in 0..2 : \A l2 \in 0..(R - 1) : PairLE(<<hi, lo>>, <<h2, l2>>) <=> (start <= h2 * R + l2)

\* bulk yield = repeated single yields
YieldLemma ==
    IterYieldEn(m) => /\ IterYieldN(m, 1) = IterYield(m)
                      /\ m.ibi + 2 <= Len(m.ibuf) => IterYieldN(m, 2) = IterYield(IterYield(m))
                      /\ IterYieldN(m, 0) = m

\* spec -> impl: one behaviour per completed read (generation config only)
Emit ==
    (EmitOn /\ m.phase = "idle" /\ m.last \in {"done", "err"}) =>
        PrintT(<<"BEH", ToJson([recs  |-> [i \in 1..Len(F.idx) |->
                                             [len |-> F.idx[i].len, w |-> F.idx[i].lb, t |-> F.idx[i].lby - F.idx[i].lb]],
                                 cut   |-> Len(F.data), rid |-> m.f - 1, start |-> m.start, stop |-> m.stop,
                                 path  |-> hist.path, fills |-> hist.fills, last |-> m.last,
                                 \* 1: the reader was left in front of (or inside) the line terminator behind `stop`,
                                 \* not at the file offset of `stop`: the seam an adjacent fetch must survive
                                 seam  |-> IF m.last = "done" /\ LogicalPos(m) # SeekPos(Row(F, m), m.stop)
                                           THEN 1 ELSE 0])>>)

\* where a completed buffer read leaves the source: never before the last needed base, never behind the
\* file offset of `stop`; strictly in between exactly when the terminator behind a line-aligned `stop`
\* was not (completely) buffered -- every read therefore has to seek (ReadBegin does)
RestingPlace ==
    (Active /\ m.last = "done" /\ m.stop > m.start) =>
        /\ LogicalPos(m) >= NeedEnd(Row(F, m), m.start, m.stop)
        /\ LogicalPos(m) <= SeekPos(Row(F, m), m.stop) \/ m.stop = Row(F, m).len
        /\ LogicalPos(m) < SeekPos(Row(F, m), m.stop) => m.stop % Row(F, m).lb = 0

\* termination: every step inside a read decreases the measure
Terminates == [][(m.phase # "idle" /\ m'.phase # "idle") => Measure(F, m') < Measure(F, m)]_vars
=============================================================================
