CONSTANTS
  MaxLen = 2
  MaxLen2 = 1
  Ws = {1, 2}
  Cap = 2
  ICap = 2
  MaxFetch = 2
  EmitOn = FALSE
SPECIFICATION Spec
VIEW View
INVARIANTS NeverShifted DoneExact ErrIffTruncated Progress Refusals Aligned IndexSound YieldLemma RestingPlace
PROPERTY Terminates
CHECK_DEADLOCK FALSE
