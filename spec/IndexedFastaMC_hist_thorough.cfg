CONSTANTS
  MaxLen = 3
  MaxLen2 = 2
  Ws = {1, 2}
  Cap = 3
  ICap = 2
  MaxFetch = 3
  EmitOn = FALSE
SPECIFICATION Spec
VIEW View
INVARIANTS NeverShifted DoneExact ErrIffTruncated Progress Refusals Aligned IndexSound YieldLemma RestingPlace
PROPERTY Terminates
CHECK_DEADLOCK FALSE
