CONSTANTS
  MaxLen = 2
  Ws = {2}
  Cap = 3
  ICap = 2
  MaxFetch = 3
  SkipSeek = FALSE
SPECIFICATION Spec
INVARIANTS NeverShifted2 DoneExact2 NoError2 OneAtATime
CHECK_DEADLOCK FALSE
