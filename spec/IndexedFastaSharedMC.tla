------------------------ MODULE IndexedFastaSharedMC ------------------------
(***************************************************************************)
(* C12, "consecutive fetches are independent", for TWO IndexedReaders over *)
(* try_clone'd handles of one file: both BufReaders sit on ONE OS file     *)
(* cursor `cur`, which every seek and every fill of either reader moves.   *)
(* Each reader keeps its own buffer, selection and line bookkeeping        *)
(* (IndexedFasta.tla machine state; its `pos` field is replaced by `cur`   *)
(* whenever the reader steps). Calls are atomic with respect to each other *)
(* (sequential code): `act` is the reader inside a read call.              *)
(*                                                                         *)
(* SkipSeek = FALSE is the code: ReadBegin always seeks absolutely, so the *)
(* foreign cursor movements are harmless (invariants hold).                *)
(* SkipSeek = TRUE models the tempting optimisation "no seek when the      *)
(* reader believes to be at the target already" (`known`): TLC then finds  *)
(* the interleaving that delivers stale / shifted data (run by hand once:  *)
(* NeverShifted2 violated after a.read, b.read, a.fetch(adjacent), a.read).*)
(***************************************************************************)
EXTENDS IndexedFasta, TLC
CONSTANTS MaxLen, Ws, Cap, ICap, MaxFetch, SkipSeek

VARIABLES F, S, ms, cur, act, nf, known
vars == <<F, S, ms, cur, act, nf, known>>

Rec1(len, w, t) == [name |-> <<49>>, desc |-> << >>, seq |-> [i \in 1..len |-> 100 + i], w |-> w, t |-> t]
NoneKnown == [ok |-> FALSE, v |-> 0]

Init ==
    /\ \E len \in 1..MaxLen, w \in Ws, t \in {1, 2} :
          /\ F = [data |-> FileOf(<<Rec1(len, w, t)>>), idx |-> FaiOf(<<Rec1(len, w, t)>>), cap |-> Cap, icap |-> ICap]
          /\ S = <<Rec1(len, w, t).seq>>
    /\ ms = <<MInit, MInit>> /\ cur = 0 /\ act = 0 /\ nf = 0
    /\ known = <<NoneKnown, NoneKnown>>

Who == {1, 2}
W == [ms[act] EXCEPT !.pos = cur]               \* the active reader sees the shared cursor

FetchA(who, s, e) ==
    /\ act = 0 /\ nf < MaxFetch /\ s <= e /\ e <= Len(S[1])
    /\ ms' = [ms EXCEPT ![who] = FetchRid(F, @, 0, s, e)]
    /\ nf' = nf + 1 /\ UNCHANGED <<F, S, cur, act, known>>

ReadStartA(who, path) ==
    /\ act = 0 /\ ms[who].f # 0 /\ ReadRefusal(F, ms[who]) = "none"
    /\ LET m0     == ms[who]
           target == SeekPos(Row(F, m0), m0.start)
           skip   == SkipSeek /\ known[who] = [ok |-> TRUE, v |-> target]
           mb     == ReadBegin(F, m0, path)
           m1     == IF skip THEN [mb EXCEPT !.pos = cur, !.buf = m0.buf] ELSE mb
       IN  /\ ms' = [ms EXCEPT ![who] = m1]
           /\ cur' = m1.pos
           /\ known' = [known EXCEPT ![who] = [ok |-> TRUE, v |-> target]]
    /\ act' = who /\ UNCHANGED <<F, S, nf>>

\* one step of the active reader; `new` is its state after the step
Step(new) ==
    /\ ms' = [ms EXCEPT ![act] = new]
    /\ cur' = new.pos
    /\ act' = IF new.phase = "idle" THEN 0 ELSE act
    /\ known' = [known EXCEPT ![act] = [ok |-> @.ok, v |-> @.v + (Len(W.buf) - Len(new.buf))]]
    /\ UNCHANGED <<F, S, nf>>
FillA(k) ==
    /\ act # 0 /\ FillEn(F, W, k)
    /\ ms' = [ms EXCEPT ![act] = Fill(F, W, k)] /\ cur' = cur + k
    /\ UNCHANGED <<F, S, nf, act, known>>
EofA          == act # 0 /\ EofEn(F, W)       /\ Step(Eof(W))
ReadLineStepA == act # 0 /\ ReadLineStepEn(W) /\ Step(ReadLineStep(F, W))
DoneA         == act # 0 /\ DoneEn(W)         /\ Step(Done(W))
IterYieldA    == act # 0 /\ IterYieldEn(W)    /\ Step(IterYield(W))
IterRefillA   == act # 0 /\ IterRefillEn(W)   /\ Step(IterRefill(W))
IterEndA      == act # 0 /\ IterEndEn(W)      /\ Step(IterEnd(W))
IFillStepA    == act # 0 /\ IFillStepEn(W)    /\ Step(IFillStep(F, W))

Next ==
    \/ \E who \in Who, s \in 0..MaxLen, e \in 0..MaxLen : FetchA(who, s, e)
    \/ \E who \in Who, path \in {"buf", "iter"} : ReadStartA(who, path)
    \/ \E k \in 1..Cap : FillA(k)
    \/ EofA \/ ReadLineStepA \/ DoneA \/ IterYieldA \/ IterRefillA \/ IterEndA \/ IFillStepA
Spec == Init /\ [][Next]_vars

Act(m)  == m.f # 0 /\ (m.phase # "idle" \/ m.last \in {"done", "err"})
Want(m) == Expected(S[m.f], m.start, m.stop)
\* whatever the other reader did to the shared cursor in between: only the requested slice, unshifted
NeverShifted2 == \A who \in Who : Act(ms[who]) => IsPrefix(ms[who].out, Want(ms[who]))
DoneExact2    == \A who \in Who : (Act(ms[who]) /\ ms[who].last = "done") => ms[who].out = Want(ms[who])
NoError2      == \A who \in Who : ms[who].last # "err"                 \* the file is complete
OneAtATime    == \A who \in Who : ms[who].phase # "idle" => act = who
=============================================================================
