-------------------------- MODULE IndexedFastaTrace --------------------------
(* Trace validation for family "faidx" (C12).                                *)
(* run.cfg = [cls, recs, file, fai, cut]: one IndexedReader object over the  *)
(* file bytes `file` (cut after `cut` bytes, -1 = whole file) with the index *)
(* rows `fai`. The `open` event checks file = FileOf(recs), fai = FaiOf(recs)*)
(* (so the real fasta::Writer and the index construction are bound to the    *)
(* layout definition); later events use cfg.file / cfg.fai directly.         *)
(*                                                                           *)
(* st = the selection state of the reader (fetched record, start, stop).     *)
(* Two verdicts per event:                                                   *)
(*   Explains (property, REJECT): results judged by the definition layer:    *)
(*     exactly seq[start..stop) iff the file reaches NeedEnd, otherwise an   *)
(*     error with only a prefix of the slice delivered; refusals are errors. *)
(*   Exact (machine layer, DRIFT): read / read_iter carry `io`, the seeks    *)
(*     and read() calls issued against the underlying stream: io[1] must be  *)
(*     the seek to SeekPos, every read() must be explained as the            *)
(*     environment step Fill(k) (Eof for k = 0) at exactly the moment the    *)
(*     machine needs bytes, nothing left over; error kinds; size_hint.       *)
(*                                                                           *)
(* cfg.cls in {"file", "shared"}: readers over real files (Index::from_file,  *)
(* Cursor, File::try_clone): events carry `who`; "shared" = two readers over  *)
(* try_clone'd handles of one file, i.e. ONE OS file cursor written by both   *)
(* readers' seeks and fills (IndexedFastaSharedMC models it). st = a pair of  *)
(* selections; each reader's results must depend on its own selection only    *)
(* ("consecutive fetches are independent"). No io log, hence no Exact verdict.*)
(*                                                                           *)
(* cfg.cls = "big": closed-form huge family (a virtual file of up to 5*10^9  *)
(* bases computed on demand by the harness, base(i) = "ACGTN"[i mod 5]).      *)
(* cfg = [cls, name, w, t, lenhi, lenlo, R]; positions are pairs hi*R+lo;    *)
(* st = [f, shi, slo, span]. The expected slice is BigExpected(slo, span)    *)
(* (IndexedFastaMC.BigLemma: = Expected of the definition layer for small    *)
(* parameters); `dump` events materialise small instances of the same        *)
(* generator and are checked against FileOf. No io replay here.              *)
EXTENDS IndexedFasta, TLC, Json, IOUtils

Rec == ndJsonDeserialize(IOEnv.TRACE)
BufCap  == 8192        \* std::io::BufReader default capacity
IterCap == 512         \* MAX_FASTA_BUFFER_SIZE

VARIABLES run, idx, st, ok
vars == <<run, idx, st, ok>>

Ctx(cfg) == [data |-> IF cfg.cut < 0 THEN cfg.file ELSE SubSeq(cfg.file, 1, cfg.cut),
             idx |-> cfg.fai, cap |-> BufCap, icap |-> IterCap]

\* selection state; stale = a fetch failed since the last successful one (the code keeps the old
\* selection, the property does not say so: a read may then also be refused)
Sel(m, stale) == [f |-> m.f, start |-> m.start, stop |-> m.stop, stale |-> stale]
Mach(s) == [MInit EXCEPT !.f = s.f, !.start = s.start, !.stop = s.stop]

B2I(x) == IF x THEN 1 ELSE 0

\* io entries: <<kind, argument, result>>, kind 0 = read(buf of `argument` bytes) -> result, 1 = seek
IsRead(e) == e[1] = 0
IsSeek(e) == e[1] = 1

\* one environment step: the next io entry must be a read() that the file position allows
\* returns the new machine state or "bad"
EnvStep(F, m, e) ==
    IF ~IsRead(e) THEN [good |-> FALSE, m |-> m]
    ELSE LET k == e[3] IN
         IF k = 0 THEN [good |-> EofEn(F, m), m |-> Eof(m)]
         ELSE [good |-> FillEn(F, m, k) /\ k <= e[2] /\ e[2] <= F.cap,
               m    |-> IF FillEn(F, m, k) THEN Fill(F, m, k) ELSE m]

\* buffer path: read_into_buffer
RECURSIVE RunBuf(_, _, _, _)
RunBuf(F, m, io, j) ==
    IF DoneEn(m) THEN [good |-> TRUE, m |-> Done(m), j |-> j]
    ELSE IF m.phase # "reading" THEN [good |-> TRUE, m |-> m, j |-> j]           \* Eof happened
    ELSE IF m.buf = << >>
         THEN IF j > Len(io) THEN [good |-> FALSE, m |-> m, j |-> j]
              ELSE LET x == EnvStep(F, m, io[j]) IN
                   IF x.good THEN RunBuf(F, x.m, io, j + 1) ELSE [good |-> FALSE, m |-> m, j |-> j]
         ELSE RunBuf(F, ReadLineStep(F, m), io, j)

\* iterator path: n = number of next() calls still to make (-1: until the end)
\* `ended`: a next() call returned None (also the call after the error item)
RECURSIVE RunIter(_, _, _, _, _)
RunIter(F, m, io, j, n) ==
    IF n = 0 THEN [good |-> TRUE, m |-> m, j |-> j, ended |-> FALSE]
    ELSE IF m.phase = "idle" THEN [good |-> TRUE, m |-> m, j |-> j, ended |-> TRUE]   \* after the error item: None
    ELSE IF IterYieldEn(m)
         THEN LET avail == Len(m.ibuf) - m.ibi
                  k     == IF n < 0 THEN avail ELSE Min2(n, avail)
              IN  RunIter(F, IterYieldN(m, k), io, j, IF n < 0 THEN n ELSE n - k)
    ELSE IF IterEndEn(m) THEN [good |-> TRUE, m |-> IterEnd(m), j |-> j, ended |-> TRUE]
    ELSE IF IterRefillEn(m) THEN RunIter(F, IterRefill(m), io, j, n)
    ELSE IF m.buf = << >>
         THEN IF j > Len(io) THEN [good |-> FALSE, m |-> m, j |-> j, ended |-> FALSE]
              ELSE LET x == EnvStep(F, m, io[j]) IN
                   IF ~x.good THEN [good |-> FALSE, m |-> m, j |-> j, ended |-> FALSE]
                   ELSE IF x.m.phase = "idle"                       \* Eof: this next() yields the error item
                        THEN RunIter(F, x.m, io, j + 1, IF n < 0 THEN n ELSE n - 1)
                        ELSE RunIter(F, x.m, io, j + 1, n)
         ELSE RunIter(F, IFillStep(F, m), io, j, n)

\* refusal kinds of the code for the current selection
Refusals(F, m) ==
    IF m.f = 0 THEN {"nofetch"}
    ELSE (IF m.stop > F.idx[m.f].len THEN {"oob"} ELSE {}) \cup (IF m.start > m.stop THEN {"invalid"} ELSE {})

Want(cfg, m)  == Expected(cfg.recs[m.f].seq, m.start, m.stop)
Trunc(F, m)   == Len(F.data) < NeedEnd(Row(F, m), m.start, m.stop)

\* ------------------------------------------------------------ property verdict
\* What C12 states, judged on the results only (no look at seeks / read sizes):
\* refusals are errors; otherwise exactly seq[start..stop) iff the file reaches the last
\* needed base, else an error and never short (as success) or shifted data.
ReadOk(cfg, F, m, stale, r) ==
    /\ r.st = "ok"
    /\ IF Refusals(F, m) # {} \/ Trunc(F, m) THEN r.ok = 0
       ELSE \/ r.ok = 1 /\ r.seq = Want(cfg, m)
            \/ stale /\ r.ok = 0

\* the iterator consumed through adapters: 1 = nth(k) first (k items skipped), 2 = step_by(k)
AdaptSeq(w, a) ==
    IF a.adapt = 1 THEN SubSeq(w, a.k + 1, Len(w))
    ELSE IF a.adapt = 2 /\ a.k >= 1 THEN [j \in 1..((Len(w) + a.k - 1) \div a.k) |-> w[(j - 1) * a.k + 1]]
    ELSE w

ReadIterOk(cfg, F, m, stale, a, r) ==
    /\ r.st = "ok"
    /\ IF Refusals(F, m) # {} THEN r.ok = 0
       ELSE IF stale /\ r.ok = 0 THEN TRUE
       ELSE /\ r.ok = 1 /\ r.capped = 0
            /\ IsPrefix(r.items, AdaptSeq(Want(cfg, m), a))                          \* never shifted / foreign
            /\ IF r.ierr = 1
               THEN /\ Trunc(F, m) /\ r.after = 0                        \* one error item, then the end
                    /\ r.ended = 1 \/ (a.take >= 0 /\ Len(r.items) + 1 = a.take)
               ELSE IF r.ended = 1
                    THEN r.items = AdaptSeq(Want(cfg, m), a) /\ ~Trunc(F, m)         \* complete, never silently short
                    ELSE a.take >= 0 /\ Len(r.items) = a.take /\ a.adapt = 0           \* abandoned by the caller

Explains(cfg, s, e) ==
    LET c == e.c  r == e.r  a == e.c.a  F == Ctx(cfg)  m == Mach(s) IN
    CASE c.op = "open" ->
           /\ r.st = "ok"
           /\ \A i \in 1..Len(cfg.recs) : cfg.recs[i].w >= 1 /\ cfg.recs[i].t \in {1, 2}
           /\ cfg.file = FileOf(cfg.recs)                       \* the layout the property quantifies over
           /\ cfg.fai = FaiOf(cfg.recs)                         \* "a matching .fai index"
           /\ cfg.cut <= Len(cfg.file)
           /\ r.seqs = [i \in 1..Len(cfg.fai) |-> [name |-> cfg.fai[i].name, len |-> cfg.fai[i].len]]
      [] c.op = "fetch"         -> r.st = "ok" /\ r.ok = B2I(NameRid(F.idx, a.name) # 0)
      [] c.op = "fetch_all"     -> r.st = "ok" /\ r.ok = B2I(NameRid(F.idx, a.name) # 0)
      [] c.op = "fetch_rid"     -> r.st = "ok" /\ r.ok = B2I(RidOk(F.idx, a.rid))
      [] c.op = "fetch_all_rid" -> r.st = "ok" /\ r.ok = B2I(RidOk(F.idx, a.rid))
      [] c.op = "read"          -> ReadOk(cfg, F, m, s.stale, r)
      [] c.op = "read_iter"     -> ReadIterOk(cfg, F, m, s.stale, a, r)
      [] OTHER -> FALSE

\* ------------------------------------------------- machine-layer conformance
\* Evaluated only when Explains holds; a failure is a DRIFT (the code no longer follows the
\* machine layer: other seek / refill pattern, other error kinds, other size_hint), not an alarm.
SeekOk(F, m, io) ==
    /\ Len(io) >= 1 /\ IsSeek(io[1])
    /\ io[1][2] = SeekPos(Row(F, m), m.start)

ReadExact(cfg, F, m, r) ==
    IF Refusals(F, m) # {}
    THEN r.err = ReadRefusal(F, m) /\ r.io = << >>            \* validation precedes the seek
    ELSE LET x == RunBuf(F, ReadBegin(F, m, "buf"), r.io, 2)
         IN  /\ r.ok = B2I(~Trunc(F, m))
             /\ SeekOk(F, m, r.io)
             /\ x.good /\ x.j = Len(r.io) + 1                  \* every read() explained, none left over
             /\ r.seq = x.m.out
             /\ IF Trunc(F, m) THEN r.err = "trunc" /\ x.m.last = "err" ELSE x.m.last = "done"

ReadIterExact(cfg, F, m, a, r) ==
    IF Refusals(F, m) # {}
    THEN r.err = ReadRefusal(F, m) /\ r.io = << >>
    ELSE LET x == RunIter(F, ReadBegin(F, m, "iter"), r.io, 2, a.take)
         IN  /\ r.ok = 1
             /\ r.hint = Len(Want(cfg, m))                     \* size_hint of a fresh iterator
             /\ SeekOk(F, m, r.io)
             /\ x.good /\ x.j = Len(r.io) + 1
             /\ r.items = AdaptSeq(x.m.out, a)
             /\ (a.adapt = 1 /\ a.k < Len(Want(cfg, m)) /\ ~Trunc(F, m)) => r.hint_mid = Len(Want(cfg, m)) - a.k - 1
             /\ r.ended = B2I(x.ended)
             /\ r.ierr = B2I(x.m.last = "err")
             /\ r.ierr = 1 => r.ierrkind = "trunc"

Exact(cfg, s, e) ==
    LET c == e.c  r == e.r  a == e.c.a  F == Ctx(cfg)  m == Mach(s) IN
    CASE c.op = "read"      -> ReadExact(cfg, F, m, r)
      [] c.op = "read_iter" -> ReadIterExact(cfg, F, m, a, r)
      [] OTHER -> TRUE

\* ---------------------------------------------------------- closed-form huge family
IsBig(cfg) == cfg.cls = "big"
BigSel0 == [f |-> 0, shi |-> 0, slo |-> 0, span |-> 0]
BigValid(cfg, s) ==
    s.f = 1 /\ PairLE(PairNorm(cfg.R, s.shi, s.slo + s.span), <<cfg.lenhi, cfg.lenlo>>)

BigExplains(cfg, s, e) ==
    LET c == e.c  r == e.r  a == e.c.a IN
    CASE c.op = "dump" ->                       \* the generator, materialised at small size, is the layout
           /\ r.st = "ok" /\ cfg.lenhi = 0
           /\ LET rec == [name |-> cfg.name, desc |-> << >>, seq |-> BigSeq(cfg.lenlo), w |-> cfg.w, t |-> cfg.t]
              IN  /\ r.file = FileOf(<<rec>>)
                  /\ FaiOf(<<rec>>) = <<[name |-> cfg.name, len |-> cfg.lenlo, off |-> r.off, lb |-> r.lb, lby |-> r.lby]>>
      [] c.op = "open" ->
           /\ r.st = "ok" /\ cfg.R % BigPeriod = 0 /\ cfg.w >= 1 /\ cfg.t \in {1, 2} /\ cfg.lenlo < cfg.R
           /\ r.n = 1 /\ r.lenhi = cfg.lenhi /\ r.lenlo = cfg.lenlo
      [] c.op = "fetch" -> r.st = "ok" /\ r.ok = 1 /\ a.slo < cfg.R /\ a.span >= 0
      [] c.op = "read" ->
           /\ r.st = "ok"
           /\ IF BigValid(cfg, s) THEN r.ok = 1 /\ r.seq = BigExpected(s.slo, s.span) ELSE r.ok = 0
      [] c.op = "read_iter" ->
           /\ r.st = "ok"
           /\ IF BigValid(cfg, s)
              THEN r.ok = 1 /\ r.capped = 0 /\ r.ierr = 0 /\ r.ended = 1 /\ r.items = BigExpected(s.slo, s.span)
              ELSE r.ok = 0
      [] OTHER -> FALSE

BigAfter(s, e) ==
    IF e.c.op = "fetch" THEN [f |-> 1, shi |-> e.c.a.shi, slo |-> e.c.a.slo, span |-> e.c.a.span] ELSE s

After(cfg, s, e) ==
    LET c == e.c  a == e.c.a  F == Ctx(cfg)  m == Mach(s)
        m2 == CASE c.op = "fetch"         -> FetchName(F, m, a.name, a.start, a.stop)
                [] c.op = "fetch_all"     -> FetchAllName(F, m, a.name)
                [] c.op = "fetch_rid"     -> FetchRid(F, m, a.rid, a.start, a.stop)
                [] c.op = "fetch_all_rid" -> FetchAllRid(F, m, a.rid)
                [] OTHER -> m
    IN  IF c.op \in {"fetch", "fetch_all", "fetch_rid", "fetch_all_rid"}
        THEN Sel(m2, e.r.ok = 0)                 \* Explains has fixed r.ok = (name / rid known)
        ELSE s                                   \* reads leave nothing behind but the selection

\* ------------------------------------------------- readers over real files, shared cursor
IsFileCls(cfg) == cfg.cls \in {"file", "shared"}
FileSel0 == <<Sel(MInit, FALSE), Sel(MInit, FALSE)>>
FileExplains(cfg, s, e) ==
    LET w == e.c.a.who + 1 IN
    /\ w \in {1, 2}
    /\ Explains(cfg, s[w], e)
FileAfter(cfg, s, e) == LET w == e.c.a.who + 1 IN [s EXCEPT ![w] = After(cfg, s[w], e)]

\* ------------------------------------------- an index that promises more than the file holds
\* cfg = [cls = "lying", recs (what the file really holds), file, claim]: the .fai row of record i says
\* claim[i] bases (4 limbs base 10^6, most significant first; up to u64::MAX) with the true offset and line
\* geometry; the lying record is the last one of the file. Claim of the property: a read whose interval the
\* index admits but the file does not hold ends in an ERROR (no panic, no abort, no short data as success);
\* intervals inside the real record are served exactly, also after such errors.
IsLying(cfg) == cfg.cls = "lying"
LySel0 == [f |-> 0, start |-> 0, stop |-> <<0, 0, 0, 0>>]
LimbsLE(a, b) ==                                  \* lexicographic = numeric (limbs < 10^6)
    \/ a[1] < b[1]
    \/ a[1] = b[1] /\ a[2] < b[2]
    \/ a[1] = b[1] /\ a[2] = b[2] /\ a[3] < b[3]
    \/ a[1] = b[1] /\ a[2] = b[2] /\ a[3] = b[3] /\ a[4] <= b[4]
Small(n) == <<0, 0, 0, n>>
LyAdmitted(cfg, s) == s.f # 0 /\ LimbsLE(s.stop, cfg.claim[s.f]) /\ LimbsLE(Small(s.start), s.stop)
LyHeld(cfg, s) == LimbsLE(s.stop, Small(Len(cfg.recs[s.f].seq)))
\* the bytes the index geometry points at exist in the file although they lie behind the real record (line
\* terminators pass as bases when the real last line is shorter than the promised width): nothing can tell
\* the reader, so only "no panic" is required there
LyBytesExist(cfg, s) ==
    /\ s.stop[1] = 0 /\ s.stop[2] = 0 /\ s.stop[3] = 0
    /\ NeedEnd(FaiOf(cfg.recs)[s.f], s.start, s.stop[4]) <= Len(cfg.file)

LyExplains(cfg, s, e) ==
    LET c == e.c  r == e.r  a == e.c.a IN
    CASE c.op = "open" -> r.st = "ok" /\ cfg.file = FileOf(cfg.recs) /\ Len(cfg.claim) = Len(cfg.recs)
      [] c.op \in {"fetch_big", "fetch_all_rid"} -> r.st = "ok" /\ a.rid + 1 \in 1..Len(cfg.recs) /\ r.ok = 1
      [] c.op = "read" ->
           /\ r.st = "ok"
           /\ IF LyAdmitted(cfg, s) /\ LyHeld(cfg, s)
              THEN r.ok = 1 /\ r.seq = Expected(cfg.recs[s.f].seq, s.start, s.stop[4])
              ELSE IF LyAdmitted(cfg, s) /\ LyBytesExist(cfg, s) THEN TRUE
              ELSE r.ok = 0                                         \* refused, or the file ends before `stop`
      [] c.op = "read_iter" ->
           /\ r.st = "ok" /\ r.capped = 0
           /\ IF ~LyAdmitted(cfg, s) THEN r.ok = 0
              ELSE IF LyHeld(cfg, s)
                   THEN r.ok = 1 /\ r.ierr = 0 /\ r.ended = 1
                        /\ r.items = Expected(cfg.recs[s.f].seq, s.start, s.stop[4])
                   ELSE IF LyBytesExist(cfg, s) THEN r.ok = 1
                   ELSE \* an error item, then the end. What was yielded before it is not judged: with a lying
                        \* length the last line is shorter than the index says, so its terminator may pass as a base
                        r.ok = 1 /\ r.ierr = 1 /\ r.after = 0 /\ r.ended = 1
      [] OTHER -> FALSE
LyAfter(cfg, s, e) ==
    LET a == e.c.a IN
    CASE e.c.op = "fetch_big"     -> [f |-> a.rid + 1, start |-> a.start, stop |-> a.stop]
      [] e.c.op = "fetch_all_rid" -> [f |-> a.rid + 1, start |-> 0, stop |-> cfg.claim[a.rid + 1]]
      [] OTHER -> s

Init == /\ run \in 1..Len(Rec) /\ idx = 0 /\ ok = TRUE
        /\ st = IF IsBig(Rec[run].cfg) THEN BigSel0
                ELSE IF IsLying(Rec[run].cfg) THEN LySel0
                ELSE IF IsFileCls(Rec[run].cfg) THEN FileSel0 ELSE Sel(MInit, FALSE)
Next ==
    /\ ok /\ idx < Len(Rec[run].ev)
    /\ LET e    == Rec[run].ev[idx + 1]
           cfg  == Rec[run].cfg
           good == IF IsBig(cfg) THEN BigExplains(cfg, st, e)
                   ELSE IF IsLying(cfg) THEN LyExplains(cfg, st, e)
                   ELSE IF IsFileCls(cfg) THEN FileExplains(cfg, st, e) ELSE Explains(cfg, st, e)
           \* two readers over ONE operating-system file cursor (File::try_clone): the property speaks of one
           \* reader and of how its underlying reader fragments reads, not of somebody else moving that reader's
           \* position between two calls. The unchanged code happens to be immune (it seeks absolutely before
           \* every read); a reader that keeps its buffer across fetches is not, and still has the property.
           \* A miss in this class is therefore reported as DRIFT, not as a violation.
           outside == cfg.cls = "shared" /\ ~good
       IN  /\ ok' = (good \/ outside)
           /\ st' = IF ~good THEN st ELSE IF IsBig(cfg) THEN BigAfter(st, e)
                    ELSE IF IsLying(cfg) THEN LyAfter(cfg, st, e)
                    ELSE IF IsFileCls(cfg) THEN FileAfter(cfg, st, e) ELSE After(cfg, st, e)
           /\ IF good
              THEN (IF IsBig(cfg) \/ IsLying(cfg) \/ IsFileCls(cfg) \/ Exact(cfg, st, e) THEN TRUE
                    ELSE PrintT(<<"DRIFT", run, idx + 1>>))
              ELSE IF outside THEN PrintT(<<"DRIFT", run, idx + 1>>)
              ELSE PrintT(<<"REJECT", run, idx + 1>>)
    /\ idx' = idx + 1
    /\ UNCHANGED run
Spec == Init /\ [][Next]_vars
=============================================================================
