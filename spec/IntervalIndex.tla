---------------------------- MODULE IntervalIndex ----------------------------
(***************************************************************************)
(* C07 -- interval trees and the annotation map                             *)
(*   avl_interval_tree.rs            augmented AVL tree (payload-swapping   *)
(*                                   rotations, pruned DFS for queries)     *)
(*   array_backed_interval_tree.rs   implicit tree over a sorted array      *)
(*                                   (cgranges layout, leaf level LL)       *)
(*   annot_map.rs                    one AVL tree per reference id          *)
(*                                                                         *)
(* Definition layer: a bag (sequence in insertion order) of entries         *)
(* [s, e, d]; Overlaps(bag, qs, qe) under half-open semantics.              *)
(* Machine layer: the two trees, transcribed.                               *)
(***************************************************************************)
EXTENDS Naturals, Integers, Sequences, FiniteSets

Max2(a, b) == IF a >= b THEN a ELSE b
Min2(a, b) == IF a <= b THEN a ELSE b
Pow2i(k) == LET RECURSIVE P(_)
                P(x) == IF x = 0 THEN 1 ELSE 2 * P(x - 1)
            IN P(k)

\* ------------------------------------------------------------ definition
Ovl(s, e, qs, qe) == s < qe /\ qs < e
\* entries of the bag (a sequence of records with fields s, e, d) overlapping [qs, qe)
Overlaps(bag, qs, qe) == SelectSeq(bag, LAMBDA x : Ovl(x.s, x.e, qs, qe))

\* bag equality of two sequences of tuples/records
RECURSIVE CountIn(_, _)
CountIn(seq, x) == IF seq = << >> THEN 0
                   ELSE (IF Head(seq) = x THEN 1 ELSE 0) + CountIn(Tail(seq), x)
SameBag(a, b) ==
    /\ Len(a) = Len(b)
    /\ \A i \in 1..Len(a) : CountIn(a, a[i]) = CountIn(b, a[i])

\* ------------------------------------------------------------------- AVL
NIL == [nil |-> TRUE]
IsNil(t) == t.nil
H(t)  == IF IsNil(t) THEN 0 ELSE t.h
\* max of a subtree; NoMax for the empty tree (only compared through MaxOf3)
Mk(s, e, d, l, r) ==
    [nil |-> FALSE, s |-> s, e |-> e, d |-> d, l |-> l, r |-> r,
     h  |-> 1 + Max2(H(l), H(r)),
     mx |-> Max2(e, Max2(IF IsNil(l) THEN e ELSE l.mx, IF IsNil(r) THEN e ELSE r.mx))]

\* rotate_left / rotate_right of the code swap the payloads of the two nodes and re-hang the
\* subtrees; the result is the textbook rotation:
RotL(t) == LET nr == t.r IN Mk(nr.s, nr.e, nr.d, Mk(t.s, t.e, t.d, t.l, nr.l), nr.r)
RotR(t) == LET nl == t.l IN Mk(nl.s, nl.e, nl.d, nl.l, Mk(t.s, t.e, t.d, nl.r, t.r))

Abs(x) == IF x < 0 THEN -x ELSE x
Repair(t) ==
    IF Abs(H(t.l) - H(t.r)) <= 1 THEN Mk(t.s, t.e, t.d, t.l, t.r)
    ELSE IF H(t.r) > H(t.l)
         THEN RotL([t EXCEPT !.r = IF H(t.r.l) > H(t.r.r) THEN RotR(t.r) ELSE t.r])
         ELSE RotR([t EXCEPT !.l = IF H(t.l.r) > H(t.l.l) THEN RotL(t.l) ELSE t.l])

RECURSIVE Ins(_, _, _, _)
Ins(t, s, e, d) ==
    IF IsNil(t) THEN Mk(s, e, d, NIL, NIL)
    ELSE IF s <= t.s THEN Repair([t EXCEPT !.l = Ins(t.l, s, e, d)])
                     ELSE Repair([t EXCEPT !.r = Ins(t.r, s, e, d)])

\* the iterator: explicit stack, pops the last pushed node; pushes left, then right, then yields
RECURSIVE FindStack(_, _, _, _)
FindStack(stack, qs, qe, acc) ==
    IF stack = << >> THEN acc
    ELSE LET c    == stack[Len(stack)]
             rest == SubSeq(stack, 1, Len(stack) - 1)
         IN  IF ~(qs < c.mx) THEN FindStack(rest, qs, qe, acc)
             ELSE LET s1 == IF IsNil(c.l) THEN rest ELSE Append(rest, c.l)
                  IN  IF ~(qe > c.s) THEN FindStack(s1, qs, qe, acc)
                      ELSE LET s2 == IF IsNil(c.r) THEN s1 ELSE Append(s1, c.r)
                           IN  FindStack(s2, qs, qe,
                                         IF qs < qe /\ c.s < c.e /\ qe > c.s /\ qs < c.e
                                         THEN Append(acc, [s |-> c.s, e |-> c.e, d |-> c.d]) ELSE acc)
Find(t, qs, qe) == IF IsNil(t) THEN << >> ELSE FindStack(<< t >>, qs, qe, << >>)

RECURSIVE PreOrder(_)
\* the shape the hook reports: <<s, e, d, max, height, has_left, has_right>>
PreOrder(t) == IF IsNil(t) THEN << >>
               ELSE << <<t.s, t.e, t.d, t.mx, t.h, IF IsNil(t.l) THEN 0 ELSE 1, IF IsNil(t.r) THEN 0 ELSE 1>> >>
                    \o PreOrder(t.l) \o PreOrder(t.r)

RECURSIVE Nodes(_)
Nodes(t) == IF IsNil(t) THEN << >>
            ELSE << [s |-> t.s, e |-> t.e, d |-> t.d] >> \o Nodes(t.l) \o Nodes(t.r)
RECURSIVE Size(_)
Size(t) == IF IsNil(t) THEN 0 ELSE 1 + Size(t.l) + Size(t.r)

RECURSIVE Balanced(_)
Balanced(t) == IsNil(t) \/ (Abs(H(t.l) - H(t.r)) <= 1 /\ Balanced(t.l) /\ Balanced(t.r))
RECURSIVE AllStarts(_)
AllStarts(t) == IF IsNil(t) THEN {} ELSE {t.s} \cup AllStarts(t.l) \cup AllStarts(t.r)
RECURSIVE AllEnds(_)
AllEnds(t) == IF IsNil(t) THEN {} ELSE {t.e} \cup AllEnds(t.l) \cup AllEnds(t.r)
RECURSIVE Ordered(_)
Ordered(t) == IsNil(t) \/ ( /\ \A x \in AllStarts(t.l) : x <= t.s
                            /\ \A y \in AllStarts(t.r) : t.s <= y
                            /\ Ordered(t.l) /\ Ordered(t.r) )
RECURSIVE Augmented(_)
Augmented(t) == IsNil(t) \/ ( /\ t.h = 1 + Max2(H(t.l), H(t.r))
                              /\ \A z \in AllEnds(t) : z <= t.mx
                              /\ t.mx \in AllEnds(t)
                              /\ Augmented(t.l) /\ Augmented(t.r) )
\* height of an AVL tree with n nodes: n >= Fib(h+2) - 1
RECURSIVE MinNodes(_)
MinNodes(h) == IF h <= 0 THEN 0 ELSE IF h = 1 THEN 1 ELSE 1 + MinNodes(h - 1) + MinNodes(h - 2)
HeightBound(t) == Size(t) >= MinNodes(H(t))

\* a tree rebuilt from a logged shape (pre-order with child flags): <<tree, rest, wellformed>>.
\* Total: garbage shapes give wellformed = FALSE instead of an evaluation error.
RECURSIVE ParseShape(_)
ParseShape(sh) ==
    IF sh = << >> THEN <<NIL, << >>, FALSE>>
    ELSE LET x == Head(sh) IN
         IF Len(x) # 7 THEN <<NIL, << >>, FALSE>>
         ELSE LET l == IF x[6] = 1 THEN ParseShape(Tail(sh)) ELSE <<NIL, Tail(sh), TRUE>>
                  r == IF x[7] = 1 THEN ParseShape(l[2]) ELSE <<NIL, l[2], TRUE>>
              IN  << [nil |-> FALSE, s |-> x[1], e |-> x[2], d |-> x[3], l |-> l[1], r |-> r[1],
                      h |-> x[5], mx |-> x[4]],
                     r[2], l[3] /\ r[3] >>
FromShape(sh) == ParseShape(sh)

\* structural height (not the stored one) and structural balance: the property's balance clause
RECURSIVE TrueH(_)
TrueH(t) == IF IsNil(t) THEN 0 ELSE 1 + Max2(TrueH(t.l), TrueH(t.r))
RECURSIVE TrueBalanced(_)
TrueBalanced(t) == IsNil(t) \/ (Abs(TrueH(t.l) - TrueH(t.r)) <= 1 /\ TrueBalanced(t.l) /\ TrueBalanced(t.r))

\* ------------------------------------------------------ array-backed tree
\* a: sequence of records [s, e, d, mx] (1-based; code index i = TLA index i+1)
RECURSIVE InsertSorted(_, _)
InsertSorted(sorted, x) ==          \* stable: after all elements with start <= x.s
    IF sorted = << >> THEN << x >>
    ELSE IF Head(sorted).s <= x.s THEN << Head(sorted) >> \o InsertSorted(Tail(sorted), x)
         ELSE << x >> \o sorted
RECURSIVE StableSort(_, _)
StableSort(seq, acc) == IF seq = << >> THEN acc ELSE StableSort(Tail(seq), InsertSorted(acc, Head(seq)))

\* level 0: even indices get their own end
Level0(a) == [i \in 1..Len(a) |-> IF (i - 1) % 2 = 0 THEN [a[i] EXCEPT !.mx = a[i].e] ELSE a[i]]
LastEven(n) == IF (n - 1) % 2 = 0 THEN n - 1 ELSE n - 2      \* last even code index < n

RECURSIVE LevelNodes(_, _, _, _, _, _)
\* process code indices i, i+step, ... < n of level k (x = 2^(k-1))
LevelNodes(a, i, step, x, n, lastv) ==
    IF i >= n THEN a
    ELSE LET el  == a[i - x + 1].mx
             er  == IF i + x < n THEN a[i + x + 1].mx ELSE lastv
             en  == Max2(a[i + 1].e, Max2(el, er))
         IN  LevelNodes([a EXCEPT ![i + 1].mx = en], i + step, step, x, n, lastv)

RECURSIVE IndexLevels(_, _, _, _)
\* returns <<a, max_level>>
IndexLevels(a, k, lasti, lastv) ==
    LET n == Len(a) IN
    IF Pow2i(k) > n THEN <<a, k - 1>>
    ELSE LET x   == Pow2i(k - 1)
             a2  == LevelNodes(a, 2 * x - 1, 4 * x, x, n, lastv)
             li  == IF (lasti \div Pow2i(k)) % 2 = 1 THEN lasti - x ELSE lasti + x
             lv  == IF li < n /\ a2[li + 1].mx > lastv THEN a2[li + 1].mx ELSE lastv
         IN  IndexLevels(a2, k + 1, li, lv)

IndexCore(a) ==
    IF a = << >> THEN << a, 0 >>
    ELSE LET a0 == Level0(a)
             le == LastEven(Len(a))
         IN  IndexLevels(a0, 1, le, a0[le + 1].mx)

\* the query: explicit stack of <<k, x, w>>; LL = leaf level (3 in the code)
RECURSIVE LeafScan(_, _, _, _, _, _)
LeafScan(a, i, i1, qs, qe, acc) ==
    IF i >= i1 THEN acc
    ELSE IF a[i + 1].s >= qe THEN acc
    ELSE LeafScan(a, i + 1, i1, qs, qe, IF qs < a[i + 1].e THEN Append(acc, i) ELSE acc)

RECURSIVE IIFindStack(_, _, _, _, _, _)
IIFindStack(a, stack, qs, qe, LL, acc) ==
    IF stack = << >> THEN acc
    ELSE LET n    == Len(a)
             c    == stack[Len(stack)]
             rest == SubSeq(stack, 1, Len(stack) - 1)
             k    == c[1]  x == c[2]  w == c[3]
         IN  IF k <= LL
             THEN LET i0 == (x \div Pow2i(k)) * Pow2i(k)
                      i1 == Min2(i0 + Pow2i(k + 1) - 1, n)
                  IN  IIFindStack(a, rest, qs, qe, LL, LeafScan(a, i0, i1, qs, qe, acc))
             ELSE IF w = 0
             THEN LET y  == x - Pow2i(k - 1)
                      s1 == Append(rest, <<k, x, 1>>)
                      s2 == IF y >= n \/ a[y + 1].mx > qs THEN Append(s1, <<k - 1, y, 0>>) ELSE s1
                  IN  IIFindStack(a, s2, qs, qe, LL, acc)
             ELSE IF x < n /\ a[x + 1].s < qe
             THEN IIFindStack(a, Append(rest, <<k - 1, x + Pow2i(k - 1), 0>>), qs, qe, LL,
                              IF qs < a[x + 1].e THEN Append(acc, x) ELSE acc)
             ELSE IIFindStack(a, rest, qs, qe, LL, acc)

\* indices (code, 0-based) reported by find on an indexed array a with max level ml
IIFind(a, ml, qs, qe, LL) ==
    IF a = << >> THEN << >>          \* the root cell (k=0, x=0) scans an empty range
    ELSE IIFindStack(a, << <<ml, Pow2i(ml) - 1, 0>> >>, qs, qe, LL, << >>)
\* ---- pruning safety: exactly the facts about the stored augmentation that the pruned searches rely on.
\* Each of them failing means that SOME query misses an overlapping entry (see DESIGN.md C07), so they
\* are the "for every query" part of the property, decided on the real internal state read by the hook.
RECURSIVE AvlPruneSafe(_)
AvlPruneSafe(t) ==
    IsNil(t) \/ ( /\ \A z \in AllEnds(t) : z <= t.mx            \* `qs < max` never cuts off an overlapping entry
                  /\ \A y \in AllStarts(t.r) : t.s <= y          \* `qe > start` never cuts off the right subtree wrongly
                  /\ AvlPruneSafe(t.l) /\ AvlPruneSafe(t.r) )

\* implicit tree: level of code index i = number of trailing one bits; subtree of i at level k = [i-(2^k-1), i+(2^k-1)]
RECURSIVE LevelOf(_)
LevelOf(i) == IF i % 2 = 0 THEN 0 ELSE 1 + LevelOf(i \div 2)
RECURSIVE MaxEndIn(_, _, _)
MaxEndIn(a, lo, hi) == IF lo > hi THEN -1000000000 ELSE Max2(a[lo + 1].e, MaxEndIn(a, lo + 1, hi))
\* nodes whose max is consulted by find: levels LL..ml-1 (as left child of a node above the leaf level)
IIPruneSafe(a, ml, LL) ==
    /\ \A i \in 1..(Len(a) - 1) : a[i].s <= a[i + 1].s
    /\ \A i \in 0..(Len(a) - 1) :
          LET k == LevelOf(i) IN
          (k >= LL /\ k < ml) =>
             a[i + 1].mx >= MaxEndIn(a, i - (Pow2i(k) - 1), Min2(Len(a) - 1, i + (Pow2i(k) - 1)))
=============================================================================
