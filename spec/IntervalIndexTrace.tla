------------------------- MODULE IntervalIndexTrace -------------------------
(* Trace validation for families avl, iitree, annot (C07).                  *)
(*                                                                         *)
(* Two verdicts per event:                                                  *)
(*   Explains  the PROPERTY: query results are exactly the overlapping      *)
(*             entries (bag), the logged AVL shape is a height-balanced     *)
(*             tree holding exactly the inserted entries, un-indexed array  *)
(*             queries are refused, the indexed array is the inserted bag   *)
(*             sorted by start. A failure is a REJECT (= VIOLATION).        *)
(*   Exact     conformance with the MACHINE layer: the hook shape equals    *)
(*             the model AVL tree node for node (payload positions, stored  *)
(*             max and height), the indexed array equals the model array    *)
(*             (stable order, every max, max_level). A failure while the    *)
(*             property holds is printed as DRIFT: the code no longer       *)
(*             follows the machine layer (e.g. another tie-break) although  *)
(*             the property still holds -- reported, not an alarm; the      *)
(*             model state is re-synchronised from the hook.                *)
(*                                                                         *)
(* avl    state [tree (model AVL tree), bag]                                *)
(*   insert[s,e,d] -> [has_shape, shape]                                    *)
(*   finds[qs]     -> [res]   one result list per query                     *)
(*   find_mut[qs,qe] -> [res]; every yielded payload is incremented by 1000 *)
(*                    through EntryMut::data(): the model does the same, so *)
(*                    later events see "visited exactly once"               *)
(* iitree state [a (array with max), ml, indexed]                           *)
(*   insert[s,e,d]; index -> [entries, ml, indexed]; finds[qs] -> [res] |   *)
(*   refused (panic) iff not indexed                                        *)
(* annot  state bag of [ref, s, e, d]                                       *)
(*   insert[ref,s,len,d]; find[ref,s,len] -> [res] entries <<s,e,d,ref>>    *)
EXTENDS IntervalIndex, TLC, Json, IOUtils

Rec == ndJsonDeserialize(IOEnv.TRACE)
RealLL == 3

VARIABLES run, idx, ok, st
vars == <<run, idx, ok, st>>

ToSet(seq) == {seq[i] : i \in 1..Len(seq)}
\* res: sequence of <<s,e,d>>; want: sequence of records [s,e,d]. Payload ids are unique per run,
\* so bag equality = set equality + equal length + no duplicate in res.
BagEq(res, want) ==
    /\ Len(res) = Len(want)
    /\ ToSet(res) = {<<x.s, x.e, x.d>> : x \in ToSet(want)}
    /\ Cardinality(ToSet(res)) = Len(res)

InitState(fam) ==
    CASE fam = "avl"    -> [tree |-> NIL, bag |-> << >>]
      [] fam = "iitree" -> [a |-> << >>, ml |-> 0, indexed |-> FALSE]
      [] OTHER          -> [bag |-> << >>]

\* ------------------------------------------------------------------- avl
Bump(bag, qs, qe) == [i \in 1..Len(bag) |->
                        IF Ovl(bag[i].s, bag[i].e, qs, qe) THEN [bag[i] EXCEPT !.d = @ + 1000] ELSE bag[i]]
RECURSIVE BumpTree(_, _, _)
BumpTree(t, qs, qe) ==
    IF IsNil(t) THEN t
    ELSE [t EXCEPT !.d = IF Ovl(t.s, t.e, qs, qe) THEN @ + 1000 ELSE @,
                   !.l = BumpTree(t.l, qs, qe), !.r = BumpTree(t.r, qs, qe)]

AvlBagAfter(s, c) == Append(s.bag, [s |-> c.a.s, e |-> c.a.e, d |-> c.a.d])
AvlExact(s, c, r) ==
    IF c.op = "insert" /\ r.has_shape = 1
    THEN r.shape = PreOrder(Ins(s.tree, c.a.s, c.a.e, c.a.d))
    ELSE IF c.op = "copy" THEN r.shape = PreOrder(s.tree)          \* a copy has the shape of the original
    ELSE TRUE
AvlAfter(s, c, r) ==
    CASE c.op = "insert" ->
           [tree |-> IF AvlExact(s, c, r) THEN Ins(s.tree, c.a.s, c.a.e, c.a.d)
                     ELSE ParseShape(r.shape)[1],               \* re-synchronise after a DRIFT
            bag  |-> AvlBagAfter(s, c)]
      [] c.op = "find_mut" -> [tree |-> BumpTree(s.tree, c.a.qs, c.a.qe), bag |-> Bump(s.bag, c.a.qs, c.a.qe)]
      [] c.op = "copy" -> [s EXCEPT !.tree = IF AvlExact(s, c, r) THEN @ ELSE ParseShape(r.shape)[1]]
      [] OTHER -> s
AvlExplains(s, c, r) ==
    CASE c.op = "new" -> r.st = "ok"
      [] c.op = "insert" ->
           /\ r.st = "ok" /\ c.a.s < c.a.e
           /\ (r.has_shape = 1 =>
                 LET ps == ParseShape(r.shape) IN
                 /\ ps[3] /\ ps[2] = << >>                               \* well-formed encoding
                 /\ TrueBalanced(ps[1])                                  \* height-balanced after every insertion
                 /\ Size(ps[1]) >= MinNodes(TrueH(ps[1]))                \* hence logarithmic height
                 /\ AvlPruneSafe(ps[1])                                  \* no query can miss an entry
                 /\ BagEq([i \in 1..Len(r.shape) |-> <<r.shape[i][1], r.shape[i][2], r.shape[i][3]>>],
                          AvlBagAfter(s, c)))                            \* holds exactly the inserted entries
      [] c.op = "finds" ->
           /\ r.st = "ok" /\ Len(r.res) = Len(c.a.qs) /\ Len(r.counts) = Len(c.a.qs) /\ Len(r.fork) = Len(c.a.qs)
           /\ \A i \in 1..Len(c.a.qs) :
                 LET want == Overlaps(s.bag, c.a.qs[i][1], c.a.qs[i][2]) IN
                 /\ BagEq(r.res[i], want)
                 /\ r.counts[i] = Len(want)            \* Iterator::count on the query iterator
                 /\ BagEq(r.fork[i], want)             \* a clone of the iterator taken after its first item
      [] c.op = "find_mut" ->
           /\ r.st = "ok"
           /\ BagEq(r.res, Overlaps(s.bag, c.a.qs, c.a.qe))
           /\ r.cnt = Len(r.res)
      [] c.op = "copy" ->                                \* clone / serde round trip / clone_from: same tree
           /\ r.st = "ok" /\ r.eq = 1                    \* (a clone compares equal to its original)
           /\ LET ps == ParseShape(r.shape) IN
              /\ ps[3] /\ ps[2] = << >> /\ TrueBalanced(ps[1]) /\ AvlPruneSafe(ps[1])
              /\ BagEq([i \in 1..Len(r.shape) |-> <<r.shape[i][1], r.shape[i][2], r.shape[i][3]>>], s.bag)
      [] OTHER -> FALSE

\* ---------------------------------------------------------------- iitree
IIModelIndex(s) == IF s.indexed THEN s
                   ELSE LET r == IndexCore(StableSort(s.a, << >>))
                        IN  [a |-> r[1], ml |-> r[2], indexed |-> TRUE]
IIExact(s, c, r) ==
    IF c.op = "index"
    THEN LET s2 == IIModelIndex(s) IN
         /\ r.ml = s2.ml
         /\ r.entries = [i \in 1..Len(s2.a) |-> <<s2.a[i].s, s2.a[i].e, s2.a[i].d, s2.a[i].mx>>]
    ELSE TRUE
IIAfter(s, c, r) ==
    CASE c.op = "insert" -> [s EXCEPT !.a = Append(@, [s |-> c.a.s, e |-> c.a.e, d |-> c.a.d, mx |-> c.a.e]),
                                      !.indexed = FALSE]
      [] c.op = "index"  -> IF IIExact(s, c, r) THEN IIModelIndex(s)
                            ELSE [a |-> [i \in 1..Len(r.entries) |->
                                          [s |-> r.entries[i][1], e |-> r.entries[i][2],
                                           d |-> r.entries[i][3], mx |-> r.entries[i][4]]],
                                  ml |-> r.ml, indexed |-> TRUE]        \* re-synchronise after a DRIFT
      [] OTHER -> s
IIExplains(s, c, r) ==
    CASE c.op = "new" -> r.st = "ok"
      [] c.op = "insert" -> r.st = "ok" /\ c.a.s < c.a.e
      [] c.op = "index" ->
           /\ r.st = "ok" /\ r.indexed = 1
           /\ \A i \in 1..Len(r.entries) : Len(r.entries[i]) = 4
           /\ BagEq([i \in 1..Len(r.entries) |-> <<r.entries[i][1], r.entries[i][2], r.entries[i][3]>>], s.a)
           /\ IIPruneSafe([i \in 1..Len(r.entries) |-> [s |-> r.entries[i][1], e |-> r.entries[i][2],
                                                         d |-> r.entries[i][3], mx |-> r.entries[i][4]]],
                          r.ml, RealLL)                                   \* sorted; no query can miss an entry
           /\ (Len(r.entries) > 0 => (Pow2i(r.ml) <= Len(r.entries) /\ Pow2i(r.ml + 1) > Len(r.entries)))
      [] c.op = "copy" -> r.st = "ok" /\ r.eq = 1        \* clone / serde / clone_from: same tree, same indexed flag
      [] c.op = "finds" ->
           IF ~s.indexed THEN r.st = "panic"             \* querying an un-indexed tree is refused
           ELSE /\ r.st = "ok" /\ Len(r.res) = Len(c.a.qs)
                /\ \A i \in 1..Len(c.a.qs) :
                      BagEq(r.res[i], Overlaps(s.a, c.a.qs[i][1], c.a.qs[i][2]))
      [] OTHER -> FALSE

\* ----------------------------------------------------------------- annot
AnAfter(s, c) ==
    IF c.op = "insert"
    THEN [bag |-> Append(s.bag, [ref |-> c.a.ref, s |-> c.a.s, e |-> c.a.s + c.a.len, d |-> c.a.d])]
    ELSE s
AnExplains(s, c, r) ==
    CASE c.op = "new" -> r.st = "ok"
      [] c.op = "insert" -> r.st = "ok" /\ c.a.len > 0
      [] c.op = "find" ->
           /\ r.st = "ok"
           /\ LET want == SelectSeq(s.bag, LAMBDA x : x.ref = c.a.ref /\ Ovl(x.s, x.e, c.a.s, c.a.s + c.a.len))
              IN  /\ Len(r.res) = Len(want)
                  /\ ToSet(r.res) = {<<x.s, x.e, x.d, x.ref>> : x \in ToSet(want)}
                  /\ Cardinality(ToSet(r.res)) = Len(r.res)
                  /\ r.cnt = Len(want)
      [] c.op = "copy" -> r.st = "ok"
      [] OTHER -> FALSE

\* ------------------------------------------------------- big (closed form)
\* Family "ivbig": trees far beyond the sizes TLC could replay entry by entry. The entries are an
\* arithmetic family described by cfg = [kind, n, a, w]: entry i (0 <= i < n) is [a*i, a*i + w) with
\* payload i, inserted in the order cfg.order ("asc" | "desc"). The overlap set of a query has the
\* closed form  {i : Lo(q) <= i <= Hi(q)}  (lemma BigOverlapLemma, checked by TLC against the general
\* definition for small n in AvlMC), so no entry list is needed.
CeilDivI(x, y) == IF x <= 0 THEN -((-x) \div y) ELSE (x + y - 1) \div y           \* ceil(x / y), y > 0
FloorDivI(x, y) == IF x >= 0 THEN x \div y ELSE -(((-x) + y - 1) \div y)           \* floor(x / y), y > 0
BigLo(cfg, qs) == Max2(0, FloorDivI(qs - cfg.w, cfg.a) + 1)                      \* a*i + w > qs
BigHi(cfg, qe) == Min2(cfg.n - 1, CeilDivI(qe, cfg.a) - 1)                        \* a*i < qe
BigWant(cfg, qs, qe) ==
    IF BigLo(cfg, qs) > BigHi(cfg, qe) THEN {}
    ELSE {<<cfg.a * i, cfg.a * i + cfg.w, i>> : i \in BigLo(cfg, qs)..BigHi(cfg, qe)}
BigExplains(cfg, s, c, r) ==
    CASE c.op = "build" -> r.st = "ok" /\ r.n = cfg.n                 \* n inserts (+ index for the array tree)
      [] c.op = "finds" ->
           /\ r.st = "ok" /\ Len(r.res) = Len(c.a.qs)
           /\ \A i \in 1..Len(c.a.qs) :
                 LET want == BigWant(cfg, c.a.qs[i][1], c.a.qs[i][2]) IN
                 /\ c.a.qs[i][1] < c.a.qs[i][2]
                 /\ Len(r.res[i]) = Cardinality(want)
                 /\ ToSet(r.res[i]) = want
      [] OTHER -> FALSE

Explains(fam, s, e) ==
    CASE fam = "avl"    -> AvlExplains(s, e.c, e.r)
      [] fam = "iitree" -> IIExplains(s, e.c, e.r)
      [] fam = "annot"  -> AnExplains(s, e.c, e.r)
      [] OTHER -> FALSE
Exact(fam, s, e) ==
    CASE fam = "avl"    -> AvlExact(s, e.c, e.r)
      [] fam = "iitree" -> IIExact(s, e.c, e.r)
      [] OTHER -> TRUE
After(fam, s, e) ==
    CASE fam = "avl"    -> AvlAfter(s, e.c, e.r)
      [] fam = "iitree" -> IIAfter(s, e.c, e.r)
      [] fam = "annot"  -> AnAfter(s, e.c)
      [] OTHER -> s

Init == run \in 1..Len(Rec) /\ idx = 0 /\ ok = TRUE /\ st = InitState(Rec[run].fam)
Next ==
    /\ ok /\ idx < Len(Rec[run].ev)
    /\ LET R == Rec[run]
           e == R.ev[idx + 1]
           good == IF R.fam = "ivbig" THEN BigExplains(R.cfg, st, e.c, e.r) ELSE Explains(R.fam, st, e)
       IN  /\ ok' = good
           /\ st' = IF good THEN After(R.fam, st, e) ELSE st
           /\ IF good
              THEN (IF Exact(R.fam, st, e) THEN TRUE ELSE PrintT(<<"DRIFT", run, idx + 1>>))
              ELSE PrintT(<<"REJECT", run, idx + 1>>)
    /\ idx' = idx + 1
    /\ UNCHANGED run
Spec == Init /\ [][Next]_vars
=============================================================================
