CONSTANTS
  W = 2
  Sym = {0, 1}
  MaxP = 5
  MaxT = 4
  Ks <- KsSome
  Garbage = 0
SPECIFICATION Spec
INVARIANTS HitValid
CHECK_DEADLOCK FALSE
