----------------------------- MODULE MyersBandMC -----------------------------
(* C10 for the block-based version: LazyMatches stores, per text position,     *)
(* only the blocks the band-limited machine (MyersBlockMC) keeps active; below *)
(* them LongStatesHandler::add_state writes one sentinel block (dist = MAX,    *)
(* Pv = Mv = 0) and whatever lies further down is left as it was (a fresh      *)
(* store: State::default(), i.e. Garbage = 0).                                 *)
(* Checked for all patterns/texts over Sym and all k: at the end of every hit  *)
(* that has been searched (D[m][e] <= k) the cursor walk over these truncated  *)
(* columns is the walk on the complete matrix - a ValidHit; it never looks at  *)
(* a row below the sentinel block. (At searched ends that are NOT hits the     *)
(* last block may be missing: the walk starts on the sentinel. That is the     *)
(* documented restriction of the lazy API of the block version, which the      *)
(* drivers respect; `TrapIsReal` records that it is not vacuous.)              *)
EXTENDS ApproxMatch, TLC
CONSTANTS W, Sym, MaxP, MaxT, Ks, Garbage

VARIABLES p, t, k, i, states, store
vars == <<p, t, k, i, states, store>>

Strings(lo, hi) == UNION {[1..n -> Sym] : n \in lo..hi}
Ctx == MkEq(p, << >>, << >>)
M == Len(p)
N == Len(t)

\* the column as LongStatesHandler::add_state leaves it in the store
RECURSIVE BandColRec(_, _, _, _)
BandColRec(st, m, w, acc) ==              \* Len(acc) = next row g (row 0 first)
    IF Len(acc) > m THEN acc
    ELSE LET g == Len(acc) IN
         BandColRec(st, m, w,
             Append(acc, IF g <= BlkActiveRows(st, m, w) THEN BlkRowVal(st, m, w, g)
                         ELSE IF (g - 1) \div w = Len(st) THEN INF       \* the sentinel block
                         ELSE Garbage))
BandCol(st, m, w) == BandColRec(st, m, w, << 0 >>)

Slot(c, j) == [col |-> c, gen |-> 1, j |-> j]

Init ==
    /\ p \in Strings(1, MaxP)
    /\ t \in Strings(0, MaxT)
    /\ k \in Ks
    /\ i = 0
    /\ states = BlkNew(Len(p), k, W)
    /\ store = << TbSentinel(Len(p), 1), Slot(BandCol(BlkNew(Len(p), k, W), Len(p), W), 0) >>

Step ==
    /\ i < N
    /\ LET ns == BlkStep(Ctx, states, t[i + 1], k, W)
       IN  /\ states' = ns
           /\ store' = Append(store, Slot(BandCol(ns, M, W), i + 1))
    /\ i' = i + 1
    /\ UNCHANGED <<p, t, k>>

Next == Step
Spec == Init /\ [][Next]_vars

\* ------------------------------------------------------------ invariants
Row == LastRow(Ctx, t)
R == N + 2                                 \* slots of the lazy store

\* pad the store to its full size (slots not yet written are never consulted)
FullStore == store \o ConstSeq(R - Len(store), TbDefault(M))

HitValid ==
    \A e \in 0..(i - 1) :
        Within(Row[e + 1], k) =>
            LET w == TbWalk(FullStore, R, e + 2, e + 1, 1, M)
                c == Canon(Ctx, t, e)
            IN  /\ w.ok /\ w.fresh
                /\ w.dist = Row[e + 1]
                /\ w.ops = c.ops /\ w.len = c.len
                /\ ValidHit(Ctx, t, Row, e + 1 - w.len, e + 1, w.dist, w.ops)

\* not an invariant: its violation (reported by TLC when it is listed under INVARIANTS)
\* exhibits a searched non-hit end at which the truncated store gives no valid answer
TrapIsVacuous ==
    \A e \in 0..(i - 1) :
        LET w == TbWalk(FullStore, R, e + 2, e + 1, 1, M)
        IN  w.ok /\ w.dist = Row[e + 1]

KsAll == -1..(MaxP + 1)
KsSome == {-1, 0, 1, 2, MaxP}
=============================================================================
