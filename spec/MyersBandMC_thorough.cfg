CONSTANTS
  W = 2
  Sym = {0, 1}
  MaxP = 6
  MaxT = 5
  Ks <- KsAll
  Garbage = 0
SPECIFICATION Spec
INVARIANTS HitValid
CHECK_DEADLOCK FALSE
