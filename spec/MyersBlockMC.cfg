CONSTANTS
  W = 2
  PSym = {0, 1}
  TSym = {0, 1}
  Wild <- NoSeq
  Amb <- NoSeq
  MaxP = 5
  MaxT = 4
  Ks <- KsSome
SPECIFICATION Spec
INVARIANTS EqLemma TypeOK Decided Final ActiveSound Seams AllActiveWhenUnbounded
PROPERTY Progress
CHECK_DEADLOCK FALSE
