---------------------------- MODULE MyersBlockMC ----------------------------
(* Myers' bit-vector machine over W-bit blocks (long.rs: advance_block,       *)
(* States::{new,add_state,step,known_dist}; simple.rs is the one-block case)  *)
(* checked exhaustively against the edit matrix of the definition layer:      *)
(* all patterns over PSym with |p| <= MaxP (1..ceil(MaxP/W) blocks, last      *)
(* block full or partial), all texts over TSym (Wild \subseteq TSym are text  *)
(* wildcards, Amb gives pattern symbols extra matches), all k in Ks           *)
(* (-1 = unbounded, as used by distance() and find_best_end()).               *)
EXTENDS ApproxMatch, TLC
CONSTANTS W, PSym, TSym, Wild, Amb, MaxP, MaxT, Ks

VARIABLES p, t, k, i, states, out
vars == <<p, t, k, i, states, out>>

StringsOver(S, lo, hi) == UNION {[1..n -> S] : n \in lo..hi}
Ctx == MkEq(p, Amb, Wild)                   \* Amb, Wild given as sequences
M == Len(p)
N == Len(t)

Init ==
    /\ p \in StringsOver(PSym, 1, MaxP)
    /\ t \in StringsOver(TSym, 0, MaxT)
    /\ k \in Ks
    /\ i = 0
    /\ states = BlkNew(Len(p), k, W)
    /\ out = << >>

\* one iteration of Matches::next
Step ==
    /\ i < N
    /\ LET ns == BlkStep(Ctx, states, t[i + 1], k, W)
           d  == BlkKnown(ns, M, W)
       IN  /\ states' = ns
           /\ out' = IF d >= 0 /\ Within(d, k) THEN Append(out, << i, d >>) ELSE out
    /\ i' = i + 1
    /\ UNCHANGED <<p, t, k>>

Next == Step
Spec == Init /\ [][Next]_vars

\* ------------------------------------------------------------ invariants
Prefix == SubSeq(t, 1, i)
TrueCol == Cols(Ctx, Prefix)[i + 1]

TypeOK ==
    /\ Len(states) \in 1..BlkCount(M, W)
    /\ \A b \in 1..Len(states) :
         /\ states[b].pv \subseteq AllBits(W) /\ states[b].mv \subseteq AllBits(W)
         /\ states[b].pv \cap states[b].mv \cap 0..(BlkRows(M, W, b - 1) - 1) = {}

\* the reported hits are exactly the hits of the definition (C09 for the block version)
Decided == out = Hits(Ctx, Prefix, k)
Final == i = N => out = Hits(Ctx, t, k)

\* rows of active blocks: never below the true value, exact wherever the true value is <= k
\* (with k unbounded or k >= m: exact everywhere); rows of dropped blocks are > k
ActiveSound ==
    \A g \in 1..M :
        IF g <= BlkActiveRows(states, M, W)
        THEN LET v == BlkRowVal(states, M, W, g) IN
             /\ v >= TrueCol[g + 1]
             /\ Within(TrueCol[g + 1], k) => v = TrueCol[g + 1]
        ELSE ~Within(TrueCol[g + 1], k)

\* adjacent blocks describe one column: the value above the first row of block b,
\* reconstructed from block b, is the value at the last row of block b-1 -- wherever
\* that value matters (<= k)
Seams ==
    \A b \in 2..Len(states) :
        LET top   == BlkRowVal(states, M, W, (b - 1) * W + 1)
            first == IF 0 \in states[b].pv THEN 1 ELSE IF 0 \in states[b].mv THEN -1 ELSE 0
        IN  Within(TrueCol[(b - 1) * W + 1], k) => top - first = states[b - 1].dist

\* unbounded / large k never drops a block (distance(), find_best_end())
AllActiveWhenUnbounded == (k < 0 \/ k >= M) => Len(states) = BlkCount(M, W)

\* the evaluation context and the per-block masks mean the equality relation EqSym
\* (evaluated once per pattern: in the initial states)
EqLemma ==
    i = 0 => \A x \in 1..M, c \in TSym :
                 /\ (Sub(Ctx, x, c) = 0) <=> EqSym(Amb, Wild, p[x], c)
                 /\ (((x - 1) % W) \in BlkPeq(Ctx, W, (x - 1) \div W, c)) <=> EqSym(Amb, Wild, p[x], c)

Progress == [][i' = i + 1]_vars

\* configuration values (a cfg file cannot spell an empty tuple)
NoSeq == << >>
WildTwo == << 2 >>                        \* text symbol 2 matches every pattern position
AmbZero == << << 0, << 1 >> >> >>         \* pattern symbol 0 also matches text symbol 1
KsAll == -1..(MaxP + 1)                   \* -1 = unbounded
KsSome == {-1, 0, 1, 2, MaxP}
=============================================================================
