CONSTANTS
  W = 2
  PSym = {0, 1}
  TSym = {0, 1}
  Wild <- NoSeq
  Amb <- NoSeq
  MaxP = 6
  MaxT = 5
  Ks <- KsAll
SPECIFICATION Spec
INVARIANTS EqLemma TypeOK Decided Final ActiveSound Seams AllActiveWhenUnbounded
PROPERTY Progress
CHECK_DEADLOCK FALSE
