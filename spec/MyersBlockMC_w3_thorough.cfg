CONSTANTS
  W = 3
  PSym = {0, 1}
  TSym = {0, 1}
  Wild <- NoSeq
  Amb <- NoSeq
  MaxP = 7
  MaxT = 4
  Ks <- KsAll
SPECIFICATION Spec
INVARIANTS EqLemma TypeOK Decided Final ActiveSound Seams AllActiveWhenUnbounded
PROPERTY Progress
CHECK_DEADLOCK FALSE
