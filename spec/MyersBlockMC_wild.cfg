CONSTANTS
  W = 2
  PSym = {0, 1}
  TSym = {0, 1, 2}
  Wild <- WildTwo
  Amb <- AmbZero
  MaxP = 4
  MaxT = 3
  Ks <- KsAll
SPECIFICATION Spec
INVARIANTS EqLemma TypeOK Decided Final ActiveSound Seams AllActiveWhenUnbounded
PROPERTY Progress
CHECK_DEADLOCK FALSE
