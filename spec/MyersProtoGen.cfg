CONSTANTS
  Sym = {0, 1}
  MinP = 1
  MaxP = 2
  MinT = 3
  MaxT = 3
  MaxK = 1
  MaxSteps = 3
  Beyond = FALSE
  EmitOn = TRUE
SPECIFICATION Spec
INVARIANTS Decided Frontier Domain Emit
CHECK_DEADLOCK FALSE
