CONSTANTS
  Sym = {0, 1}
  MinP = 1
  MaxP = 2
  MinT = 3
  MaxT = 4
  MaxK = 1
  MaxSteps = 4
  Beyond = FALSE
  EmitOn = TRUE
SPECIFICATION Spec
INVARIANTS Decided Frontier Domain Emit
CHECK_DEADLOCK FALSE
