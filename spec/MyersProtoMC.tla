---------------------------- MODULE MyersProtoMC ----------------------------
(* C10 protocol machine: what a caller can do with ONE search of a Myers       *)
(* object - FullMatches (eager) or LazyMatches (lazy) - abstracted to the      *)
(* `searched` frontier:                                                        *)
(*    i    = number of text symbols the iterator has stepped over              *)
(*    cur  = end of the current hit (eager), fin = eager iterator returned None*)
(*    seen = ends of the hits returned so far                                  *)
(* Actions: NextOp (any next* method), Query (start/path/alignment of the      *)
(* current hit, eager), At(e) (hit_at/path_at/alignment_at, lazy) for e among  *)
(* the hits seen, the frontier i (and i+1 if Beyond). The invariants tie the frontier to   *)
(* the definition layer. With EmitOn every history of MaxSteps calls is        *)
(* printed as a behaviour and replayed into the real single-word and block-    *)
(* based matchers (spec -> impl, harness/src/bin/myers_tb.rs --replay); the    *)
(* recorded answers are then validated by MyersTbTrace.                        *)
(* Which concrete method is called (next / next_end / next_path /              *)
(* next_alignment, hit_at / path_at / alignment_at, reversed or not) does not  *)
(* change the abstract state; it is chosen by rotation on the step number so   *)
(* that all of them are exercised without multiplying the histories.           *)
EXTENDS ApproxMatch, TLC, Json
CONSTANTS Sym, MinP, MaxP, MinT, MaxT, MaxK, MaxSteps, Beyond, EmitOn

VARIABLES p, t, k, mode, i, cur, fin, seen, steps, hist
vars == <<p, t, k, mode, i, cur, fin, seen, steps, hist>>

Strings(lo, hi) == UNION {[1..n -> Sym] : n \in lo..hi}
Row == LastRow(MkPlain(p), t)
N == Len(t)

Init ==
    /\ p \in Strings(MinP, MaxP)
    /\ t \in Strings(MinT, MaxT)
    /\ k \in 0..MaxK
    /\ mode \in {"eager", "lazy"}
    /\ i = 0 /\ cur = -1 /\ fin = FALSE /\ seen = {} /\ steps = 0 /\ hist = << >>

EagerNext == << "next", "next_end", "next_path", "next_alignment" >>
EagerQuery == << "start", "path", "alignment" >>
LazyAt == << "hit_at", "path_at", "alignment_at" >>
Rev == IF steps % 5 = 4 THEN 1 ELSE 0

NextName == IF mode = "eager" THEN EagerNext[((steps + Len(p)) % 4) + 1] ELSE "lazy_next"
NextOp ==
    /\ LET nh == NextHit(Row, k, i)
       IN  IF nh = << >>
           THEN /\ i' = N
                /\ cur' = -1
                /\ fin' = (mode = "eager")
                /\ seen' = seen
           ELSE /\ i' = nh[1] + 1
                /\ cur' = nh[1]
                /\ fin' = FALSE
                /\ seen' = seen \cup {nh[1]}
    /\ hist' = Append(hist, << NextName, 0, Rev >>)

Query ==                              \* eager: only once there is a current hit, or after the end
    /\ mode = "eager" /\ (cur >= 0 \/ fin)
    /\ hist' = Append(hist, << EagerQuery[((steps + N) % 3) + 1], 0, Rev >>)
    /\ UNCHANGED <<i, cur, fin, seen>>

At(e) ==                              \* lazy: a hit already returned, or a position not yet searched
    /\ mode = "lazy" /\ (e \in seen \/ e >= i)
    /\ hist' = Append(hist, << LazyAt[((steps + e) % 3) + 1], e, Rev >>)
    /\ UNCHANGED <<i, cur, fin, seen>>

Next ==
    /\ steps < MaxSteps
    /\ steps' = steps + 1
    /\ UNCHANGED <<p, t, k, mode>>
    /\ \/ NextOp
       \/ Query
       \/ \E e \in seen \cup {i} \cup (IF Beyond THEN {i + 1} ELSE {}) : At(e)
Spec == Init /\ [][Next]_vars

\* ------------------------------------------------------------ invariants
\* the frontier is what the definition says: all hits left of it have been returned
Decided == seen = {h[1] : h \in {x \in RangeOf(HitsOfRow(Row, k)) : x[1] < i}}
Frontier ==
    /\ i \in 0..N /\ cur < i
    /\ cur >= 0 => (cur = i - 1 /\ Within(Row[cur + 1], k))
    /\ fin => (i = N /\ mode = "eager")
\* a lazy query is answered exactly when its end position is left of the frontier, and every
\* query the machine generates there is the end of a hit (the documented domain)
Domain == \A e \in seen : e < i /\ Within(Row[e + 1], k)

Emit == (EmitOn /\ steps = MaxSteps) =>
            PrintT(<<"BEH", ToJson([p |-> p, t |-> t, k |-> k, mode |-> mode, ops |-> hist])>>)
=============================================================================
