CONSTANTS
  Sym = {0, 1}
  MaxP = 3
  MaxT = 4
  MaxK = 3
  FirstTexts <- FirstTextsDef
  RingExtra = 2
SPECIFICATION Spec
INVARIANTS TypeOK LazyFrontier LazyValid EagerValid CanonValid
CHECK_DEADLOCK FALSE
