------------------------------ MODULE MyersTbMC ------------------------------
(* C10 machine: one Myers object = a column store that survives searches       *)
(* (traceback.rs: Traceback::{new,add_state,traceback,traceback_at}); a search *)
(* is (text, k, mode) with mode "eager" (FullMatches: ring of m+min(k,m)+2     *)
(* slots, traceback only from the newest column) or "lazy" (LazyMatches: n+2   *)
(* slots, traceback_at(e) for any e, refused when e has not been searched).    *)
(* A second search on the same object starts from the resized, stale store.    *)
(* Checked for all patterns/texts over Sym, all k <= MaxK, both modes, and     *)
(* every second search after the first searches in FirstTexts:                 *)
(*  - the frontier test of traceback_at is exact (refuses iff not searched);   *)
(*  - every traceback the API can start reads only columns written by the      *)
(*    current search, each being the column the walk believes it to be (ring   *)
(*    large enough, sentinel in place, nothing stale);                          *)
(*  - its result is a ValidHit and equals the walk on the complete matrix      *)
(*    (so eager, lazy, repeated and reordered queries agree).                  *)
EXTENDS ApproxMatch, TLC
CONSTANTS Sym, MaxP, MaxT, MaxK, FirstTexts, RingExtra

VARIABLES p, t, k, mode, gen, store, R, pos, i, col
vars == <<p, t, k, mode, gen, store, R, pos, i, col>>

Strings(lo, hi) == UNION {[1..n -> Sym] : n \in lo..hi}
Ctx == MkPlain(p)
M == Len(p)
N == Len(t)
Modes == {"eager", "lazy"}
\* FullMatches::new / LazyMatches::new + Traceback::new (RingExtra = 2 in the code)
Slots(m, n, kk, md) == (IF md = "eager" THEN m + Min2(kk, m) ELSE n) + RingExtra

Init ==
    /\ p \in Strings(1, MaxP)
    /\ t \in Strings(0, MaxT)
    /\ k \in 0..MaxK
    /\ mode \in Modes
    /\ gen = 1
    /\ R = Slots(Len(p), Len(t), k, mode)
    /\ store = TbNew(<< >>, R, Len(p), 1)
    /\ pos = 1
    /\ i = 0
    /\ col = Iota(Len(p))

\* step_trace: one text symbol, the new column goes to the next slot (cyclically)
Step ==
    /\ i < N
    /\ LET nc == Col(Ctx, col, t[i + 1], 0)
           np == (pos + 1) % R
       IN  /\ col' = nc
           /\ pos' = np
           /\ store' = TbPut(store, np, nc, gen, i + 1)
    /\ i' = i + 1
    /\ UNCHANGED <<p, t, k, mode, gen, R>>

\* the caller drops the iterator (here: after a complete first search) and starts
\* another search on the same object
Restart(t2, k2, md2) ==
    /\ gen = 1 /\ i = N /\ t \in FirstTexts
    /\ t' = t2 /\ k' = k2 /\ mode' = md2 /\ gen' = 2
    /\ R' = Slots(M, Len(t2), k2, md2)
    /\ store' = TbNew(store, Slots(M, Len(t2), k2, md2), M, 2)
    /\ pos' = 1 /\ i' = 0 /\ col' = Iota(M)
    /\ UNCHANGED p

Next == Step \/ \E t2 \in Strings(0, MaxT), k2 \in 0..MaxK, md2 \in Modes : Restart(t2, k2, md2)
Spec == Init /\ [][Next]_vars

\* ------------------------------------------------------------ invariants
Row == LastRow(Ctx, t)

TypeOK == Len(store) = R /\ pos \in 0..(R - 1) /\ pos = (i + 1) % R

\* traceback_at(e) answers iff e + 2 <= pos; that must mean "e has been searched"
LazyFrontier ==
    mode = "lazy" => \A e \in 0..(N + 1) : (e + 2 <= pos) <=> (e < i)

Good(w, e) ==        \* w = result of a walk started for 0-based end position e
    /\ w.ok /\ w.fresh
    /\ w.dist = Row[e + 1]
    /\ ValidHit(Ctx, t, Row, e + 1 - w.len, e + 1, w.dist, w.ops)
    /\ LET c == Canon(Ctx, t, e) IN w.ops = c.ops /\ w.len = c.len /\ w.dist = c.dist

\* lazy API: every searched end position (the single-word version stores complete
\* columns, so this holds for non-hits too)
LazyValid ==
    mode = "lazy" => \A e \in 0..(i - 1) : Good(TbWalk(store, R, e + 2, e + 1, gen, M), e)

\* eager API: start()/path()/alignment() of the current hit
EagerValid ==
    (mode = "eager" /\ i >= 1 /\ col[M + 1] <= k) => Good(TbWalk(store, R, pos, i, gen, M), i - 1)

\* the walk on the complete matrix is itself a valid optimal alignment (definition-level lemma)
CanonValid ==
    \A e \in 0..(N - 1) :
        LET c == Canon(Ctx, t, e) IN
        /\ c.ok /\ c.fresh /\ ValidHit(Ctx, t, Row, e + 1 - c.len, e + 1, c.dist, c.ops)
        /\ CanonOnCols(Cols(Ctx, t), M, e) = << c.len, c.ops >>

FirstTextsDef == { << 0, 1, 1, 0 >>, << 1 >> }       \* first searches that are followed by a second one
=============================================================================
