---------------------------- MODULE MyersTbTrace ----------------------------
(* Trace validation for C10, family "myers_tb".                               *)
(* run.cfg = [p, ambig, wild, texts, objs]; objs[o] = [impl, w]: matcher       *)
(* objects for the same pattern (single-word and block-based), each reused    *)
(* for a sequence of searches. Events carry a.obj.                            *)
(*   new | search(ti,k,mode)                                                  *)
(*   eager: next | next_end | next_path(rev) | next_alignment |               *)
(*          start | path(rev) | alignment                                     *)
(*   lazy : lazy_next | hit_at(e) | path_at(e,rev) | alignment_at(e)           *)
(* Protocol state per object (machine layer of C10, cf. MyersTbMC): the       *)
(* current search, i = number of text symbols stepped over (the `searched`    *)
(* frontier), cur = end of the current hit (eager), fin = the eager iterator   *)
(* has returned None. `mem` remembers, per (text, k, end), the first           *)
(* (start, path) that was accepted: every later answer for that end - other    *)
(* API, repeated query, other order, other implementation - must be identical. *)
(* Which of several optimal paths is reported is not promised by the property: *)
(* an accepted answer that differs from the walk of the traceback machine      *)
(* (CanonOnCols) is printed as DRIFT (MODEL-DRIFT, exit 0), never as REJECT.   *)
EXTENDS ApproxMatch, TLC, Json, IOUtils

Rec == ndJsonDeserialize(IOEnv.TRACE)

VARIABLES run, idx, ok, st
vars == <<run, idx, ok, st>>

NoState == << >>
Unknown == << -1 >>                       \* "no path was reported" (start()/hit_at() only)

RECURSIVE AllColsRec(_, _, _)
AllColsRec(ctx, texts, acc) ==           \* the complete edit matrix of every text of the run
    IF Len(acc) = Len(texts) THEN acc
    ELSE AllColsRec(ctx, texts, Append(acc, Cols(ctx, texts[Len(acc) + 1])))
RECURSIVE RowOfRec(_, _, _)
RowOfRec(cols, m, acc) ==                \* last row: r[j] = D[m][j], j = 1..n
    IF Len(acc) + 1 = Len(cols) THEN acc
    ELSE RowOfRec(cols, m, Append(acc, cols[Len(acc) + 2][m + 1]))
RECURSIVE RowsRec(_, _, _)
RowsRec(allcols, m, acc) ==
    IF Len(acc) = Len(allcols) THEN acc
    ELSE RowsRec(allcols, m, Append(acc, RowOfRec(allcols[Len(acc) + 1], m, << >>)))

CtxOf(cfg) == MkEq(cfg.p, cfg.ambig, cfg.wild)
Idle == [mode |-> "none", ti |-> 0, k |-> 0, i |-> 0, cur |-> -1, fin |-> FALSE]

InitState(cfg) ==
    LET ac == AllColsRec(CtxOf(cfg), cfg.texts, << >>) IN
    [cols |-> ac,
     rows |-> RowsRec(ac, Len(cfg.p), << >>),
     obj  |-> [o \in 1..Len(cfg.objs) |-> Idle],
     mem  |-> << >>]                      \* function (ti,k,e) -> [start, ops]; empty function

Reverse(s) == [x \in 1..Len(s) |-> s[Len(s) + 1 - x]]
Ops(r, c) == IF c.a.rev = 1 THEN Reverse(r.ops) ELSE r.ops

\* global edit distance between the pattern (with its equality relation) and string b
GlobalDist(ctx, b) == LevRec(ctx, b, 1, Iota(ctx.m))

\* An answer "the hit ending at 0-based e starts at s, has distance d (and path ops)".
AnswerOK(cfg, s0, key, e, s, d, ops) ==
    LET ctx == CtxOf(cfg)
        t   == cfg.texts[key[1]]
        row == s0.rows[key[1]]
        old == IF key \in DOMAIN s0.mem THEN s0.mem[key] ELSE [start |-> -1, ops |-> Unknown]
    IN  /\ e \in 0..(Len(t) - 1)
        /\ d = row[e + 1]
        /\ s \in 0..(e + 1)
        /\ IF ops # Unknown THEN ValidPath(ctx, t, s, e + 1, d, ops)
           ELSE IF old.start >= 0 THEN s = old.start           \* validated when it was remembered
           ELSE GlobalDist(ctx, SubSeq(t, s + 1, e + 1)) = d
        \* consistency across APIs, repetitions, orders and implementations
        /\ old.start >= 0 => s = old.start
        /\ (old.ops # Unknown /\ ops # Unknown) => ops = old.ops

Remember(s0, key, s, ops) ==
    LET old == IF key \in DOMAIN s0.mem THEN s0.mem[key] ELSE [start |-> -1, ops |-> Unknown]
        new == [start |-> s, ops |-> IF ops # Unknown THEN ops ELSE old.ops]
    IN  [s0 EXCEPT !.mem = [x \in (DOMAIN s0.mem) \cup {key} |-> IF x = key THEN new ELSE s0.mem[x]]]

RECURSIVE RememberAllRec(_, _, _, _, _)
RememberAllRec(s0, ti, k, items, x) ==     \* items = <<start, end (exclusive), d>> triples
    IF x > Len(items) THEN s0
    ELSE RememberAllRec(Remember(s0, << ti, k, items[x][2] - 1 >>, items[x][1], Unknown), ti, k, items, x + 1)

AlnOK(a, m, n, s, e, d) ==
    /\ a.xstart = 0 /\ a.xend = m /\ a.xlen = m /\ a.ylen = n
    /\ a.ystart = s /\ a.yend = e + 1 /\ a.score = d /\ a.mode = "Semiglobal"

\* ------------------------------------------------------------------ events
\* Explains and After are computed together: Judge returns [good, st].
Judge(cfg, s0, ev) ==
    LET c   == ev.c
        r   == ev.r
        oi  == c.a.obj
        o   == s0.obj[oi]
        m   == Len(cfg.p)
        row == IF o.ti > 0 THEN s0.rows[o.ti] ELSE << >>
        n   == Len(row)
        nh  == NextHit(row, o.k, o.i)
        SetObj(no) == [s0 EXCEPT !.obj[oi] = no]
        Bad == [good |-> FALSE, exact |-> TRUE, st |-> s0]
        \* after a next-type call: the frontier moves to the hit (or to the end of the text)
        Moved == IF nh = << >> THEN SetObj([o EXCEPT !.i = n, !.cur = -1, !.fin = (o.mode = "eager")])
                 ELSE SetObj([o EXCEPT !.i = nh[1] + 1, !.cur = nh[1], !.fin = FALSE])
        Key(e) == << o.ti, o.k, e >>
        \* a reported hit (e,d) with start s and optional path
        \* machine-layer conformance (not promised by the property): the reported alignment
        \* is the one the traceback machine of MyersTbMC produces (Subst > Ins > Del > Match)
        Exact(e, s, ops) ==
            LET cw == CanonOnCols(s0.cols[o.ti], m, e)
            IN  s = e + 1 - cw[1] /\ (ops # Unknown => ops = cw[2])
        Accept(base, e, s, d, ops) ==
            IF AnswerOK(cfg, s0, Key(e), e, s, d, ops)
            THEN [good |-> TRUE, exact |-> Exact(e, s, ops), st |-> Remember(base, Key(e), s, ops)] ELSE Bad
        InDomain(e) == e < o.i /\ (Within(row[e + 1], o.k) \/ cfg.objs[oi].impl = "simple")
    IN
    IF r.st # "ok" THEN Bad            \* nothing in this family is allowed to panic
    ELSE CASE c.op \in {"new", "clone", "clone_from", "debug"} ->
           \* an object created, or copied from object a.from in the middle of its history (clone;
           \* clone_from into a used object of another pattern), or formatted with Debug: the
           \* events that follow on a.obj are judged like those of any other object
           [good |-> TRUE, exact |-> TRUE, st |-> s0]
      \* a fresh eager / lazy iterator consumed through count / last / nth / skip / step_by, or
      \* asked for its size_hint after n items; afterwards the iterator is gone
      [] c.op = "iter_via" /\ o.mode \in {"eager", "lazy"} /\ o.i = 0 ->
           LET h    == HitsOfRow(row, o.k)
               done == SetObj([o EXCEPT !.mode = "none"])
               want == ViaSeq(h, c.a.how, c.a.n)
           IN  IF c.a.how = "size_hint"
               THEN [good |-> HintOK(r.v, Len(h) - Min2(c.a.n, Len(h))), exact |-> TRUE, st |-> done]
               ELSE IF c.a.how = "count" \/ o.mode = "lazy"
               THEN [good |-> r.v = want, exact |-> TRUE, st |-> done]
               ELSE IF Len(r.v) = Len(want)
                       /\ \A x \in 1..Len(want) :
                             /\ Len(r.v[x]) = 3 /\ r.v[x][2] = want[x][1] + 1 /\ r.v[x][3] = want[x][2]
                             /\ AnswerOK(cfg, s0, Key(want[x][1]), want[x][1], r.v[x][1], want[x][2], Unknown)
                    THEN [good |-> TRUE, exact |-> \A x \in 1..Len(want) : Exact(want[x][1], r.v[x][1], Unknown),
                          st |-> RememberAllRec(done, o.ti, o.k, r.v, 1)]
                    ELSE Bad
      [] c.op = "search" ->
           [good |-> TRUE, exact |-> TRUE, st |-> SetObj([mode |-> c.a.mode, ti |-> c.a.ti, k |-> c.a.k, i |-> 0,
                                          cur |-> -1, fin |-> FALSE])]
      \* ------------------------------------------------------------ eager
      [] c.op = "next_end" /\ o.mode = "eager" ->
           [good |-> r.v = nh, exact |-> TRUE, st |-> Moved]
      [] c.op = "next" /\ o.mode = "eager" ->
           IF nh = << >> THEN [good |-> r.v = << >>, exact |-> TRUE, st |-> Moved]
           ELSE IF Len(r.v) = 3 /\ r.v[2] = nh[1] + 1 /\ r.v[3] = nh[2]
                THEN Accept(Moved, nh[1], r.v[1], nh[2], Unknown) ELSE Bad
      [] c.op = "next_path" /\ o.mode = "eager" ->
           IF nh = << >> THEN [good |-> r.v = << >>, exact |-> TRUE, st |-> Moved]
           ELSE IF Len(r.v) = 3 /\ r.v[2] = nh[1] + 1 /\ r.v[3] = nh[2]
                THEN Accept(Moved, nh[1], r.v[1], nh[2], Ops(r, c)) ELSE Bad
      [] c.op = "next_alignment" /\ o.mode = "eager" ->
           IF nh = << >> THEN [good |-> r.found = 0, exact |-> TRUE, st |-> Moved]
           ELSE IF r.found = 1 /\ AlnOK(r.aln, m, n, r.aln.ystart, nh[1], nh[2])
                THEN Accept(Moved, nh[1], r.aln.ystart, nh[2], r.aln.ops) ELSE Bad
      [] c.op \in {"start", "path", "alignment"} /\ o.mode = "eager" ->
           IF o.fin THEN [good |-> IF c.op = "alignment" THEN r.found = 0 ELSE r.v = << >>, exact |-> TRUE, st |-> s0]
           ELSE IF o.cur < 0 THEN [good |-> TRUE, exact |-> TRUE, st |-> s0]     \* no current hit yet: not specified
           ELSE LET e == o.cur  d == row[e + 1] IN
                CASE c.op = "start" ->
                       IF Len(r.v) = 1 THEN Accept(s0, e, r.v[1], d, Unknown) ELSE Bad
                  [] c.op = "path" ->
                       IF Len(r.v) = 1 THEN Accept(s0, e, r.v[1], d, Ops(r, c)) ELSE Bad
                  [] OTHER ->
                       IF r.found = 1 /\ AlnOK(r.aln, m, n, r.aln.ystart, e, d)
                       THEN Accept(s0, e, r.aln.ystart, d, r.aln.ops) ELSE Bad
      \* ------------------------------------------------------------- lazy
      [] c.op = "lazy_next" /\ o.mode = "lazy" ->
           [good |-> r.v = nh, exact |-> TRUE, st |-> Moved]
      [] c.op \in {"hit_at", "path_at", "alignment_at"} /\ o.mode = "lazy" ->
           LET e == c.a.e IN
           IF e >= o.i                     \* not searched yet: refused, never answered from stale data
           THEN [good |-> IF c.op = "alignment_at" THEN r.found = 0 ELSE r.v = << >>, exact |-> TRUE, st |-> s0]
           ELSE IF ~InDomain(e) THEN [good |-> TRUE, exact |-> TRUE, st |-> s0]  \* block version, searched non-hit end
           ELSE LET d == row[e + 1] IN
                CASE c.op = "hit_at" ->
                       IF Len(r.v) = 2 /\ r.v[2] = d THEN Accept(s0, e, r.v[1], d, Unknown) ELSE Bad
                  [] c.op = "path_at" ->
                       IF Len(r.v) = 2 /\ r.v[2] = d THEN Accept(s0, e, r.v[1], d, Ops(r, c)) ELSE Bad
                  [] OTHER ->
                       IF r.found = 1 /\ AlnOK(r.aln, m, n, r.aln.ystart, e, d)
                       THEN Accept(s0, e, r.aln.ystart, d, r.aln.ops) ELSE Bad
      [] OTHER -> Bad

Init == run \in 1..Len(Rec) /\ idx = 0 /\ ok = TRUE /\ st = NoState
Next ==
    /\ ok /\ idx < Len(Rec[run].ev)
    /\ LET R  == Rec[run]
           s0 == IF st = NoState THEN InitState(R.cfg) ELSE st
           j  == Judge(R.cfg, s0, R.ev[idx + 1])
       IN  /\ ok' = j.good
           /\ st' = j.st
           /\ IF j.good THEN (IF j.exact THEN TRUE ELSE PrintT(<<"DRIFT", run, idx + 1>>))
              ELSE PrintT(<<"REJECT", run, idx + 1>>)
    /\ idx' = idx + 1
    /\ UNCHANGED run
Spec == Init /\ [][Next]_vars
=============================================================================
