------------------------------- MODULE Newick -------------------------------
(***************************************************************************)
(* X05 -- Newick trees: src/io/newick.rs + src/io/newick.pest              *)
(* (from_string / read / from_file; the module has no writer).             *)
(*                                                                         *)
(* A text is a sequence of byte values.  An (abstract, rooted, ordered)    *)
(* tree is the sequence of its nodes in preorder, each node a record       *)
(*   [d |-> depth (root 0), nm |-> name (<< >> = unnamed),                 *)
(*    w |-> branch length literal (<< >> = none)];                         *)
(* t[i+1].d <= t[i].d + 1 makes preorder + depth a canonical encoding.     *)
(*                                                                         *)
(* Definition layer                                                        *)
(*   Render(t)       the canonical Newick text of a tree (rust-bio has no  *)
(*                   writer; this is the writer of the specification)      *)
(*   Lang(C, L)      the Newick grammar read as an unordered context-free  *)
(*                   grammar: the set of all [s |-> text, t |-> tree] with *)
(*                   Len(s) <= L over the characters C, built bottom-up    *)
(*                   (names, optional lengths, empty branches, white space *)
(*                   around every token, white space kept inside a name)   *)
(*   IsFloatLit      the number syntax as a declarative predicate          *)
(*   ValidUtf8       well-formed UTF-8 (Unicode table 3-7)                 *)
(*   EdgeOrderDef    order in which a post-order builder adds the edges    *)
(*   WeightOk        what an f32 read from a literal projects to           *)
(* Machine layer                                                           *)
(*   Step(m, c)      the one-pass parser as a deterministic push-down      *)
(*                   machine, one step per character: what the ordered     *)
(*                   choice / greedy repetition of the PEG does on this    *)
(*                   grammar; Run(s), Finish(m)                            *)
(*   EdgePairs(t)    the graph builder (add_node recursion: node indices   *)
(*                   in preorder, an edge is added when the child's        *)
(*                   subtree is complete)                                  *)
(* NewickMC.tla checks the machine against Lang for every string up to a   *)
(* length bound; NewickTrace.tla validates recorded runs of the real code. *)
(*                                                                         *)
(* What the real reader preserves, precisely: shape and child order (the   *)
(* children of a node ordered by edge index = textual order), names        *)
(* verbatim from the first to the last non-blank character of the label    *)
(* (inner blanks kept), unnamed nodes get the label "N/A" (a node that is  *)
(* really called N/A cannot be told apart), branch lengths as f32 (NaN =   *)
(* none); the length of the root has no place in the graph and is dropped. *)
(***************************************************************************)
EXTENDS Integers, Sequences, FiniteSets

LP == 40   RP == 41   COMMA == 44   COLON == 58   SEMI == 59   LBR == 91   RBR == 93
MINUS == 45   PLUS == 43   DOT == 46   ZERO == 48
WsChars == {32, 9, 10, 13}                       \* " " | "\t" | NEWLINE
MetaChars == {LP, RP, COMMA, COLON, SEMI, LBR, RBR}
IsWs(c) == c \in WsChars
IsSafe(c) == c \notin MetaChars /\ c \notin WsChars   \* every other character; bytes >= 128 are parts of such characters
IsDigit(c) == c \in 48..57
IsExpChar(c) == c \in {69, 101}
FloatChars == (48..57) \cup {69, 101, DOT, MINUS, PLUS}

MaxOf(S) == CHOOSE x \in S : \A y \in S : y <= x
Front(s) == SubSeq(s, 1, Len(s) - 1)

\* ------------------------------------------------------------------ trees
Node(d, nm, w) == [d |-> d, nm |-> nm, w |-> w]
IsTree(t) ==
    /\ Len(t) >= 1 /\ t[1].d = 0
    /\ \A i \in 2..Len(t) : t[i].d >= 1 /\ t[i].d <= t[i - 1].d + 1
\* last index of the subtree rooted at i
SubEnd(t, i) == MaxOf({j \in i..Len(t) : \A k \in (i + 1)..j : t[k].d > t[i].d})
ParentOf(t, c) == MaxOf({i \in 1..(c - 1) : t[i].d = t[c].d - 1})
FirstKid(t, i) == IF i < Len(t) /\ t[i + 1].d = t[i].d + 1 THEN i + 1 ELSE 0
NextSib(t, j) == LET e == SubEnd(t, j) IN IF e < Len(t) /\ t[e + 1].d = t[j].d THEN e + 1 ELSE 0

\* ------------------------------------------------- the number syntax (rule `float`)
Digits(s) == \A i \in 1..Len(s) : IsDigit(s[i])
IsIntPart(s) == Len(s) >= 1 /\ Digits(s) /\ (s[1] = ZERO => Len(s) = 1)
IsFrac(s) == s = << >> \/ (s[1] = DOT /\ Digits(Tail(s)))
IsExp(s) ==
    \/ s = << >>
    \/ /\ Len(s) >= 2 /\ IsExpChar(s[1])
       /\ LET r == IF s[2] \in {PLUS, MINUS} THEN SubSeq(s, 3, Len(s)) ELSE Tail(s)
          IN  Len(r) >= 1 /\ Digits(r)
IsFloatLit(s) ==
    LET u == IF Len(s) >= 1 /\ s[1] = MINUS THEN Tail(s) ELSE s
    IN  \E i \in 1..Len(u) : \E j \in i..Len(u) :
            /\ IsIntPart(SubSeq(u, 1, i))
            /\ IsFrac(SubSeq(u, i + 1, j))
            /\ IsExp(SubSeq(u, j + 1, Len(u)))

\* a name the grammar can read back: first and last character safe, blanks only inside
IsName(s) == Len(s) >= 1 /\ IsSafe(s[1]) /\ IsSafe(s[Len(s)]) /\ \A i \in 1..Len(s) : IsSafe(s[i]) \/ IsWs(s[i])

\* ------------------------------------------------------------- the writer
RECURSIVE PrintSub(_, _), PrintSibs(_, _)
PrintSibs(t, j) ==
    PrintSub(t, j) \o (IF NextSib(t, j) = 0 THEN << >> ELSE <<COMMA>> \o PrintSibs(t, NextSib(t, j)))
PrintSub(t, i) ==
    (IF FirstKid(t, i) = 0 THEN << >> ELSE <<LP>> \o PrintSibs(t, FirstKid(t, i)) \o <<RP>>)
    \o t[i].nm
    \o (IF t[i].w = << >> THEN << >> ELSE <<COLON>> \o t[i].w)
Render(t) == PrintSub(t, 1) \o <<SEMI>>
\* the trees whose text must read back as themselves
Printable(t) ==
    /\ IsTree(t) /\ t[1].w = << >>
    /\ \A i \in 1..Len(t) : (t[i].nm = << >> \/ IsName(t[i].nm)) /\ (t[i].w = << >> \/ IsFloatLit(t[i].w))

\* ------------------------------------------ the grammar as a set of derivations
\* Level k holds everything of exact length k:
\*   sub : SubTree without surrounding blanks           [s, f]   (f: the subtree, root at depth 0)
\*   br  : Branch = blanks [SubTree] blanks [Length] blanks        (f: one subtree, its root carries the length)
\*   bs  : BranchSet = Branch ("," Branch)*                        (f: a forest, roots at depth 0)
Strs(S, k) == [1..k -> S]
Shift(f) == [i \in 1..Len(f) |-> [f[i] EXCEPT !.d = @ + 1]]
Leaf0(nm) == <<Node(0, nm, << >>)>>
WsStrs(C, k) == Strs(C \cap WsChars, k)
NameStrs(C, k) ==
    IF k = 0 THEN {} ELSE {s \in Strs({c \in C : IsSafe(c) \/ IsWs(c)}, k) : IsSafe(s[1]) /\ IsSafe(s[k])}
FloatStrs(C, k) == IF k = 0 THEN {} ELSE {s \in Strs(C \cap FloatChars, k) : IsFloatLit(s)}
\* ":" blanks float
LenStrs(C, k) ==
    UNION {{[s |-> <<COLON>> \o ws \o fl, w |-> fl] : ws \in WsStrs(C, j), fl \in FloatStrs(C, k - 1 - j)} : j \in 0..(k - 2)}
\* blanks name, or nothing
NameTails(C, k) ==
    IF k = 0 THEN {[s |-> << >>, nm |-> << >>]}
    ELSE UNION {{[s |-> ws \o n, nm |-> n] : ws \in WsStrs(C, j), n \in NameStrs(C, k - j)} : j \in 0..(k - 1)}

\* the token strings of every exact length 0..L, computed once: tb.ws[k + 1] etc.
Tables(C, L) ==
    [ws |-> [k \in 1..(L + 1) |-> WsStrs(C, k - 1)],
     ln |-> [k \in 1..(L + 1) |-> LenStrs(C, k - 1)],
     nt |-> [k \in 1..(L + 1) |-> NameTails(C, k - 1)],
     nm |-> [k \in 1..(L + 1) |-> NameStrs(C, k - 1)]]

SubLevel(tb, lv, k) ==
    {[s |-> n, f |-> Leaf0(n)] : n \in tb.nm[k + 1]}
    \cup UNION {{[s |-> <<LP>> \o b.s \o <<RP>> \o nt.s, f |-> <<Node(0, nt.nm, << >>)>> \o Shift(b.f)] :
                    b \in lv[j + 1].bs, nt \in tb.nt[k - 2 - j + 1]} : j \in 0..(k - 2)}

\* subs[j + 1] = sub of level j, for j <= k
BrLevel(tb, subs, k) ==
    {[s |-> ws, f |-> Leaf0(<< >>)] : ws \in tb.ws[k + 1]}
    \cup UNION {UNION {{[s |-> w1 \o x.s \o w2, f |-> x.f] : w1 \in tb.ws[i + 1], x \in subs[j + 1], w2 \in tb.ws[k - i - j + 1]} :
                    j \in 0..(k - i)} : i \in 0..k}
    \cup UNION {UNION {{[s |-> w1 \o ln.s \o w3, f |-> [Leaf0(<< >>) EXCEPT ![1].w = ln.w]] :
                            w1 \in tb.ws[i + 1], ln \in tb.ln[j + 1], w3 \in tb.ws[k - i - j + 1]} :
                    j \in 2..(k - i)} : i \in 0..k}
    \cup UNION {UNION {UNION {UNION {
            {[s |-> w1 \o x.s \o w2 \o ln.s \o w3, f |-> [x.f EXCEPT ![1].w = ln.w]] :
                w1 \in tb.ws[i + 1], x \in subs[j + 1], w2 \in tb.ws[p + 1], ln \in tb.ln[q + 1],
                w3 \in tb.ws[k - i - j - p - q + 1]} :
            q \in 2..(k - i - j - p)} : p \in 0..(k - i - j)} : j \in 1..(k - i)} : i \in 0..k}

BsLevel(lv, br, k) ==
    br \cup UNION {{[s |-> b.s \o <<COMMA>> \o r.s, f |-> b.f \o r.f] : b \in lv[i + 1].br, r \in lv[k - i].bs} : i \in 0..(k - 1)}

RECURSIVE Levels(_, _, _, _)
Levels(tb, lv, k, L) ==
    IF k > L THEN lv
    ELSE LET sub  == SubLevel(tb, lv, k)
             subs == [j \in 1..(k + 1) |-> IF j = k + 1 THEN sub ELSE lv[j].sub]
             br   == BrLevel(tb, subs, k)
             bs   == BsLevel(lv, br, k)
         IN  Levels(tb, Append(lv, [sub |-> sub, br |-> br, bs |-> bs]), k + 1, L)

\* Tree = Branch ";" blanks -- the length of the root is read and dropped
TreeLevel(tb, lv, k) ==
    UNION {{[s |-> x.s \o <<SEMI>> \o ws, t |-> [x.f EXCEPT ![1].w = << >>]] : x \in lv[i + 1].br, ws \in tb.ws[k - 1 - i + 1]} :
            i \in 0..(k - 1)}
Lang(C, L) ==
    LET tb == Tables(C, L)
        lv == Levels(tb, << >>, 0, L - 1)                  \* a tree of length k needs branches up to k - 1
    IN  UNION {TreeLevel(tb, lv, k) : k \in 1..L}

\* ------------------------------------------------------ the parser machine
M0 == [pc |-> "sub0", tree |-> << >>, path |-> << >>, cur |-> 0, pend |-> << >>, lit |-> << >>]
Pcs == {"sub0", "bs", "name", "aftersub", "afterclose", "lenstart", "fsign", "fzero", "fint", "fdot", "fe",
        "fesign", "fexp", "afterlen", "end", "dead"}
Dead(m) == [m EXCEPT !.pc = "dead"]
AddNode(m, nm, pc) ==
    [m EXCEPT !.tree = Append(@, Node(Len(m.path), nm, << >>)), !.cur = Len(m.tree) + 1, !.pc = pc,
              !.pend = << >>, !.lit = << >>]
Open(m) == LET m2 == AddNode(m, << >>, "bs") IN [m2 EXCEPT !.path = Append(@, m2.cur), !.cur = 0]
Close(m) == [m EXCEPT !.cur = m.path[Len(m.path)], !.path = Front(@), !.pc = "afterclose"]
\* what may follow a complete branch
Term(m, c) ==
    CASE c = COMMA /\ m.path # << >> -> [m EXCEPT !.pc = "bs", !.cur = 0]
      [] c = RP /\ m.path # << >>    -> Close(m)
      [] c = SEMI /\ m.path = << >>  -> [m EXCEPT !.pc = "end"]
      [] OTHER -> Dead(m)
\* after a SubTree: blanks, an optional length, a terminator
After(m, c) ==
    LET m2 == [m EXCEPT !.pend = << >>] IN
    IF IsWs(c) THEN [m2 EXCEPT !.pc = "aftersub"]
    ELSE IF c = COLON THEN [m2 EXCEPT !.pc = "lenstart", !.lit = << >>]
    ELSE Term(m2, c)
\* the literal is complete: it belongs to node cur, unless we are at the root (no edge to carry it)
FloatDone(m, c) ==
    LET m2 == [(IF m.path = << >> THEN m ELSE [m EXCEPT !.tree[m.cur].w = m.lit]) EXCEPT !.lit = << >>] IN
    IF IsWs(c) THEN [m2 EXCEPT !.pc = "afterlen"] ELSE Term(m2, c)
Lit(m, c, pc) == [m EXCEPT !.lit = Append(@, c), !.pc = pc]

BranchStart(m, c) ==          \* pc = "sub0" (root) or "bs" (inside parentheses)
    IF IsWs(c) THEN m
    ELSE IF IsSafe(c) THEN AddNode(m, <<c>>, "name")
    ELSE IF c = LP THEN Open(m)
    ELSE IF c = COLON THEN AddNode(m, << >>, "lenstart")
    ELSE IF m.pc = "sub0" THEN (IF c = SEMI THEN AddNode(m, << >>, "end") ELSE Dead(m))
    ELSE IF c = COMMA THEN [AddNode(m, << >>, "bs") EXCEPT !.cur = 0]
    ELSE IF c = RP THEN Close(AddNode(m, << >>, "bs"))
    ELSE Dead(m)

Step(m, c) ==
    CASE m.pc = "dead" -> m
      [] m.pc \in {"sub0", "bs"} -> BranchStart(m, c)
      [] m.pc = "name" ->
            IF IsSafe(c) THEN [m EXCEPT !.tree[m.cur].nm = @ \o m.pend \o <<c>>, !.pend = << >>]
            ELSE IF IsWs(c) THEN [m EXCEPT !.pend = Append(@, c)]
            ELSE After(m, c)
      [] m.pc = "afterclose" ->
            IF IsWs(c) THEN m
            ELSE IF IsSafe(c) THEN [m EXCEPT !.tree[m.cur].nm = <<c>>, !.pc = "name", !.pend = << >>]
            ELSE After(m, c)
      [] m.pc = "aftersub" -> After(m, c)
      [] m.pc = "lenstart" ->
            IF IsWs(c) THEN m
            ELSE IF c = MINUS THEN Lit(m, c, "fsign")
            ELSE IF c = ZERO THEN Lit(m, c, "fzero")
            ELSE IF IsDigit(c) THEN Lit(m, c, "fint")
            ELSE Dead(m)
      [] m.pc = "fsign" -> IF c = ZERO THEN Lit(m, c, "fzero") ELSE IF IsDigit(c) THEN Lit(m, c, "fint") ELSE Dead(m)
      [] m.pc = "fzero" -> IF c = DOT THEN Lit(m, c, "fdot") ELSE IF IsExpChar(c) THEN Lit(m, c, "fe") ELSE FloatDone(m, c)
      [] m.pc = "fint"  -> IF IsDigit(c) THEN Lit(m, c, "fint") ELSE IF c = DOT THEN Lit(m, c, "fdot")
                           ELSE IF IsExpChar(c) THEN Lit(m, c, "fe") ELSE FloatDone(m, c)
      [] m.pc = "fdot"  -> IF IsDigit(c) THEN Lit(m, c, "fdot") ELSE IF IsExpChar(c) THEN Lit(m, c, "fe") ELSE FloatDone(m, c)
      \* an exponent without digits is given back by the PEG; the "e" that remains cannot follow a number
      [] m.pc = "fe"    -> IF c \in {PLUS, MINUS} THEN Lit(m, c, "fesign") ELSE IF IsDigit(c) THEN Lit(m, c, "fexp") ELSE Dead(m)
      [] m.pc = "fesign" -> IF IsDigit(c) THEN Lit(m, c, "fexp") ELSE Dead(m)
      [] m.pc = "fexp"  -> IF IsDigit(c) THEN Lit(m, c, "fexp") ELSE FloatDone(m, c)
      [] m.pc = "afterlen" -> IF IsWs(c) THEN m ELSE Term(m, c)
      [] m.pc = "end" -> IF IsWs(c) THEN m ELSE Dead(m)
      [] OTHER -> Dead(m)

RECURSIVE RunFrom(_, _, _)
RunFrom(m, s, i) == IF i > Len(s) \/ m.pc = "dead" THEN m ELSE RunFrom(Step(m, s[i]), s, i + 1)
Run(s) == RunFrom(M0, s, 1)
Finish(m) == [ok |-> m.pc = "end", t |-> IF m.pc = "end" THEN m.tree ELSE << >>]      \* end of input
Parse(s) == Finish(Run(s))

\* ------------------------------------------------------------ the graph
NA == <<78, 47, 65>>                                   \* "N/A"
Label(nd) == IF nd.nm = << >> THEN NA ELSE nd.nm

\* edges in the order the recursive builder adds them: [p |-> parent, c |-> child] (preorder indices)
RECURSIVE PopTo(_, _, _, _)
PopTo(t, stack, d, out) ==
    IF stack # << >> /\ t[stack[Len(stack)]].d >= d
    THEN PopTo(t, Front(stack), d, Append(out, [p |-> stack[Len(stack) - 1], c |-> stack[Len(stack)]]))
    ELSE [stack |-> stack, out |-> out]
RECURSIVE EdgeWalk(_, _, _, _)
EdgeWalk(t, i, stack, out) ==
    IF i > Len(t) THEN PopTo(t, stack, 1, out).out
    ELSE LET p == PopTo(t, stack, t[i].d, out) IN EdgeWalk(t, i + 1, Append(p.stack, i), p.out)
EdgePairs(t) == EdgeWalk(t, 1, << >>, << >>)
\* the same, declaratively: children ordered by the end of their subtree, the deeper one first
EdgeBefore(t, a, b) == SubEnd(t, a) < SubEnd(t, b) \/ (SubEnd(t, a) = SubEnd(t, b) /\ a > b)
EdgeOrderDef(t, es) ==
    /\ Len(es) = Len(t) - 1
    /\ {es[e].c : e \in 1..Len(es)} = 2..Len(t)
    /\ \A e \in 1..Len(es) : es[e].p = ParentOf(t, es[e].c)
    /\ \A e1 \in 1..Len(es) : \A e2 \in 1..Len(es) : e1 < e2 => EdgeBefore(t, es[e1].c, es[e2].c)

\* an observed graph g = [n, names, ep, ec]: preorder walk from the root, children by edge index
ObsKids(g, v) == SelectSeq([e \in 1..Len(g.ep) |-> e], LAMBDA e : g.ep[e] = v)
RECURSIVE ObsWalk(_, _, _, _)
ObsWalk(g, stack, out, fuel) ==
    IF stack = << >> \/ fuel = 0 THEN out
    ELSE LET top == stack[1]
             ks  == ObsKids(g, top.v)
             push == [i \in 1..Len(ks) |-> [v |-> g.ec[ks[i]], d |-> top.d + 1, e |-> ks[i]]]
         IN  ObsWalk(g, push \o Tail(stack), Append(out, top), fuel - 1)
ObsRoots(g) == {v \in 1..g.n : \A e \in 1..Len(g.ec) : g.ec[e] # v}
ObsShapeOk(g) ==
    /\ g.n >= 1 /\ Len(g.names) = g.n /\ Len(g.ep) = g.n - 1 /\ Len(g.ec) = g.n - 1
    /\ \A e \in 1..Len(g.ep) : g.ep[e] \in 1..g.n /\ g.ec[e] \in 1..g.n
    /\ Cardinality(ObsRoots(g)) = 1
ObsPreorder(g) ==
    LET root == CHOOSE v \in ObsRoots(g) : TRUE
    IN  ObsWalk(g, <<[v |-> root, d |-> 0, e |-> 0]>>, << >>, g.n)

\* ------------------------------------------------------- branch lengths
\* literal -> [neg, mant, e10]: value = mant * 10^e10 (mant cut after nine digits)
RECURSIVE ScanLit(_, _, _)
ScanLit(s, i, a) ==
    IF i > Len(s) THEN a
    ELSE LET c == s[i] IN
         IF c = MINUS /\ a.ph = "int" /\ i = 1 THEN ScanLit(s, i + 1, [a EXCEPT !.neg = TRUE])
         ELSE IF c = DOT THEN ScanLit(s, i + 1, [a EXCEPT !.ph = "frac"])
         ELSE IF IsExpChar(c) THEN ScanLit(s, i + 1, [a EXCEPT !.ph = "exp"])
         ELSE IF a.ph = "exp" THEN
              (IF c = MINUS THEN ScanLit(s, i + 1, [a EXCEPT !.eneg = TRUE])
               ELSE IF c = PLUS THEN ScanLit(s, i + 1, a)
               ELSE ScanLit(s, i + 1, [a EXCEPT !.ex = IF @ > 100000 THEN @ ELSE @ * 10 + (c - 48)]))
         ELSE IF a.mant >= 100000000 THEN
              ScanLit(s, i + 1, IF a.ph = "int" THEN [a EXCEPT !.e10 = @ + 1] ELSE a)
         ELSE ScanLit(s, i + 1, [a EXCEPT !.mant = @ * 10 + (c - 48), !.e10 = IF a.ph = "frac" THEN @ - 1 ELSE @])
LitParts(s) ==
    LET a == ScanLit(s, 1, [ph |-> "int", neg |-> FALSE, mant |-> 0, e10 |-> 0, eneg |-> FALSE, ex |-> 0])
    IN  [neg |-> a.neg, mant |-> a.mant, e10 |-> a.e10 + (IF a.eneg THEN 0 - a.ex ELSE a.ex)]
RECURSIVE NDigits(_)
NDigits(x) == IF x < 10 THEN 1 ELSE 1 + NDigits(x \div 10)
RECURSIVE Pow10(_)
Pow10(k) == IF k <= 0 THEN 1 ELSE 10 * Pow10(k - 1)
Abs(x) == IF x < 0 THEN 0 - x ELSE x
\* round(mant * 10^p) for results below 10^9
Scaled(mant, p) ==
    IF p >= 0 THEN mant * Pow10(p)
    ELSE IF 0 - p > 9 THEN 0
    ELSE (mant + Pow10(0 - p) \div 2) \div Pow10(0 - p)
\* the harness projects an f32 weight to (k, v): 0 NaN | 1 finite, v = round(1000 w) | 2 +inf | 3 -inf | 4 finite, |1000 w| >= 2e9
WeightOk(k, v, lit) ==
    IF lit = << >> THEN k = 0
    ELSE LET a == LitParts(lit)
             order == NDigits(a.mant) + a.e10             \* 10^(order-1) <= |value| < 10^order
         IN  IF a.mant = 0 \/ order <= 0 - 4 THEN k = 1 /\ v = 0
             ELSE IF order >= 40 THEN k = (IF a.neg THEN 3 ELSE 2)                  \* beyond f32::MAX = 3.4e38
             ELSE IF order = 39 THEN k \in {4, IF a.neg THEN 3 ELSE 2}
             ELSE IF order >= 11 THEN k = 4
             ELSE IF order >= 7 THEN k \in {1, 4}                                   \* 10^9 <= |1000 w| < 10^13: not decided here
             ELSE LET want == Scaled(a.mant, a.e10 + 3) IN
                  /\ k = 1
                  /\ Abs(Abs(v) - want) <= 1 + want \div 4000000                    \* f32 has 24 bits
                  /\ (v < 0 => a.neg) /\ (v > 0 => ~a.neg)

\* ------------------------------------------------------------- UTF-8
InR(s, i, lo, hi) == i <= Len(s) /\ s[i] >= lo /\ s[i] <= hi
Cont(s, i) == InR(s, i, 128, 191)
RECURSIVE Utf8From(_, _)
Utf8From(s, i) ==
    IF i > Len(s) THEN TRUE
    ELSE LET b == s[i] IN
         IF b < 128 THEN Utf8From(s, i + 1)
         ELSE IF b \in 194..223 THEN Cont(s, i + 1) /\ Utf8From(s, i + 2)
         ELSE IF b = 224 THEN InR(s, i + 1, 160, 191) /\ Cont(s, i + 2) /\ Utf8From(s, i + 3)
         ELSE IF b \in 225..236 \/ b \in 238..239 THEN Cont(s, i + 1) /\ Cont(s, i + 2) /\ Utf8From(s, i + 3)
         ELSE IF b = 237 THEN InR(s, i + 1, 128, 159) /\ Cont(s, i + 2) /\ Utf8From(s, i + 3)
         ELSE IF b = 240 THEN InR(s, i + 1, 144, 191) /\ Cont(s, i + 2) /\ Cont(s, i + 3) /\ Utf8From(s, i + 4)
         ELSE IF b \in 241..243 THEN Cont(s, i + 1) /\ Cont(s, i + 2) /\ Cont(s, i + 3) /\ Utf8From(s, i + 4)
         ELSE IF b = 244 THEN InR(s, i + 1, 128, 143) /\ Cont(s, i + 2) /\ Cont(s, i + 3) /\ Utf8From(s, i + 4)
         ELSE FALSE
ValidUtf8(s) == Utf8From(s, 1)
=============================================================================
