CONSTANTS
  Chars = {40, 41, 44, 58, 59, 97, 49, 32, 46, 45, 101, 91}
  MaxLen = 4
  GenLen = 4
  EmitOn = TRUE
  TreeN = 1
  TreeNames <- McNames
  TreeLens <- McLens
SPECIFICATION Spec
INVARIANTS TypeOK Emit
CHECK_DEADLOCK FALSE
