------------------------------ MODULE NewickMC ------------------------------
(***************************************************************************)
(* The one-pass parser machine of Newick.tla against the grammar read as a *)
(* set of derivations, for EVERY string over Chars up to MaxLen: a         *)
(* behaviour feeds the machine one character at a time, so the state graph *)
(* is the tree of all live prefixes (a dead machine is not fed any more;   *)
(* that it may rest is invariant DeadRight).                               *)
(*   AcceptSound   at end of input the machine accepts with tree t only if *)
(*                 [text, t] is a derivation                               *)
(*   RejectRight   ... and rejects only texts that have no derivation      *)
(*   DeadRight     a prefix that kills the machine is a prefix of no       *)
(*                 derivable text (up to MaxLen)                           *)
(*   Unambiguous   no text has two trees (on the whole set, in Lemmas)     *)
(*   ReadBack      print(parse(s)) parses to the same tree                 *)
(*   GraphLemma    the post-order edge builder obeys its declarative order *)
(*                 and the preorder walk of the built graph gives the tree *)
(*   PrintParse    (Lemmas) parse(print(t)) = t for every printable tree   *)
(*                 with <= TreeN nodes over TreeNames / TreeLens, and its  *)
(*                 text is a derivation when it is short enough            *)
(* Generation (NewickGen.cfg): every explored text of length <= GenLen is  *)
(* printed as a behaviour for the driver (spec -> impl).                   *)
(***************************************************************************)
EXTENDS Newick, TLC, Json
CONSTANTS Chars, MaxLen, GenLen, EmitOn, TreeN, TreeNames, TreeLens

LangSet == Lang(Chars, MaxLen)
LangStrs == {d.s : d \in LangSet}
LangPrefixes == UNION {{SubSeq(s, 1, k) : k \in 0..Len(s)} : s \in LangStrs}

VARIABLES inp, m
vars == <<inp, m>>

Init == inp = << >> /\ m = M0
Next ==
    /\ Len(inp) < MaxLen /\ m.pc # "dead"
    /\ \E c \in Chars : inp' = Append(inp, c) /\ m' = Step(m, c)
Spec == Init /\ [][Next]_vars

TypeOK ==
    /\ m.pc \in Pcs
    /\ m.pc # "dead" => (\A i \in 1..Len(m.path) : m.path[i] \in 1..Len(m.tree))
    /\ m.pc \notin {"dead", "sub0"} => IsTree(m.tree)
    /\ m.pc = "end" => m.path = << >>
    /\ m = Run(inp)                                            \* the fold used by the trace spec is this machine

Res == Finish(m)
AcceptSound == Res.ok => [s |-> inp, t |-> Res.t] \in LangSet
RejectRight == ~Res.ok => inp \notin LangStrs
DeadRight == m.pc = "dead" => inp \notin LangPrefixes
ReadBack == Res.ok => Printable(Res.t) /\ Parse(Render(Res.t)) = Res

GraphOf(t) ==
    LET es == EdgePairs(t) IN
    [n |-> Len(t), names |-> [i \in 1..Len(t) |-> Label(t[i])],
     ep |-> [e \in 1..Len(es) |-> es[e].p], ec |-> [e \in 1..Len(es) |-> es[e].c]]
GraphLemma ==
    Res.ok =>
        LET t == Res.t  g == GraphOf(t)  w == ObsPreorder(g) IN
        /\ EdgeOrderDef(t, EdgePairs(t))
        /\ ObsShapeOk(g)
        /\ Len(w) = Len(t)
        /\ \A i \in 1..Len(t) : w[i].v = i /\ w[i].d = t[i].d /\ (i > 1 => g.ec[w[i].e] = i)

\* ---------------------------------------------- every small tree, printed and read
RECURSIVE DepthSeqs(_)
DepthSeqs(n) ==
    IF n = 1 THEN {<<0>>}
    ELSE UNION {{Append(ds, d) : d \in 1..(ds[n - 1] + 1)} : ds \in DepthSeqs(n - 1)}
TreesOf(ds) ==
    LET n == Len(ds) IN
    {[i \in 1..n |-> Node(ds[i], nms[i], IF i = 1 THEN << >> ELSE ws[i])] :
        nms \in [1..n -> TreeNames], ws \in [1..n -> TreeLens]}
SmallTrees == UNION {UNION {TreesOf(ds) : ds \in DepthSeqs(n)} : n \in 1..TreeN}
PrintParse ==
    \A t \in SmallTrees :
        LET txt == Render(t) IN
        /\ Printable(t)
        /\ Parse(txt) = [ok |-> TRUE, t |-> t]
        /\ (Len(txt) <= MaxLen /\ (\A i \in 1..Len(txt) : txt[i] \in Chars)) => [s |-> txt, t |-> t] \in LangSet

Unambiguous == Cardinality(LangStrs) = Cardinality(LangSet)
\* facts about constants, evaluated once (in the initial state; TLC has cached the constants by then)
Lemmas ==
    inp = << >> =>
        /\ PrintT(<<"derivations", Cardinality(LangSet), "small trees", Cardinality(SmallTrees)>>)
        /\ Unambiguous
        /\ PrintParse

Emit == (EmitOn /\ Len(inp) <= GenLen) => PrintT(<<"BEH", ToJson([s |-> inp])>>)

\* cfg files cannot hold tuples
NoName == << >>
NameA == <<97>>
NameAA == <<97, 32, 97>>          \* a blank inside
Name1 == <<49>>
NoLen == << >>
Len1 == <<49>>
LenF == <<45, 48, 46, 49, 101, 49>>     \* -0.1e1
McNames == {NoName, NameA, NameAA, Name1}
McLens == {NoLen, Len1, LenF}
ThNames == {NoName, NameAA, Name1}
ThLens == {NoLen, LenF}
=============================================================================
