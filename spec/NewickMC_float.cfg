CONSTANTS
  Chars = {58, 59, 49, 48, 46, 45, 101}
  MaxLen = 5
  GenLen = 0
  EmitOn = FALSE
  TreeN = 1
  TreeNames <- McNames
  TreeLens <- McLens
SPECIFICATION Spec
INVARIANTS Lemmas TypeOK AcceptSound RejectRight DeadRight ReadBack GraphLemma
CHECK_DEADLOCK FALSE
