CONSTANTS
  Chars = {40, 41, 44, 58, 59, 97, 49, 32, 91}
  MaxLen = 8
  GenLen = 0
  EmitOn = FALSE
  TreeN = 4
  TreeNames <- ThNames
  TreeLens <- ThLens
SPECIFICATION Spec
INVARIANTS Lemmas TypeOK AcceptSound RejectRight DeadRight ReadBack GraphLemma
CHECK_DEADLOCK FALSE
