----------------------------- MODULE NewickTrace -----------------------------
(***************************************************************************)
(* Trace validation for family "newick" (X05).  One run = a batch of       *)
(* texts; events                                                           *)
(*   from_string(s) | read(s) | from_file(s, exists)  ->                   *)
(*       ok (1 / 0), err ("" | "parse" | "utf8" | "io" | "open"),          *)
(*       n, names (node labels in node-index order), ep / ec (parent and   *)
(*       child of every edge in edge-index order, 1-based), wk / wv (the   *)
(*       edge weights as projected by the harness, see Newick!WeightOk)    *)
(*                                                                         *)
(* Two verdicts per event:                                                 *)
(*   Explains  the PROPERTY.  The text has a tree (Parse, the machine of   *)
(*             Newick.tla, model-checked against the grammar) iff the      *)
(*             reader returns Ok; then the returned graph IS that tree:    *)
(*             one root, n - 1 edges, and its preorder walk (children of a *)
(*             node in edge-index order) shows the same depths, labels     *)
(*             ("N/A" for unnamed nodes) and branch lengths.  A text       *)
(*             without a tree gives Err(ParsingError), bytes that are not  *)
(*             UTF-8 give Err(InvalidContent), a missing file              *)
(*             Err(OpenFile); a panic or a hang is never explained.        *)
(*   Exact     conformance with the MACHINE layer of the graph builder:    *)
(*             node indices are preorder numbers and the edges were added  *)
(*             in post-order (EdgePairs).  A failure while the property    *)
(*             holds is printed as DRIFT (reported, not an alarm).         *)
(***************************************************************************)
EXTENDS Newick, TLC, Json, IOUtils

Rec == ndJsonDeserialize(IOEnv.TRACE)

VARIABLES run, idx, ok
vars == <<run, idx, ok>>

ObsGraph(r) == [n |-> r.n, names |-> r.names, ep |-> r.ep, ec |-> r.ec]

TreeMatches(r, t) ==
    LET g == ObsGraph(r) IN
    /\ r.n = Len(t)
    /\ ObsShapeOk(g)
    /\ Len(r.wk) = r.n - 1 /\ Len(r.wv) = r.n - 1
    /\ LET w == ObsPreorder(g) IN
       /\ Len(w) = r.n
       /\ {w[i].v : i \in 1..Len(w)} = 1..r.n
       /\ \A i \in 1..r.n :
            /\ w[i].d = t[i].d
            /\ r.names[w[i].v] = Label(t[i])
            /\ (i > 1 => WeightOk(r.wk[w[i].e], r.wv[w[i].e], t[i].w))

TreeExact(r, t) ==
    LET es == EdgePairs(t) IN
    \A e \in 1..Len(es) : r.ep[e] = es[e].p /\ r.ec[e] = es[e].c

\* what the text means: "parse" (no tree), "utf8", "open", or "tree"
Meaning(c) ==
    IF c.op = "from_file" /\ c.a.exists = 0 THEN [k |-> "open", t |-> << >>]
    ELSE IF c.op # "from_string" /\ ~ValidUtf8(c.a.s) THEN [k |-> "utf8", t |-> << >>]
    ELSE LET res == Parse(c.a.s) IN
         IF res.ok THEN [k |-> "tree", t |-> res.t] ELSE [k |-> "parse", t |-> << >>]

Explains(c, r, mg) ==
    /\ c.op \in {"from_string", "read", "from_file"}
    /\ r.st = "ok"
    /\ IF mg.k = "tree" THEN r.ok = 1 /\ TreeMatches(r, mg.t)
       ELSE r.ok = 0 /\ r.err = mg.k

Exact(r, mg) == mg.k = "tree" => TreeExact(r, mg.t)

Init == run \in 1..Len(Rec) /\ idx = 0 /\ ok = TRUE
Next ==
    /\ ok /\ idx < Len(Rec[run].ev)
    /\ LET e == Rec[run].ev[idx + 1]
           mg == Meaning(e.c)
           good == Explains(e.c, e.r, mg)
       IN  /\ ok' = good
           /\ IF good
              THEN (IF Exact(e.r, mg) THEN TRUE ELSE PrintT(<<"DRIFT", run, idx + 1>>))
              ELSE PrintT(<<"REJECT", run, idx + 1>>)
    /\ idx' = idx + 1
    /\ UNCHANGED run
Spec == Init /\ [][Next]_vars
=============================================================================
