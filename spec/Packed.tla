------------------------------- MODULE Packed -------------------------------
(***************************************************************************)
(* C18 -- bit-packed containers of rust-bio (src/data_structures):          *)
(*   BitEnc      (bitenc.rs)    vector of `width`-bit values in 32-bit      *)
(*               blocks, only `usable = B - B % width` bits of a block used *)
(*   SmallInts   (smallints.rs) vector of big ints stored as small ints     *)
(*               with an escape value and an overflow map                   *)
(*   FenwickTree (bit_tree.rs)  prefix sum / prefix max                     *)
(*                                                                         *)
(* Definition layer: a plain sequence `vec` (BitEnc: of width-masked       *)
(* values), resp. the log of updates (Fenwick).                            *)
(* Machine layer: the storage layout and the read-modify-write steps of    *)
(* the code. A block is the set of its 1-bit positions (0..B-1); B is a    *)
(* parameter (32 in the code, scaled down for TLC).                        *)
(***************************************************************************)
EXTENDS Naturals, Integers, Sequences, FiniteSets

Pow2(n) == IF n = 0 THEN 1 ELSE IF n = 1 THEN 2 ELSE IF n = 2 THEN 4 ELSE IF n = 3 THEN 8
           ELSE IF n = 4 THEN 16 ELSE IF n = 5 THEN 32 ELSE IF n = 6 THEN 64 ELSE IF n = 7 THEN 128
           ELSE IF n = 8 THEN 256 ELSE 512
Min2(a, b) == IF a <= b THEN a ELSE b
Max2(a, b) == IF a >= b THEN a ELSE b
CeilDiv(a, b) == (a + b - 1) \div b

\* ------------------------------------------------------------------ BitEnc
Masked(v, w)   == v % Pow2(w)
BitsOf(v)      == {j \in 0..8 : (v \div Pow2(j)) % 2 = 1}          \* value as set of bit positions
ValOf(bits)    == LET RECURSIVE S(_)
                      S(T) == IF T = {} THEN 0 ELSE LET x == CHOOSE y \in T : TRUE IN Pow2(x) + S(T \ {x})
                  IN S(bits)
Usable(B, w)   == B - (B % w)
PerBlock(B, w) == Usable(B, w) \div w
AddrBlock(B, w, i) == (i * w) \div Usable(B, w)                    \* 0-based block
AddrBit(B, w, i)   == (i * w) % Usable(B, w)

\* masked read-modify-write of one field (set_by_addr); blk = set of 1-bits
SetField(blk, bit, w, v) ==
    (blk \ {bit + j : j \in 0..(w - 1)}) \cup {bit + j : j \in BitsOf(Masked(v, w))}
GetField(blk, bit, w) == ValOf({j \in 0..(w - 1) : (bit + j) \in blk})

\* storage: sequence of blocks (1-based index block+1)
Decode(storage, len, B, w) ==
    [i \in 1..len |-> GetField(storage[AddrBlock(B, w, i - 1) + 1], AddrBit(B, w, i - 1), w)]

BEPush(storage, len, B, w, v) ==
    LET blk == AddrBlock(B, w, len)  bit == AddrBit(B, w, len)
        st1 == IF bit = 0 THEN Append(storage, {}) ELSE storage
    IN  [st1 EXCEPT ![blk + 1] = SetField(st1[blk + 1], bit, w, v)]

\* phase 1 of push_values: fill free slots of the current block, at most n values.
\* LIMIT is the exclusive upper bit bound of the fill loop (the code's range end).
RECURSIVE BEFill(_, _, _, _, _, _, _, _)
BEFill(storage, blk, bit, n, w, v, LIMIT, cnt) ==      \* returns <<storage, cnt>>
    IF n = 0 \/ bit >= LIMIT THEN <<storage, cnt>>
    ELSE BEFill([storage EXCEPT ![blk + 1] = SetField(storage[blk + 1], bit, w, v)],
                blk, bit + w, n - 1, w, v, LIMIT, cnt + 1)

ValueBlock(B, w, v) == UNION {{c * w + j : j \in BitsOf(Masked(v, w))} : c \in 0..((B \div w) - 1)}
ShiftRight(blk, k)  == {x - k : x \in {y \in blk : y >= k}}

RECURSIVE Resize(_, _, _)
Resize(storage, n, fill) == IF Len(storage) >= n THEN storage ELSE Resize(Append(storage, fill), n, fill)

\* push_values(n, v): returns <<storage, len>>
BEPushValues(storage, len, B, w, n, v) ==
    LET blk0  == AddrBlock(B, w, len)
        bit0  == AddrBit(B, w, len)
        f     == IF bit0 > 0 THEN BEFill(storage, blk0, bit0, n, w, v, Usable(B, w), 0)
                 ELSE <<storage, 0>>
        st1   == f[1]
        len1  == len + f[2]
        n1    == n - f[2]
    IN  IF n1 = 0 THEN <<st1, len1>>
        ELSE LET i   == len1 + n1
                 blk == AddrBlock(B, w, i)
                 bit == AddrBit(B, w, i)
                 vb  == ValueBlock(B, w, v)
                 st2 == Resize(st1, blk, vb)
                 st3 == IF bit > 0 THEN Append(st2, ShiftRight(vb, Usable(B, w) - bit)) ELSE st2
             IN  <<st3, i>>

BESet(storage, B, w, i, v) ==
    [storage EXCEPT ![AddrBlock(B, w, i) + 1] =
        SetField(storage[AddrBlock(B, w, i) + 1], AddrBit(B, w, i), w, v)]

\* what the abstract vector does
VecPushValues(vec, n, mv) == vec \o [x \in 1..n |-> mv]
BlocksFor(len, B, w)      == CeilDiv(len, PerBlock(B, w))

\* --------------------------------------------------------------- SmallInts
\* SMAX = S::max_value(), SMIN = S::min_value(); values outside SMIN..SMAX-1 go to the map.
SIFits(v, SMIN, SMAX) == v >= SMIN /\ v < SMAX
SIPush(small, big, v, SMIN, SMAX) ==
    IF SIFits(v, SMIN, SMAX) THEN <<Append(small, v), big>>
    ELSE <<Append(small, SMAX), [x \in (DOMAIN big) \cup {Len(small)} |->
                                   IF x = Len(small) THEN v ELSE big[x]]>>
SISet(small, big, i, v, SMIN, SMAX) ==       \* i 0-based
    IF SIFits(v, SMIN, SMAX) THEN <<[small EXCEPT ![i + 1] = v], big>>
    ELSE <<[small EXCEPT ![i + 1] = SMAX], [x \in (DOMAIN big) \cup {i} |-> IF x = i THEN v ELSE big[x]]>>
SIReal(small, big, i, SMAX) ==               \* i 0-based
    IF small[i + 1] < SMAX THEN small[i + 1] ELSE big[i]
SIDecode(small, big, SMAX) == [i \in 1..Len(small) |-> SIReal(small, big, i - 1, SMAX)]

\* ----------------------------------------------------------------- Fenwick
LowBit(x) == LET RECURSIVE L(_, _)
                 L(y, b) == IF y % 2 = 1 THEN b ELSE L(y \div 2, b * 2)
             IN L(x, 1)
\* op = "sum" | "max"; tree is 1-based of length n+1 in the code (slot 0 unused): here tree[idx], idx in 1..n
FOp(op, a, b) == IF op = "sum" THEN a + b ELSE Max2(a, b)
RECURSIVE FGet(_, _, _, _)
FGet(tree, op, idx, acc) == IF idx = 0 THEN acc ELSE FGet(tree, op, idx - LowBit(idx), FOp(op, acc, tree[idx]))
RECURSIVE FSet(_, _, _, _)
FSet(tree, op, idx, val) == IF idx > Len(tree) THEN tree
                            ELSE FSet([tree EXCEPT ![idx] = FOp(op, tree[idx], val)], op, idx + LowBit(idx), val)
\* definition: fold of the update log over positions <= i
RECURSIVE FDef(_, _, _)
FDef(updates, op, i) ==      \* updates: sequence of <<pos, val>>, pos 0-based
    IF updates = << >> THEN 0
    ELSE LET u == Head(updates) rest == FDef(Tail(updates), op, i)
         IN  IF u[1] <= i THEN FOp(op, u[2], rest) ELSE rest
=============================================================================
