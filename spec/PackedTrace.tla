----------------------------- MODULE PackedTrace -----------------------------
(* Trace validation for families bitenc, smallints, fenwick (C18).          *)
(* The state of a run is the ABSTRACT object of the definition layer (the   *)
(* plain vector, resp. the update log); every observation of the real      *)
(* object must be the observation of that abstract object.                  *)
(*   bitenc   cfg=[w]            ops new, push[v], push_values[n,v],        *)
(*                               set[i,v], clear, obs -> [len,blocks,gets,  *)
(*                               iter]  (gets = get(0..len+1), None = -1)   *)
(*   smallints cfg=[smin,smax]   ops new | from_elem[v,n], push[v],         *)
(*                               set[i,v], obs -> [len,gets,iter,dec]       *)
(*   fenwick  cfg=[op,n]         ops new, set[i,v], get[i] -> v             *)
EXTENDS Packed, TLC, Json, IOUtils

Rec == ndJsonDeserialize(IOEnv.TRACE)
RealB == 32

VARIABLES run, idx, ok, st
vars == <<run, idx, ok, st>>

InitState(fam) == << >>        \* empty vector / empty update log

\* every k-th element, starting with the first (Iterator::step_by)
StepSeq(s, k) == [i \in 1..((Len(s) + k - 1) \div k) |-> s[k * (i - 1) + 1]]

\* ---- bitenc
BEExplains(cfg, s, c, r) ==
    CASE c.op = "new"  -> r.st = "ok"
      [] c.op \in {"push", "push_values", "clear", "copy"} -> r.st = "ok"   \* copy: clone / clone_from / serde
      [] c.op = "set"  -> r.st = "ok" /\ c.a.i < Len(s)
      [] c.op = "obs"  ->
           /\ r.st = "ok"
           /\ r.len = Len(s)
           /\ r.blocks = BlocksFor(Len(s), RealB, cfg.w)
           /\ r.iter = s
           /\ r.gets = s \o <<-1, -1>>
           /\ r.huge_nones = 6                    \* six reads at indices up to usize::MAX: all None
           /\ r.nth_nones = 71 /\ r.nth_in = s    \* iter().nth(n): Some(vec[n]) for n < len, None for n in len..len+70
           /\ r.pages = s /\ r.npages = (Len(s) + 4) \div 5     \* iter().skip(5p).take(5), p = 0, 1, ...
           /\ r.step3 = StepSeq(s, 3)
           /\ r.last = (IF s = << >> THEN -1 ELSE s[Len(s)]) /\ r.count = Len(s)
           /\ r.oldlen = Len(s) /\ r.is_empty = (IF s = << >> THEN 1 ELSE 0)    \* deprecated len(), is_empty()
      [] OTHER -> FALSE
BEAfter(cfg, s, c) ==
    CASE c.op = "push"        -> Append(s, Masked(c.a.v, cfg.w))
      [] c.op = "push_values" -> VecPushValues(s, c.a.n, Masked(c.a.v, cfg.w))
      [] c.op = "set"         -> [s EXCEPT ![c.a.i + 1] = Masked(c.a.v, cfg.w)]
      [] c.op = "clear"       -> << >>
      [] OTHER                -> s

\* ---- smallints
SIExplains(cfg, s, c, r) ==
    CASE c.op = "new" -> r.st = "ok"
      [] c.op = "from_elem" ->
           \* wide type pairs log values as canonical decimal strings (beyond TLC's integers): equality only
           IF (IF "wide" \in DOMAIN cfg THEN c.a.v = cfg.smax ELSE c.a.v > 0 /\ c.a.v >= cfg.smax)
           THEN r.st = "panic"                                        \* documented refusal
           ELSE r.st = "ok"
      [] c.op \in {"push", "copy"} -> r.st = "ok"
      [] c.op = "set"  -> r.st = "ok" /\ c.a.i < Len(s)
      [] c.op = "obs"  ->
           /\ r.st = "ok"
           /\ r.len = Len(s)
           /\ r.iter = s /\ r.dec = s
           /\ r.gets = s /\ r.nones = 0          \* get(i) is Some(vec[i]) for every i < len
           /\ r.beyond_none = 1                  \* get(len) is None
           /\ r.nth_nones = 9 /\ r.step3 = StepSeq(s, 3)     \* the iterator through nth / step_by
           /\ r.is_empty = (IF s = << >> THEN 1 ELSE 0)
      [] OTHER -> FALSE
SIAfter(cfg, s, c, r) ==
    CASE c.op = "from_elem" -> IF r.st = "ok" THEN [x \in 1..c.a.n |-> c.a.v] ELSE s
      [] c.op = "push"      -> Append(s, c.a.v)
      [] c.op = "set"       -> [s EXCEPT ![c.a.i + 1] = c.a.v]
      [] OTHER              -> s

\* ---- fenwick
FWExplains(cfg, s, c, r) ==
    CASE c.op = "new" -> r.st = "ok"
      [] c.op = "set" -> r.st = "ok" /\ c.a.i < cfg.n
      [] c.op = "get" -> r.st = "ok" /\ c.a.i < cfg.n /\ r.v = FDef(s, cfg.op, c.a.i)
      [] OTHER -> FALSE
FWAfter(cfg, s, c) == IF c.op = "set" THEN Append(s, <<c.a.i, c.a.v>>) ELSE s

\* ---- fenwickbig: trees of more than 2^32 slots; a position is <<i \div 2^20, i % 2^20>>, compared
\* lexicographically (the definition is FDef with that order: a prefix sum over the update log)
PLe(a, b) == a[1] < b[1] \/ (a[1] = b[1] /\ a[2] <= b[2])
PLt(a, b) == a[1] < b[1] \/ (a[1] = b[1] /\ a[2] < b[2])
IsPos(p) == Len(p) = 2 /\ p[1] >= 0 /\ p[2] >= 0 /\ p[2] < 1048576
RECURSIVE FDefBig(_, _, _)
FDefBig(updates, op, i) ==
    IF updates = << >> THEN 0
    ELSE LET u == Head(updates) rest == FDefBig(Tail(updates), op, i)
         IN  IF PLe(u[1], i) THEN FOp(op, u[2], rest) ELSE rest
FWBExplains(cfg, s, c, r) ==
    CASE c.op = "new" -> r.st = "ok"
      [] c.op = "set" -> r.st = "ok" /\ IsPos(c.a.i) /\ PLt(c.a.i, cfg.n)
      [] c.op = "get" -> r.st = "ok" /\ IsPos(c.a.i) /\ PLt(c.a.i, cfg.n) /\ r.v = FDefBig(s, cfg.op, c.a.i)
      [] OTHER -> FALSE

\* ---- bitencbig: vectors of 10^5 .. 10^7 elements, kept run-length encoded: s = sequence of <<count, value>>
RLen(s) == LET RECURSIVE F(_)
               F(k) == IF k > Len(s) THEN 0 ELSE s[k][1] + F(k + 1)
           IN F(1)
RECURSIVE RGetFrom(_, _, _)
RGetFrom(s, k, i) == IF k > Len(s) THEN -1                      \* beyond the end: None
                     ELSE IF i < s[k][1] THEN s[k][2] ELSE RGetFrom(s, k + 1, i - s[k][1])
RGet(s, i) == RGetFrom(s, 1, i)
RECURSIVE RSetFrom(_, _, _, _)
RSetFrom(s, k, i, v) ==          \* split run k around position i
    IF k > Len(s) THEN s
    ELSE IF i < s[k][1]
         THEN SubSeq(s, 1, k - 1)
              \o (IF i > 0 THEN << <<i, s[k][2]>> >> ELSE << >>)
              \o << <<1, v>> >>
              \o (IF s[k][1] - i - 1 > 0 THEN << <<s[k][1] - i - 1, s[k][2]>> >> ELSE << >>)
              \o SubSeq(s, k + 1, Len(s))
         ELSE RSetFrom(s, k + 1, i - s[k][1], v)
BBExplains(cfg, s, c, r) ==
    CASE c.op = "new" -> r.st = "ok"
      [] c.op \in {"push", "push_values", "clear"} -> r.st = "ok"
      [] c.op = "set" -> r.st = "ok" /\ c.a.i < RLen(s)
      [] c.op = "probe" ->                      \* nr_symbols, nr_blocks and get() at chosen indices
           /\ r.st = "ok"
           /\ r.len = RLen(s)
           /\ r.blocks = BlocksFor(RLen(s), RealB, cfg.w)
           /\ Len(r.gets) = Len(c.a.idx)
           /\ \A k \in 1..Len(c.a.idx) : r.gets[k] = RGet(s, c.a.idx[k])
      [] OTHER -> FALSE
BBAfter(cfg, s, c) ==
    CASE c.op = "push"        -> Append(s, <<1, Masked(c.a.v, cfg.w)>>)
      [] c.op = "push_values" -> IF c.a.n = 0 THEN s ELSE Append(s, <<c.a.n, Masked(c.a.v, cfg.w)>>)
      [] c.op = "set"         -> RSetFrom(s, 1, c.a.i, Masked(c.a.v, cfg.w))
      [] c.op = "clear"       -> << >>
      [] OTHER                -> s

Explains(fam, cfg, s, e) ==
    CASE fam = "bitenc"    -> BEExplains(cfg, s, e.c, e.r)
      [] fam = "bitencbig" -> BBExplains(cfg, s, e.c, e.r)
      [] fam = "smallints" -> SIExplains(cfg, s, e.c, e.r)
      [] fam = "fenwick"   -> FWExplains(cfg, s, e.c, e.r)
      [] fam = "fenwickbig" -> FWBExplains(cfg, s, e.c, e.r)
      [] OTHER -> FALSE
After(fam, cfg, s, e) ==
    CASE fam = "bitenc"    -> BEAfter(cfg, s, e.c)
      [] fam = "bitencbig" -> BBAfter(cfg, s, e.c)
      [] fam = "smallints" -> SIAfter(cfg, s, e.c, e.r)
      [] fam = "fenwick"   -> FWAfter(cfg, s, e.c)
      [] fam = "fenwickbig" -> FWAfter(cfg, s, e.c)
      [] OTHER -> s

Init == run \in 1..Len(Rec) /\ idx = 0 /\ ok = TRUE /\ st = << >>
Next ==
    /\ ok /\ idx < Len(Rec[run].ev)
    /\ LET R == Rec[run]
           e == R.ev[idx + 1]
           good == Explains(R.fam, R.cfg, st, e)
       IN  /\ ok' = good
           /\ st' = IF good THEN After(R.fam, R.cfg, st, e) ELSE st
           /\ IF good THEN TRUE ELSE PrintT(<<"REJECT", run, idx + 1>>)
    /\ idx' = idx + 1
    /\ UNCHANGED run
Spec == Init /\ [][Next]_vars
=============================================================================
