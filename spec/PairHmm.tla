------------------------------ MODULE PairHmm ------------------------------
(***************************************************************************)
(* X01 -- pair hidden Markov models of rust-bio                            *)
(* (src/stats/pairhmm/pairhmm.rs: PairHMM::prob_related, and the           *)
(* homopolymer variant of homopolypairhmm.rs with all hop probabilities    *)
(* zero, which is the same model).                                         *)
(*                                                                         *)
(* Numbers.  One call is a record                                          *)
(*   [den, gx, gy, gxe, gye,          gap parameters   (GapParameters)     *)
(*    lx, ly, exy, ex, ey, mt,        emission tables  (EmissionParameters)*)
(*    fs, fe, sp,                     start / end mode (StartEndGapParameters)*)
(*    band]                           max_edit_dist: -1 None, -2 usize::MAX, k *)
(* of integer numerators over the common denominator `den`.                *)
(*                                                                         *)
(* The model (read from the code and the trait documentation):             *)
(*  * states M (emits x[i],y[j]; moves (i,j)->(i+1,j+1)), X (emits x[i]    *)
(*    against a gap in y; (i,j)->(i+1,j)), Y (emits y[j] against a gap in  *)
(*    x; (i,j)->(i,j+1));                                                  *)
(*  * transitions  M->M 1-gx-gy   M->Y gx   M->X gy                        *)
(*                 Y->Y gxe  Y->M 1-gxe     X->X gye  X->M 1-gye           *)
(*    (gx = "probability to open a gap in x", ...), no X<->Y;              *)
(*  * an alignment path starts in a virtual M state at a cell (i0,0) with  *)
(*    weight [i0 = 0] + prob_start_gap_x(i0)  (the unit mass at the origin *)
(*    is always there; the start probabilities come on top), its FIRST     *)
(*    step is a match step (row 0 and column 0 hold no gap states), and it *)
(*    ends in any state at (lx, ly), or at any (i, ly) with free_end_gap_x;*)
(*  * weight of a path = start weight * product of (transition * emission) *)
(*    over its steps; prob_related = min(1, sum over all paths);           *)
(*  * lx = 0: the empty path counts iff ly = 0 and no free end gap;        *)
(*  * max_edit_dist = Some(k): a cell (i,j), i,j >= 1, is computed iff the *)
(*    smallest of the edit-distance registers of its three neighbours is   *)
(*    <= k (Med below); the banded result is the sum over the paths that   *)
(*    visit computed cells only.                                           *)
(* A path of k steps is an integer over den^(2k+1); everything is brought  *)
(* to Scale = den^(2(lx+ly)+1).  Sums saturate at CAP = 2^29 >= Scale      *)
(* (the result is min(Scale, sum) anyway), so TLC's 32-bit integers never  *)
(* overflow as long as Scale <= 2^29 (the drivers guarantee that).         *)
(*                                                                         *)
(* Definition layer: Exact(c) -- eager depth-first enumeration of all      *)
(* paths; ExactSet(c) -- the same literally over the set of move           *)
(* sequences (MC only).  Machine layer: the two-column DP of the code with *)
(* its registers fm/fx/fy/min_edit_dist, column swap and reset, prob_cols. *)
(***************************************************************************)
EXTENDS Integers, Sequences, FiniteSets, FiniteSetsExt, TLC

RECURSIVE Pow(_, _)
Pow(x, e) == IF e <= 0 THEN 1 ELSE x * Pow(x, e - 1)
Min2(x, y) == IF x <= y THEN x ELSE y
Min3(x, y, z) == Min2(x, Min2(y, z))

CAP == 536870912                     \* 2^29
Sat(x) == IF x > CAP THEN CAP ELSE x
SatAdd(a, b) == Sat(a + b)           \* a <= CAP, b <= 2^30

N(c)     == c.lx + c.ly
Scale(c) == Pow(c.den, 2 * N(c) + 1)

NoGap(c) == c.den - c.gx - c.gy
Trans(c, s, t) ==
    CASE s = "M" /\ t = "M" -> NoGap(c)
      [] s = "M" /\ t = "X" -> c.gy
      [] s = "M" /\ t = "Y" -> c.gx
      [] s = "X" /\ t = "X" -> c.gye
      [] s = "X" /\ t = "M" -> c.den - c.gye
      [] s = "Y" /\ t = "Y" -> c.gxe
      [] s = "Y" /\ t = "M" -> c.den - c.gxe
      [] OTHER -> 0
\* emission of a step of kind t that leaves cell (i, j)  (0-based as in the code)
Emit(c, t, i, j) == CASE t = "M" -> c.exy[i + 1][j + 1] [] t = "X" -> c.ex[i + 1] [] OTHER -> c.ey[j + 1]
Di(t) == IF t = "Y" THEN 0 ELSE 1
Dj(t) == IF t = "X" THEN 0 ELSE 1
StartW(c, i0) == (IF i0 = 0 THEN c.den ELSE 0) + c.sp[i0 + 1]
EmptyPath(c)  == IF c.lx = 0 /\ c.ly = 0 /\ c.fe = 0 THEN Scale(c) ELSE 0

\* ------------------------------------------------------------------ band
INF == 1000000                       \* usize::MAX
Add1(x) == IF x >= INF THEN INF ELSE x + 1
Banded(c) == c.band # -1
BandK(c)  == IF c.band = -2 THEN INF ELSE c.band

\* the edit-distance registers, column by column; MedTab(c)[i+1][j+1] = register of cell (i,j)
MedCol0(c) == [jj \in 1..(c.ly + 1) |-> IF jj = 1 THEN 0 ELSE INF]
RECURSIVE MedColFrom(_, _, _, _, _)
MedColFrom(c, prevcol, i, j, acc) ==           \* acc = entries 0..j of column i+1 ; produces entry j+1
    IF j = c.ly THEN acc
    ELSE LET tl   == prevcol[j + 1]
             top  == acc[j + 1]
             left == prevcol[j + 2]
             v    == IF Min3(tl, top, left) > BandK(c) THEN INF
                     ELSE Min3(IF c.mt[i + 1][j + 1] = 1 THEN tl ELSE Add1(tl), Add1(left), Add1(top))
         IN  MedColFrom(c, prevcol, i, j + 1, Append(acc, v))
RECURSIVE MedTabFrom(_, _, _)
MedTabFrom(c, i, tab) ==                       \* tab = columns 0..i
    IF i = c.lx THEN tab
    ELSE LET pc0 == tab[i + 1]
             \* free start: the register of cell (i,0) is 0 for every column that is read
             pcol == IF c.fs = 1 THEN [pc0 EXCEPT ![1] = 0] ELSE pc0
         IN  MedTabFrom(c, i + 1, Append([tab EXCEPT ![i + 1] = pcol], MedColFrom(c, pcol, i, 0, <<INF>>)))
MedTab(c) == MedTabFrom(c, 0, <<MedCol0(c)>>)

\* ActTab(c)[i][j] : is cell (i,j), 1 <= i <= lx, 1 <= j <= ly, computed?
ActTab(c) ==
    IF ~Banded(c) THEN [i \in 1..c.lx |-> [j \in 1..c.ly |-> TRUE]]
    ELSE LET md == MedTab(c)
         IN  TLCEval([i \in 1..c.lx |-> [j \in 1..c.ly |->
                 Min3(md[i][j], md[i + 1][j], md[i][j + 1]) <= BandK(c)]])
AllAct(c) == [i \in 1..c.lx |-> [j \in 1..c.ly |-> TRUE]]

\* ------------------------------------------------------------ definition
\* eager depth-first enumeration: (i, j, s, acc, k) = a path prefix of k steps that ends in state s
\* at cell (i,j) and whose weight is acc / den^(2k+1)
RECURSIVE SumFrom(_, _, _, _, _, _, _)
SumFrom(c, act, i, j, s, acc, k) ==
    IF acc = 0 THEN 0
    ELSE
    LET endv == IF k >= 1 /\ j = c.ly /\ (i = c.lx \/ c.fe = 1)
                THEN Sat(acc * Pow(c.den, 2 * (N(c) - k))) ELSE 0
        viaM == IF i < c.lx /\ j < c.ly /\ act[i + 1][j + 1]
                THEN SumFrom(c, act, i + 1, j + 1, "M", acc * Trans(c, s, "M") * Emit(c, "M", i, j), k + 1) ELSE 0
        viaX == IF k >= 1 /\ i < c.lx /\ act[i + 1][j]
                THEN SumFrom(c, act, i + 1, j, "X", acc * Trans(c, s, "X") * Emit(c, "X", i, j), k + 1) ELSE 0
        viaY == IF k >= 1 /\ j < c.ly /\ act[i][j + 1]
                THEN SumFrom(c, act, i, j + 1, "Y", acc * Trans(c, s, "Y") * Emit(c, "Y", i, j), k + 1) ELSE 0
    IN  SatAdd(SatAdd(SatAdd(endv, viaM), viaX), viaY)

RECURSIVE SumStarts(_, _, _, _)
SumStarts(c, act, i0, acc) ==
    IF i0 >= c.lx THEN acc
    ELSE SumStarts(c, act, i0 + 1, SatAdd(acc, SumFrom(c, act, i0, 0, "M", StartW(c, i0), 0)))

PathSum(c, act) == SatAdd(SumStarts(c, act, 0, 0), EmptyPath(c))
\* what prob_related must return (as a numerator over Scale)
Exact(c)     == Min2(Scale(c), PathSum(c, ActTab(c)))
\* the unbanded value on the same tables
ExactFull(c) == Min2(Scale(c), PathSum(c, AllAct(c)))

\* ---- the same, literally over the set of all lattice paths (MC only; no saturation needed there)
\* all move sequences that consume di symbols of x and dj symbols of y
RECURSIVE LatticePaths(_, _)
LatticePaths(di, dj) ==
    IF di = 0 /\ dj = 0 THEN {<< >>}
    ELSE (IF di > 0 /\ dj > 0 THEN {Append(p, "M") : p \in LatticePaths(di - 1, dj - 1)} ELSE {})
         \cup (IF di > 0 THEN {Append(p, "X") : p \in LatticePaths(di - 1, dj)} ELSE {})
         \cup (IF dj > 0 THEN {Append(p, "Y") : p \in LatticePaths(di, dj - 1)} ELSE {})
\* follow a fixed move sequence from (i,j): weight over den^(2k+1) of the path, 0 if it uses a gap as
\* first step or enters a cell that is not computed
RECURSIVE Follow(_, _, _, _, _, _, _, _)
Follow(c, act, ms, k, i, j, s, acc) ==         \* k steps done
    IF k = Len(ms) THEN acc
    ELSE LET t == ms[k + 1]  ni == i + Di(t)  nj == j + Dj(t) IN
         IF (k = 0 /\ t # "M") \/ ~act[ni][nj] THEN 0
         ELSE Follow(c, act, ms, k + 1, ni, nj, t, acc * Trans(c, s, t) * Emit(c, t, i, j))
\* weight of the path that starts at (i0, 0) and follows ms, over den^(2 Len(ms) + 1)
PathW(c, act, i0, ms) == Follow(c, act, ms, 0, i0, 0, "M", StartW(c, i0))
\* all (start, end, moves) of complete alignment paths with at least one step
EndRows(c) == IF c.fe = 1 THEN 1..c.lx ELSE {c.lx} \ {0}
AllPaths(c) == UNION {{<<i0, ms>> : ms \in LatticePaths(i1 - i0, c.ly) \ {<< >>}} :
                        i0 \in 0..(c.lx - 1), i1 \in EndRows(c)}
PathSumSet(c, act) ==
    MapThenSumSet(LAMBDA p : PathW(c, act, p[1], p[2]) * Pow(c.den, 2 * (N(c) - Len(p[2]))), AllPaths(c))
    + EmptyPath(c)
ExactSet(c) == Min2(Scale(c), PathSumSet(c, ActTab(c)))

\* meaning of the DP registers: sum of the prefixes ending in state s at cell (i,j), i,j >= 1, over
\* den^(2(i+j)+1)
PrefixSum(c, act, i, j, s) ==
    MapThenSumSet(LAMBDA p : PathW(c, act, p[1], p[2]) * Pow(c.den, 2 * (i + j - Len(p[2]))),
                  UNION {{<<i0, ms>> : ms \in {q \in LatticePaths(i - i0, j) : q[Len(q)] = s}} :
                           i0 \in 0..(i - 1)})

\* tolerance of the log-space sums (as C14/C15): 0.5 % of the exact value + quantisation
Tol(x) == (x \div 200) + 1
Near(x, exact) == x >= exact - Tol(exact) /\ x <= exact + Tol(exact)

\* --------------------------------------------------------------- machine
\* Registers: fm, fx, fy, med are pairs of columns (sequences over j = 0..ly, index j+1); column `p`
\* is `prev` (cell row i), the other one `curr` (row i+1).  Values of row i are over den^(2(i+j)+1).
Other(p) == 3 - p
ZeroCol(c) == [jj \in 1..(c.ly + 1) |-> 0]
InfCol(c)  == [jj \in 1..(c.ly + 1) |-> INF]

MInit(c) ==
    [fm  |-> <<[ZeroCol(c) EXCEPT ![1] = c.den], ZeroCol(c)>>,      \* fm[prev][0] = ln_one
     fx  |-> <<ZeroCol(c), ZeroCol(c)>>,
     fy  |-> <<ZeroCol(c), ZeroCol(c)>>,
     med |-> <<[InfCol(c) EXCEPT ![1] = 0], InfCol(c)>>,            \* origin: edit distance 0
     p   |-> 1,
     cols |-> << >>]

\* start of column i: start probability, free start gap
MColStart(c, m, i) ==
    [m EXCEPT !.fm[m.p][1] = @ + c.sp[i + 1] * Pow(c.den, 2 * i),
              !.med[m.p][1] = IF c.fs = 1 THEN 0 ELSE @]

MNeigh(m, j) == Min3(m.med[m.p][j + 1], m.med[Other(m.p)][j + 1], m.med[m.p][j + 2])
MSkips(c, m, j) == Banded(c) /\ MNeigh(m, j) > BandK(c)

\* cell (i+1, j+1) from (i,j), (i,j+1), (i+1,j)
MCell(c, m, i, j) ==
    LET p == m.p  q == Other(m.p)
        vm == c.exy[i + 1][j + 1] * c.den * c.den *
              (NoGap(c) * m.fm[p][j + 1] + (c.den - c.gye) * m.fx[p][j + 1] + (c.den - c.gxe) * m.fy[p][j + 1])
        vx == c.ex[i + 1] * (c.gy * m.fm[p][j + 2] + c.gye * m.fx[p][j + 2])
        vy == c.ey[j + 1] * (c.gx * m.fm[q][j + 1] + c.gxe * m.fy[q][j + 1])
        tl == m.med[p][j + 1]  top == m.med[q][j + 1]  left == m.med[p][j + 2]
        vd == Min3(IF c.mt[i + 1][j + 1] = 1 THEN tl ELSE Add1(tl), Add1(left), Add1(top))
    IN  [m EXCEPT !.fm[q][j + 2] = vm, !.fx[q][j + 2] = vx, !.fy[q][j + 2] = vy,
                  !.med[q][j + 2] = IF Banded(c) THEN vd ELSE @]

\* end of column i: record the last row (free end gap), swap, reset the new `curr`.
\* `resetall` = FALSE reproduces a variant that clears fm only (stale fx / fy / med survive in skipped
\* cells): PairHmmMC_stale.cfg shows that TLC finds the resulting over-count.
MColEnd(c, m, i, resetall) ==
    LET q == Other(m.p)
        sc == Pow(c.den, 2 * (c.lx - i - 1))
        cl == IF c.fe = 1
              THEN m.cols \o <<m.fm[q][c.ly + 1] * sc, m.fx[q][c.ly + 1] * sc, m.fy[q][c.ly + 1] * sc>>
              ELSE m.cols
    IN  [fm  |-> [m.fm EXCEPT ![m.p] = ZeroCol(c)],
         fx  |-> IF resetall THEN [m.fx EXCEPT ![m.p] = ZeroCol(c)] ELSE m.fx,
         fy  |-> IF resetall THEN [m.fy EXCEPT ![m.p] = ZeroCol(c)] ELSE m.fy,
         med |-> IF resetall THEN [m.med EXCEPT ![m.p] = InfCol(c)] ELSE m.med,
         p   |-> q,
         cols |-> cl]

RECURSIVE SumSeq(_, _, _)
SumSeq(sq, k, acc) == IF k > Len(sq) THEN acc ELSE SumSeq(sq, k + 1, acc + sq[k])
MFinal(c, m) ==
    LET s == IF c.fe = 1 THEN SumSeq(m.cols, 1, 0)
             ELSE m.fm[m.p][c.ly + 1] + m.fx[m.p][c.ly + 1] + m.fy[m.p][c.ly + 1]
    IN  Min2(Scale(c), s)

\* the machine run to completion (trace validation re-checks machine = definition on small inputs)
RECURSIVE MRunCells(_, _, _, _), MRunCols(_, _, _)
MRunCells(c, m, i, j) ==
    IF j = c.ly THEN m
    ELSE MRunCells(c, IF MSkips(c, m, j) THEN m ELSE MCell(c, m, i, j), i, j + 1)
MRunCols(c, m, i) ==
    IF i = c.lx THEN m
    ELSE MRunCols(c, MColEnd(c, MRunCells(c, MColStart(c, m, i), i, 0), i, TRUE), i + 1)
Machine(c) == MFinal(c, MRunCols(c, MInit(c), 0))
=============================================================================
