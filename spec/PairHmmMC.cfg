CONSTANTS
  Den = 2
  MaxLx = 2
  MaxLy = 2
  Gaps <- AllGaps
  EV <- EV12
  XV <- XV1
  MTs = "one"
  Bands <- NoBand
  Starts = "tab"
  ResetAll = TRUE
SPECIFICATION Spec
INVARIANTS TypeOK DefinitionsAgree CellMeaning MedMeaning Result NoStall
PROPERTIES Progress RowFrozen
CHECK_DEADLOCK FALSE
