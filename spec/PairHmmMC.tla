----------------------------- MODULE PairHmmMC -----------------------------
(***************************************************************************)
(* Exhaustive check of the two-column DP machine of PairHMM::prob_related  *)
(* (shaped like src/stats/pairhmm/pairhmm.rs) against the sum over all     *)
(* alignment paths, for ALL calls of a family of small models: every gap   *)
(* parameter combination over Den, all sequence lengths up to MaxLx/MaxLy, *)
(* emission tables from EV/XV, all four start/end modes, default and       *)
(* tabulated start probabilities, and (band family) every match/mismatch   *)
(* matrix with every max_edit_dist in Bands.                               *)
(*                                                                         *)
(* One behaviour = one call:                                               *)
(*   ( ColStart ( Cell | CellSkip )^ly ColEnd )^lx  Finish                 *)
(***************************************************************************)
EXTENDS PairHmm
CONSTANTS Den, MaxLx, MaxLy,
          Gaps,        \* set of <<gx, gy, gxe, gye>>
          EV,          \* values of the pair emissions exy[i][j]
          XV,          \* values of the single emissions (ex, ey constant per sequence)
          MTs,         \* "one": all cells are matches; "all": every 0/1 matrix
          Bands,       \* set of band values (-1 = None)
          Starts,      \* "def": default prob_start_gap_x; "tab": additionally a start table
          ResetAll     \* TRUE = the code (all registers of the new column cleared)

AllGaps == {g \in (0..Den) \X (0..Den) \X (0..Den) \X (0..Den) : g[1] + g[2] <= Den}
\* reduced gap family for the band runs: symmetric, asymmetric, no extension, certain extension
BandGaps == {<<1, 0, 1, 0>>, <<0, 1, 0, 1>>, <<1, 1, 1, 2>>, <<1, 1, 0, 0>>} \cap AllGaps
FewGaps  == {g \in AllGaps : g[3] # g[4] \/ g[3] = 1}
\* quick tier: open probabilities 0 / 1/2 each, extensions none / asymmetric both ways / equal
QuickGaps == {g \in AllGaps : g[1] <= 1 /\ g[2] <= 1 /\ <<g[3], g[4]>> \in {<<0, 0>>, <<1, 2>>, <<2, 1>>, <<1, 1>>}}

NoBand   == {-1}
SomeBands == {0, 1, 2, -2}
NarrowBands == {0, 1}
EV12 == {1, 2}
EV2  == {2}
XV12 == {1, 2}
XV1  == {1}

Dims == (0..MaxLx) \X (0..MaxLy)
MtSet(lx, ly) == IF MTs = "one" THEN {[i \in 1..lx |-> [j \in 1..ly |-> 1]]}
                 ELSE [1..lx -> [1..ly -> {0, 1}]]
SpSet(lx, fs) == LET d == [i \in 1..lx |-> IF fs = 1 THEN Den ELSE 0]
                 IN  IF Starts = "def" \/ lx = 0 THEN {d}
                     ELSE {d, [i \in 1..lx |-> IF i = 1 THEN 0 ELSE 1]}

Calls ==
    UNION {
      {[den |-> Den, gx |-> g[1], gy |-> g[2], gxe |-> g[3], gye |-> g[4],
        lx |-> d[1], ly |-> d[2], exy |-> e, ex |-> [i \in 1..d[1] |-> vx], ey |-> [j \in 1..d[2] |-> vy],
        mt |-> t, fs |-> m[1], fe |-> m[2], sp |-> s, band |-> b] :
          e \in [1..d[1] -> [1..d[2] -> EV]], vx \in XV, vy \in XV, t \in MtSet(d[1], d[2]),
          s \in SpSet(d[1], m[1]), b \in Bands}
      : g \in Gaps, d \in Dims, m \in {0, 1} \X {0, 1}}

VARIABLES c, pc, i, j, m, res
vars == <<c, pc, i, j, m, res>>

Init ==
    /\ c \in Calls
    /\ pc = "col" /\ i = 0 /\ j = 0
    /\ m = MInit(c)
    /\ res = -1

ColStart ==
    /\ pc = "col" /\ i < c.lx
    /\ m' = MColStart(c, m, i)
    /\ pc' = "cell" /\ j' = 0
    /\ UNCHANGED <<c, i, res>>
CellSkip ==                               \* `continue`: nothing is written
    /\ pc = "cell" /\ j < c.ly /\ MSkips(c, m, j)
    /\ j' = j + 1
    /\ UNCHANGED <<c, pc, i, m, res>>
Cell ==
    /\ pc = "cell" /\ j < c.ly /\ ~MSkips(c, m, j)
    /\ m' = MCell(c, m, i, j)
    /\ j' = j + 1
    /\ UNCHANGED <<c, pc, i, res>>
ColEnd ==
    /\ pc = "cell" /\ j = c.ly
    /\ m' = MColEnd(c, m, i, ResetAll)
    /\ i' = i + 1 /\ pc' = "col" /\ j' = 0
    /\ UNCHANGED <<c, res>>
Finish ==
    /\ pc = "col" /\ i = c.lx
    /\ res' = MFinal(c, m)
    /\ pc' = "done"
    /\ UNCHANGED <<c, i, j, m>>

Next == ColStart \/ CellSkip \/ Cell \/ ColEnd \/ Finish
Spec == Init /\ [][Next]_vars

\* ------------------------------------------------------------ invariants
TypeOK ==
    /\ pc \in {"col", "cell", "done"}
    /\ i \in 0..c.lx /\ j \in 0..c.ly
    /\ m.p \in {1, 2}
    /\ Len(m.cols) = IF c.fe = 1 THEN 3 * i ELSE 0

\* the two formulations of the definition layer agree; a band never adds anything; a band that
\* covers every cell gives the unbanded value (checked once per call; in the final state, because TLC
\* evaluates invariants of initial states sequentially)
DefinitionsAgree ==
    pc = "done" =>
        /\ Exact(c) = ExactSet(c)
        /\ Exact(c) <= ExactFull(c)
        /\ (c.band = -2 \/ c.band >= N(c)) => Exact(c) = ExactFull(c)

\* meaning of the registers.  While column i+1 is being filled (pc = "cell"): `prev` holds row i
\* completely, `curr` holds row i+1 up to entry j; skipped cells hold zeros.
Act == ActTab(c)
RowVal(r, jj, s) ==                         \* expected register of state s at cell (r, jj)
    IF jj = 0 THEN 0
    ELSE IF r = 0 THEN 0
    ELSE IF ~Act[r][jj] THEN 0
    ELSE PrefixSum(c, Act, r, jj, s)
CellMeaning ==
    pc = "cell" =>
        LET p == m.p  q == Other(m.p) IN
        \* the cell just written (or skipped) ...
        /\ \A jj \in {j} \ {0} :
              /\ m.fm[q][jj + 1] = RowVal(i + 1, jj, "M")
              /\ m.fx[q][jj + 1] = RowVal(i + 1, jj, "X")
              /\ m.fy[q][jj + 1] = RowVal(i + 1, jj, "Y")
        \* ... entry 0 of row i+1 is empty
        /\ m.fm[q][1] = 0 /\ m.fx[q][1] = 0 /\ m.fy[q][1] = 0
        \* row i (checked when the column is entered; it is not written afterwards: RowFrozen):
        \* start mass at entry 0, the prefix sums elsewhere
        /\ j = 0 =>
              /\ m.fm[p][1] = StartW(c, i) * Pow(c.den, 2 * i)
              /\ \A jj \in 1..c.ly :
                    /\ m.fm[p][jj + 1] = RowVal(i, jj, "M")
                    /\ m.fx[p][jj + 1] = RowVal(i, jj, "X")
                    /\ m.fy[p][jj + 1] = RowVal(i, jj, "Y")
\* within a column only the registers of `curr` change
RowFrozen == [][(pc = "cell" /\ pc' = "cell") =>
                  /\ m'.p = m.p
                  /\ m'.fm[m.p] = m.fm[m.p] /\ m'.fx[m.p] = m.fx[m.p] /\ m'.fy[m.p] = m.fy[m.p]
                  /\ m'.med[m.p] = m.med[m.p]]_vars
\* the band registers follow their definition
MedMeaning ==
    (pc = "cell" /\ Banded(c)) =>
        LET md == MedTab(c) IN
        /\ \A jj \in 0..c.ly : m.med[m.p][jj + 1] = md[i + 1][jj + 1]
        /\ \A jj \in 1..j : m.med[Other(m.p)][jj + 1] = md[i + 2][jj + 1]

Result == pc = "done" => /\ res = ExactSet(c)
                         /\ res = Machine(c)
                         /\ res <= ExactFull(c)

\* soundness alone (used by PairHmmMC_stale.cfg: with ResetAll = FALSE this is violated, i.e. TLC finds
\* the over-count caused by stale fx / fy / min_edit_dist registers in skipped cells)
Sound == pc = "done" => res <= ExactFull(c)

\* progress: a strictly increasing bounded rank, no stall before "done"
Rank == i * (MaxLy + 3) + (IF pc = "cell" THEN j + 1 ELSE 0) + (IF pc = "done" THEN 1 ELSE 0)
Progress == [][Rank' > Rank]_vars
NoStall  == pc # "done" => ENABLED Next
=============================================================================
