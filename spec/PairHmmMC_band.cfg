CONSTANTS
  Den = 2
  MaxLx = 3
  MaxLy = 2
  Gaps <- BandGaps
  EV <- EV2
  XV <- XV1
  MTs = "all"
  Bands <- SomeBands
  Starts = "def"
  ResetAll = TRUE
SPECIFICATION Spec
INVARIANTS TypeOK DefinitionsAgree CellMeaning MedMeaning Result NoStall
PROPERTIES Progress RowFrozen
CHECK_DEADLOCK FALSE
