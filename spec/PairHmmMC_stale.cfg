CONSTANTS
  Den = 2
  MaxLx = 3
  MaxLy = 2
  Gaps <- BandGaps
  EV <- EV2
  XV <- XV1
  MTs = "all"
  Bands <- SomeBands
  Starts = "def"
  ResetAll = FALSE
SPECIFICATION Spec
INVARIANTS TypeOK Sound
PROPERTIES Progress RowFrozen
CHECK_DEADLOCK FALSE
