--------------------------- MODULE PairHmmTrace ---------------------------
(* Trace validation for family "pairhmm" (X01).                              *)
(* run.cfg = [kind, den, gx, gy, gxe, gye]: one PairHMM / HomopolyPairHMM    *)
(* object (kind "plain" / "homopoly"; the latter with all hop probabilities *)
(* zero, which is the same model).                                           *)
(* events (all on the same object):                                          *)
(*   new          -> ok                                                      *)
(*   prob_related(lx, ly, bx, by, exy, mt, ex, ey, fs, fe, spdef, sp, band)  *)
(*                -> p = round(exp(lp) * den^(2(lx+ly)+1)), scale, flags     *)
(* Acceptance: the reported probability is within 0.5 % (+1 unit) of         *)
(* min(1, sum over all alignment paths [inside the band]) -- PairHmm!Exact --*)
(* never above 1, exactly zero (ln_zero) iff no path has positive weight;    *)
(* NaN, +inf, panic, dangling call: never explained.                         *)
EXTENDS PairHmm, Json, IOUtils

Rec == ndJsonDeserialize(IOEnv.TRACE)

VARIABLES run, idx, ok
vars == <<run, idx, ok>>

\* HomopolyPairHMM reads the gap parameters with the roles of x and y exchanged (its state GapX, which
\* emits y[j] against a gap in x, is entered with prob_gap_y and extended with prob_gap_y_extend); the
\* unit tests of that module are written for this reading, so it is part of that model here.
CallOf(cfg, a) ==
    [den |-> cfg.den,
     gx  |-> IF cfg.kind = "homopoly" THEN cfg.gy ELSE cfg.gx,
     gy  |-> IF cfg.kind = "homopoly" THEN cfg.gx ELSE cfg.gy,
     gxe |-> IF cfg.kind = "homopoly" THEN cfg.gye ELSE cfg.gxe,
     gye |-> IF cfg.kind = "homopoly" THEN cfg.gxe ELSE cfg.gye,
     lx |-> a.lx, ly |-> a.ly, exy |-> a.exy, ex |-> a.ex, ey |-> a.ey, mt |-> a.mt,
     fs |-> a.fs, fe |-> a.fe, sp |-> a.sp, band |-> a.band]

Flags0(r) == r.nan = 0 /\ r.posinf = 0

Explains(cfg, e) ==
    LET r == e.r IN
    CASE e.c.op = "new" -> r.st = "ok"
      [] e.c.op = "prob_related" ->
           /\ r.st = "ok"
           /\ Flags0(r)
           /\ LET c == CallOf(cfg, e.c.a)
                  exact == Exact(c)
              IN  /\ r.scale = Scale(c)
                  /\ Near(r.p, exact)
                  /\ r.p <= Scale(c)
                  /\ r.neginf = 1 => (exact = 0 /\ r.p = 0)
                  \* 1 - gx - gy is computed with an approximate exp: an exact zero there may come out
                  \* as a tiny positive number; everywhere else zero is exact
                  /\ (exact = 0 /\ NoGap(c) > 0) => r.neginf = 1
      [] OTHER -> FALSE

\* machine layer on the traced inputs (small ones: the machine's registers are not saturated):
\* must agree with the definition layer, otherwise the specification itself is inconsistent
\* (TLC error, exit 2 -- never a VIOLATION)
MachineAgrees(cfg, e) ==
    IF e.c.op # "prob_related" THEN TRUE
    ELSE LET c == CallOf(cfg, e.c.a)
         IN  IF Scale(c) > 20000 THEN TRUE
             ELSE Assert(Machine(c) = Exact(c), "pair HMM machine # path sum")

Init == run \in 1..Len(Rec) /\ idx = 0 /\ ok = TRUE
Next ==
    /\ ok /\ idx < Len(Rec[run].ev)
    /\ LET good == Explains(Rec[run].cfg, Rec[run].ev[idx + 1])
       IN  /\ ok' = good
           /\ MachineAgrees(Rec[run].cfg, Rec[run].ev[idx + 1])
           /\ IF good THEN TRUE ELSE PrintT(<<"REJECT", run, idx + 1>>)
    /\ idx' = idx + 1
    /\ UNCHANGED run
Spec == Init /\ [][Next]_vars
=============================================================================
