--------------------------------- MODULE Poa ---------------------------------
(***************************************************************************)
(* C16 -- partial-order alignment (src/alignment/poa.rs)                    *)
(*                                                                         *)
(* Definition layer                                                         *)
(*   NW(x, y, S, g)     Needleman-Wunsch optimum with substitution table S  *)
(*                      (indexed by symbol, symbols are 1..sigma) and       *)
(*                      per-base gap penalty g (eager row DP)               *)
(*   ValidOnChain(ops)  the operation list is an alignment of the query to  *)
(*                      the chain graph 0 -> 1 -> ... -> m-1                *)
(*   graph predicates   acyclic, label prefix, edge-weight monotonicity,    *)
(*                      "string is spelled by a path"                       *)
(* Machine layer (PoaMC): the row-by-row DP over the chain with traceback   *)
(* cells, and the add_alignment graph-growth machine.                       *)
(*                                                                         *)
(* Operation encoding <<kind, a, b>> (what the hook reports):               *)
(*   0 Match   (a,b) = (pred node, node) or (-1,-1) for Match(None)         *)
(*   1 Del     (a,b) = (pred node, row)  or (-1,-1)                         *)
(*   2 Ins     a = node or -1                                               *)
(*   3 Xclip(a)   4 Yclip(a,b)                                              *)
(***************************************************************************)
EXTENDS Naturals, Integers, Sequences, FiniteSets

Max2(a, b) == IF a >= b THEN a ELSE b
Max3(a, b, c) == Max2(a, Max2(b, c))

\* ---------------------------------------------------------------- NW (eager)
RECURSIVE NWRowFill(_, _, _, _, _, _, _)
\* build row i from prev row; row so far `cur` (has j entries for columns 0..j-1)
NWRowFill(prev, cur, xi, y, S, g, j) ==
    IF j > Len(y) THEN cur
    ELSE LET v == Max3(prev[j] + S[xi][y[j]], prev[j + 1] + g, cur[j] + g)   \* columns are 1-based: col j = index j+1
         IN  NWRowFill(prev, Append(cur, v), xi, y, S, g, j + 1)

RECURSIVE NWRows(_, _, _, _, _, _)
NWRows(prev, x, y, S, g, i) ==
    IF i > Len(x) THEN prev
    ELSE NWRows(NWRowFill(prev, << i * g >>, x[i], y, S, g, 1), x, y, S, g, i + 1)

NWLastRow(x, y, S, g) == NWRows([j \in 1..(Len(y) + 1) |-> (j - 1) * g], x, y, S, g, 1)
NW(x, y, S, g) == NWLastRow(x, y, S, g)[Len(y) + 1]

\* brute force: best score over all alignments (for the MC cross-check of the oracle)
RECURSIVE NWBrute(_, _, _, _, _, _)
NWBrute(x, y, S, g, i, j) ==      \* best alignment of x[i..] with y[j..]
    IF i > Len(x) THEN (Len(y) + 1 - j) * g
    ELSE IF j > Len(y) THEN (Len(x) + 1 - i) * g
    ELSE Max3(S[x[i]][y[j]] + NWBrute(x, y, S, g, i + 1, j + 1),
              g + NWBrute(x, y, S, g, i + 1, j),
              g + NWBrute(x, y, S, g, i, j + 1))

\* ------------------------------------------------- path validity on a chain
\* walk the operations; (i, j) = number of reference nodes / query symbols consumed so far.
\* Returns <<valid, i, j, score>>.
RECURSIVE WalkOps(_, _, _, _, _, _, _, _)
WalkOps(ops, k, x, y, S, g, st, acc) ==
    IF k > Len(ops) THEN <<TRUE, st[1], st[2], acc>>
    ELSE LET op == ops[k]  i == st[1]  j == st[2] IN
         IF Len(op) # 3 THEN <<FALSE, i, j, acc>>
         ELSE IF op[1] = 0 THEN           \* Match: consumes node i (0-based) and query symbol j+1
                IF i < Len(x) /\ j < Len(y)
                   /\ (IF op[2] = -1 THEN i = 0 ELSE (op[3] = i /\ op[2] = i - 1))   \* lands on the right node
                THEN WalkOps(ops, k + 1, x, y, S, g, <<i + 1, j + 1>>, acc + S[x[i + 1]][y[j + 1]])
                ELSE <<FALSE, i, j, acc>>
         ELSE IF op[1] = 1 THEN           \* Del: consumes node i
                IF i < Len(x) THEN WalkOps(ops, k + 1, x, y, S, g, <<i + 1, j>>, acc + g)
                ELSE <<FALSE, i, j, acc>>
         ELSE IF op[1] = 2 THEN           \* Ins: consumes query symbol j+1
                IF j < Len(y) THEN WalkOps(ops, k + 1, x, y, S, g, <<i, j + 1>>, acc + g)
                ELSE <<FALSE, i, j, acc>>
         ELSE <<FALSE, i, j, acc>>        \* clips cannot occur in a global alignment

\* ops is a global alignment of y to the chain x; its recomputed score
ChainWalk(ops, x, y, S, g) == WalkOps(ops, 1, x, y, S, g, <<0, 0>>, 0)
ValidOnChain(ops, x, y, S, g) ==
    LET w == ChainWalk(ops, x, y, S, g) IN w[1] /\ w[2] = Len(x) /\ w[3] = Len(y)
Rescore(ops, x, y, S, g) == ChainWalk(ops, x, y, S, g)[4]

\* ------------------------------------------------------------------- graphs
\* labels: sequence (node v = index v+1); edges: sequence of <<u, v, w>> (parallel edges allowed)
EdgeSet(edges) == {<<edges[i][1], edges[i][2]>> : i \in 1..Len(edges)}
RECURSIVE SumW(_, _, _, _)
SumW(edges, u, v, k) == IF k > Len(edges) THEN 0
                        ELSE (IF edges[k][1] = u /\ edges[k][2] = v THEN edges[k][3] ELSE 0) + SumW(edges, u, v, k + 1)
Weight(edges, u, v) == SumW(edges, u, v, 1)

WellFormedGraph(labels, edges) ==
    \A i \in 1..Len(edges) : /\ Len(edges[i]) = 3
                             /\ edges[i][1] \in 0..(Len(labels) - 1)
                             /\ edges[i][2] \in 0..(Len(labels) - 1)
                             /\ edges[i][3] >= 1

\* Kahn: repeatedly remove nodes without incoming edges from the remaining set
RECURSIVE Peel(_, _)
Peel(nodes, E) ==
    LET src == {v \in nodes : ~\E e \in E : e[2] = v /\ e[1] \in nodes}
    IN  IF nodes = {} THEN TRUE
        ELSE IF src = {} THEN FALSE
        ELSE Peel(nodes \ src, E)
Acyclic(labels, edges) == Peel(0..(Len(labels) - 1), EdgeSet(edges))

IsChain(labels, edges) ==
    EdgeSet(edges) = {<<i, i + 1>> : i \in 0..(Len(labels) - 2)}

\* string c (sequence of labels) is spelled by a path of the graph
RECURSIVE SpellFrom(_, _, _, _, _)
SpellFrom(labels, E, c, k, cur) ==
    IF cur = {} THEN FALSE
    ELSE IF k > Len(c) THEN TRUE
    ELSE SpellFrom(labels, E, c, k + 1,
                   {v \in 0..(Len(labels) - 1) : labels[v + 1] = c[k] /\ \E u \in cur : <<u, v>> \in E})
SpelledByPath(labels, edges, c) ==
    /\ c # << >>
    /\ SpellFrom(labels, EdgeSet(edges), c, 2, {v \in 0..(Len(labels) - 1) : labels[v + 1] = c[1]})

IsPrefixOf(a, b) == Len(a) <= Len(b) /\ \A i \in 1..Len(a) : a[i] = b[i]

\* the growth clauses of the property, from graph (l0,e0) to (l1,e1) after adding a query of length n
Grows(l0, e0, l1, e1, n) ==
    /\ WellFormedGraph(l1, e1)
    /\ IsPrefixOf(l0, l1)                                           \* no node label removed or changed
    /\ \A uv \in EdgeSet(e0) : Weight(e1, uv[1], uv[2]) >= Weight(e0, uv[1], uv[2])   \* no edge removed / decreased
    /\ Len(l1) <= Len(l0) + n                                       \* at most |query| new nodes
    /\ Acyclic(l1, e1)
=============================================================================
