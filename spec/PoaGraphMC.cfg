CONSTANTS
  Sym = {1, 2}
  MaxRef = 2
  MaxQ = 2
  MaxAdds = 2
SPECIFICATION Spec
INVARIANTS GrowsInv DagInv
CHECK_DEADLOCK FALSE
