----------------------------- MODULE PoaGraphMC -----------------------------
(* Graph-growth machine of poa::Poa::add_alignment (C16, second half).      *)
(* State: the partial-order graph (labels, weighted edge list). One action  *)
(* AddAlignment(q, ops): `ops` ranges over EVERY structurally possible      *)
(* global alignment of query q to the current graph (a source-to-somewhere  *)
(* path whose nodes are matched or skipped, insertions anywhere) -- a       *)
(* superset of what the DP can return -- and the graph is updated by a      *)
(* transcription of add_alignment (head node, edge_not_connected flag,      *)
(* find_edge / increment / add_edge). Deletions and clips do not touch the  *)
(* graph and are omitted. Invariants = the growth clauses of the property.  *)
EXTENDS Poa, TLC
CONSTANTS Sym, MaxRef, MaxQ, MaxAdds

VARIABLES labels, edges, adds, lastq, prevlabels, prevedges
vars == <<labels, edges, adds, lastq, prevlabels, prevedges>>

Strings(lo, hi) == UNION {[1..n -> Sym] : n \in lo..hi}
NodeSet == 0..(Len(labels) - 1)
E == EdgeSet(edges)
Preds(v) == {u \in NodeSet : <<u, v>> \in E}
Sources == {v \in NodeSet : Preds(v) = {}}
\* head = first node of a topological order: petgraph's Topo starts with the source of smallest index
HeadNode == CHOOSE v \in Sources : \A u \in Sources : v <= u

\* operations relevant to add_alignment: <<"mn">> Match(None), <<"m", p>> Match(Some(_, p)),
\* <<"in">> Ins(None), <<"i">> Ins(Some(_)).
\* All op sequences for query length n: choose a path; walk it.
RECURSIVE Alns(_, _, _)
\* cur = last node visited on the path (-1 = none yet), j = query symbols consumed, n = |q|
Alns(cur, j, n) ==
    LET stop == IF j = n THEN {<< >>} ELSE {}
        ins  == IF j < n
                THEN {<< IF cur = -1 THEN <<"in">> ELSE <<"i">> >> \o r : r \in Alns(cur, j + 1, n)}
                ELSE {}
        nexts == IF cur = -1 THEN Sources ELSE {v \in NodeSet : <<cur, v>> \in E}
        mat  == IF j < n
                THEN UNION {{<< IF cur = -1 THEN <<"mn", v>> ELSE <<"m", v>> >> \o r : r \in Alns(v, j + 1, n)}
                            : v \in nexts}
                ELSE {}
        del  == UNION {Alns(v, j, n) : v \in nexts}             \* skip node v (a deletion): no operation kept
    IN  stop \cup ins \cup mat \cup del

\* ---- add_alignment, transcribed. st = [labels, edges, prev, i, enc (edge_not_connected)]
FindEdge(es, u, v) == IF \E k \in 1..Len(es) : es[k][1] = u /\ es[k][2] = v
                      THEN CHOOSE k \in 1..Len(es) : es[k][1] = u /\ es[k][2] = v /\
                                  \A k2 \in 1..Len(es) : (es[k2][1] = u /\ es[k2][2] = v) => k <= k2
                      ELSE 0
AddNode(st, c) == [st EXCEPT !.labels = Append(@, c)]
AddEdge(st, u, v) == [st EXCEPT !.edges = Append(@, <<u, v, 1>>)]

Step(st, op, q, head) ==
    LET c == q[st.i + 1] IN
    CASE op[1] = "mn" ->
           \* Match(None): the code always means `head`, whatever source the DP used
           LET s1 == IF c # st.labels[head + 1]
                     THEN LET a  == AddNode(st, c)
                              nn == Len(st.labels)
                              b  == IF st.enc THEN AddEdge(a, st.prev, nn) ELSE a
                          IN  [b EXCEPT !.enc = FALSE, !.prev = nn]
                     ELSE st
               s2 == IF s1.enc THEN [AddEdge(s1, s1.prev, head) EXCEPT !.prev = head, !.enc = FALSE] ELSE s1
           IN  [s2 EXCEPT !.i = @ + 1]
      [] op[1] = "m" ->
           LET p == op[2] IN
           IF c # st.labels[p + 1]
           THEN LET a == AddNode(st, c)  nn == Len(st.labels)
                IN  [AddEdge(a, st.prev, nn) EXCEPT !.prev = nn, !.i = @ + 1]
           ELSE LET k == FindEdge(st.edges, st.prev, p)
                    s1 == IF k # 0 THEN [st EXCEPT !.edges[k][3] = @ + 1]
                          ELSE IF st.prev # head /\ st.prev # p THEN AddEdge(st, st.prev, p) ELSE st
                IN  [s1 EXCEPT !.prev = p, !.i = @ + 1]
      [] op[1] = "in" ->
           LET a == AddNode(st, c)  nn == Len(st.labels)
               b == IF st.enc THEN AddEdge(a, st.prev, nn) ELSE a
           IN  [b EXCEPT !.prev = nn, !.enc = TRUE, !.i = @ + 1]
      [] OTHER ->   \* "i": Ins(Some(_))
           LET a == AddNode(st, c)  nn == Len(st.labels)
           IN  [AddEdge(a, st.prev, nn) EXCEPT !.prev = nn, !.i = @ + 1]

RECURSIVE Apply(_, _, _, _, _)
Apply(st, ops, k, q, head) == IF k > Len(ops) THEN st ELSE Apply(Step(st, ops[k], q, head), ops, k + 1, q, head)

Init == /\ \E r \in Strings(1, MaxRef) :
              labels = r /\ edges = [i \in 1..(Len(r) - 1) |-> <<i - 1, i, 1>>]
        /\ adds = 0 /\ lastq = << >> /\ prevlabels = << >> /\ prevedges = << >>

AddAlignment ==
    /\ adds < MaxAdds
    /\ \E q \in Strings(1, MaxQ) : \E ops \in Alns(-1, 0, Len(q)) :
         LET r == Apply([labels |-> labels, edges |-> edges, prev |-> HeadNode, i |-> 0, enc |-> FALSE],
                        ops, 1, q, HeadNode)
         IN  labels' = r.labels /\ edges' = r.edges /\ lastq' = q
    /\ prevlabels' = labels /\ prevedges' = edges
    /\ adds' = adds + 1
Next == AddAlignment
Spec == Init /\ [][Next]_vars

\* the growth clauses of the property, after every addition
GrowsInv == adds > 0 => Grows(prevlabels, prevedges, labels, edges, Len(lastq))
DagInv == Acyclic(labels, edges) /\ WellFormedGraph(labels, edges)
=============================================================================
