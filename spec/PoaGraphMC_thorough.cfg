CONSTANTS
  Sym = {1, 2}
  MaxRef = 3
  MaxQ = 2
  MaxAdds = 3
SPECIFICATION Spec
INVARIANTS GrowsInv DagInv
CHECK_DEADLOCK FALSE
