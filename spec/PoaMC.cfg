CONSTANTS
  Sym = {1, 2}
  MaxLen = 4
  Scorings <- MC_Scorings
SPECIFICATION Spec
INVARIANTS Optimal OracleOK RowMeaning
CHECK_DEADLOCK FALSE
