-------------------------------- MODULE PoaMC --------------------------------
(* Row-by-row DP machine of poa::Poa::custom on a chain graph (global mode: *)
(* all clip penalties MIN_SCORE), with the code's traceback cells and       *)
(* tie-breaks (Ord::max returns its second argument on equal scores), and   *)
(* Traceback::alignment. For all references/queries over Sym up to MaxLen   *)
(* and all scoring schemes in Scorings: the traced-back operations are a    *)
(* valid alignment on the chain, rescore to the reported score, and the     *)
(* score is the Needleman-Wunsch optimum (brute force over all alignments); *)
(* the eager NW oracle used for trace validation agrees with the brute      *)
(* force as well.                                                           *)
EXTENDS Poa, TLC
CONSTANTS Sym, MaxLen, Scorings     \* Scorings: set of <<match, mismatch, gap>>

MIN_SCORE == -858993459
MC_Scorings == {<<1, -1, -1>>, <<1, -1, 0>>, <<2, -3, -2>>, <<0, -1, -4>>, <<1, 1, -1>>}
VARIABLES x, y, sc, i, rows, done
vars == <<x, y, sc, i, rows, done>>

Strings(lo, hi) == UNION {[1..n -> Sym] : n \in lo..hi}
STab(s) == [a \in Sym |-> [b \in Sym |-> IF a = b THEN s[1] ELSE s[2]]]
G == sc[3]
MaxCell(a, b) == IF b.score >= a.score THEN b ELSE a          \* std::cmp::max on TracebackCell

Row0 == [c \in 1..(Len(y) + 1) |->
           IF c = 1 THEN [score |-> 0, op |-> <<0, -1, -1>>]
           ELSE MaxCell([score |-> (c - 1) * G, op |-> <<2, -1, -1>>],
                        [score |-> MIN_SCORE, op |-> <<4, 0, c - 1>>])]

Init == /\ x \in Strings(1, MaxLen) /\ y \in Strings(1, MaxLen) /\ sc \in Scorings
        /\ i = 0 /\ rows = << Row0 >> /\ done = FALSE

RECURSIVE FillRow(_, _, _)
FillRow(r, cur, j) ==      \* r = row number (node r-1), cur has cells for columns 0..j-1
    IF j > Len(y) THEN cur
    ELSE LET S     == STab(sc)
             prev  == rows[r]                 \* row r-1 (rows is 1-based: rows[r] = row r-1)
             base  == IF r = 1
                      THEN [score |-> rows[1][j].score + S[x[r]][y[j]], op |-> <<0, -1, -1>>]
                      ELSE LET m0 == MaxCell([score |-> MIN_SCORE, op |-> <<0, -1, -1>>],
                                             [score |-> MIN_SCORE, op |-> <<3, 0, -1>>])
                               mm == MaxCell([score |-> prev[j].score + S[x[r]][y[j]], op |-> <<0, r - 2, r - 1>>],
                                             [score |-> prev[j + 1].score + G, op |-> <<1, r - 2, r>>])
                           IN  MaxCell(m0, mm)
             cell  == MaxCell(base, [score |-> cur[j].score + G, op |-> <<2, r - 1, -1>>])
         IN  FillRow(r, Append(cur, cell), j + 1)

RowStep ==
    /\ ~done /\ i < Len(x)
    /\ LET r == i + 1
           c0 == MaxCell([score |-> r * G, op |-> <<1, -1, -1>>], [score |-> MIN_SCORE, op |-> <<3, 0, -1>>])
       IN  rows' = Append(rows, FillRow(r, << c0 >>, 1))
    /\ i' = i + 1
    /\ UNCHANGED <<x, y, sc, done>>
Finish == ~done /\ i = Len(x) /\ done' = TRUE /\ UNCHANGED <<x, y, sc, i, rows>>
Next == RowStep \/ Finish
Spec == Init /\ [][Next]_vars

\* Traceback::alignment
RECURSIVE Trace(_, _, _, _)
Trace(r, c, acc, fuel) ==      \* r row, c column (0-based); acc collected in reverse order
    IF (r = 0 /\ c = 0) \/ fuel = 0 THEN acc
    ELSE LET op == rows[r + 1][c + 1].op IN
         CASE op[1] = 0 /\ op[2] # -1 -> Trace(op[2] + 1, c - 1, << op >> \o acc, fuel - 1)
           [] op[1] = 0 /\ op[2] = -1 -> Trace(0, c - 1, << op >> \o acc, fuel - 1)
           [] op[1] = 1 /\ op[2] # -1 -> Trace(op[2] + 1, c, << op >> \o acc, fuel - 1)
           [] op[1] = 1 /\ op[2] = -1 -> Trace(r - 1, c, << op >> \o acc, fuel - 1)
           [] op[1] = 2 /\ op[2] # -1 -> Trace(op[2] + 1, c - 1, << op >> \o acc, fuel - 1)
           [] op[1] = 2 /\ op[2] = -1 -> Trace(r, c - 1, << op >> \o acc, fuel - 1)
           [] op[1] = 3 -> Trace(op[2], c, << op >> \o acc, fuel - 1)
           [] OTHER     -> Trace(r, op[2], << op >> \o acc, fuel - 1)
Ops == Trace(Len(x), Len(y), << >>, 4 * MaxLen + 4)
Score == rows[Len(x) + 1][Len(y) + 1].score

Optimal == done => /\ Score = NWBrute(x, y, STab(sc), G, 1, 1)
                   /\ ValidOnChain(Ops, x, y, STab(sc), G)
                   /\ Rescore(Ops, x, y, STab(sc), G) = Score
OracleOK == done => NW(x, y, STab(sc), G) = NWBrute(x, y, STab(sc), G, 1, 1)
\* every finished row already holds the optimum of its prefix (inductive meaning of a row)
RowMeaning == \A r \in 1..i : \A c \in 0..Len(y) :
                 rows[r + 1][c + 1].score = NW(SubSeq(x, 1, r), SubSeq(y, 1, c), STab(sc), G)
=============================================================================
