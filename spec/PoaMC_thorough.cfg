CONSTANTS
  Sym = {1, 2}
  MaxLen = 5
  Scorings <- MC_Scorings
SPECIFICATION Spec
INVARIANTS Optimal OracleOK RowMeaning
CHECK_DEADLOCK FALSE
