------------------------------ MODULE PoaTrace ------------------------------
(* Trace validation for family "poa" (C16).                                 *)
(* cfg = [ref, S (sigma x sigma score table over symbol indices), gap]      *)
(* state = [labels, edges, allsame, q]  (graph as last observed / as it     *)
(*          must be; allsame = every query added so far equals ref)         *)
(* events                                                                   *)
(*   new            -> [labels, edges]  must be the chain of ref, weights 1 *)
(*   global[q]      -> [score, ops]     on a chain graph: exact NW score,   *)
(*                                      valid operations, rescoring          *)
(*   banded[q,bw]   -> [score]          bw >= both lengths on a chain: NW   *)
(*   add            -> [labels, edges]  growth clauses w.r.t. the previous  *)
(*                                      graph; identical sequence => nodes  *)
(*                                      unchanged                            *)
(*   consensus      -> [v]              non-empty, spelled by a path; equal *)
(*                                      to ref while only ref was added      *)
EXTENDS Poa, TLC, Json, IOUtils

Rec == ndJsonDeserialize(IOEnv.TRACE)

VARIABLES run, idx, ok, st
vars == <<run, idx, ok, st>>

InitState == [labels |-> << >>, edges |-> << >>, allsame |-> TRUE, q |-> << >>, aligned |-> FALSE]

ChainEdges(n) == [i \in 1..(n - 1) |-> <<i - 1, i, 1>>]

Explains(cfg, s, c, r) ==
    CASE c.op = "new" ->
           /\ r.st = "ok"
           /\ r.labels = cfg.ref
           /\ r.edges = ChainEdges(Len(cfg.ref))
      [] c.op = "global" ->
           /\ r.st = "ok"
           /\ (IsChain(s.labels, s.edges) =>
                 /\ r.score = NW(s.labels, c.a.q, cfg.S, cfg.gap)
                 /\ ValidOnChain(r.ops, s.labels, c.a.q, cfg.S, cfg.gap)
                 /\ Rescore(r.ops, s.labels, c.a.q, cfg.S, cfg.gap) = r.score)
      [] c.op = "banded" ->
           /\ r.st = "ok"
           /\ ((IsChain(s.labels, s.edges) /\ c.a.bw >= Len(s.labels) /\ c.a.bw >= Len(c.a.q)) =>
                 r.score = NW(s.labels, c.a.q, cfg.S, cfg.gap))
      [] c.op = "add" ->
           /\ r.st = "ok" /\ s.aligned
           /\ Grows(s.labels, s.edges, r.labels, r.edges, Len(s.q))
           /\ ((s.allsame /\ s.q = cfg.ref) => r.labels = cfg.ref)       \* adding the reference again: same nodes
      [] c.op = "other_mode" -> r.st = "ok"          \* semiglobal / local / custom: not judged, must not leak
      [] c.op = "copy" ->                             \* clone / clone_from: the same graph (and scoring, and
           /\ r.st = "ok"                             \* pending alignment: judged through the calls that follow)
           /\ r.labels = s.labels /\ r.edges = s.edges
      [] c.op = "consensus" ->
           /\ r.st = "ok"
           /\ SpelledByPath(s.labels, s.edges, r.v)
           /\ (s.allsame => r.v = cfg.ref)
      [] OTHER -> FALSE

After(cfg, s, c, r) ==
    CASE c.op = "new"    -> [s EXCEPT !.labels = r.labels, !.edges = r.edges]
      [] c.op \in {"global", "banded"} -> [s EXCEPT !.q = c.a.q, !.aligned = TRUE]
      [] c.op = "other_mode" -> [s EXCEPT !.aligned = FALSE]     \* the drivers never add after it
      [] c.op = "add"    -> [s EXCEPT !.labels = r.labels, !.edges = r.edges,
                                      !.allsame = (s.allsame /\ s.q = cfg.ref)]
      [] OTHER -> s

Init == run \in 1..Len(Rec) /\ idx = 0 /\ ok = TRUE /\ st = InitState
Next ==
    /\ ok /\ idx < Len(Rec[run].ev)
    /\ LET R == Rec[run]
           e == R.ev[idx + 1]
           good == Explains(R.cfg, st, e.c, e.r)
       IN  /\ ok' = good
           /\ st' = IF good THEN After(R.cfg, st, e.c, e.r) ELSE st
           /\ IF good THEN TRUE ELSE PrintT(<<"REJECT", run, idx + 1>>)
    /\ idx' = idx + 1
    /\ UNCHANGED run
Spec == Init /\ [][Next]_vars
=============================================================================
