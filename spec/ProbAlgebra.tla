---------------------------- MODULE ProbAlgebra ----------------------------
(***************************************************************************)
(* C15 -- log-space probability arithmetic of rust-bio                     *)
(* (src/stats/probs/mod.rs, src/utils/fastexp.rs) against the LINEAR-SPACE *)
(* algebra it must refine.                                                 *)
(*                                                                         *)
(* TLA+ has no reals.  The linear-space algebra is stated in fixed point:  *)
(* an operand is an integer 0..Unit (Unit = 10^6) RELATIVE TO THE LARGEST  *)
(* OPERAND OF THE EVENT (absolute, i.e. relative to probability 1, where   *)
(* the operation involves the constant 1: complement, accumulator chains,  *)
(* conversions on the 10^9 scale).  The projection float -> integer is     *)
(* done by the harness (std exp, trusted) and is its only arithmetic.      *)
(*                                                                         *)
(* Definition layer: Sum, CumSums, Sub, Complement, the trapezoid /        *)
(* Simpson / grid-trapezoid rules as exact integer expressions, the        *)
(* conversion table, Prob::checked, and THE TOLERANCE RULE of the property *)
(*     |reported - exact| <= 0.5 % of the largest operand + quantisation   *)
(*                         = Unit \div 200 + (number of operands + 1).      *)
(* Machine layer (ProbAlgebraMC.tla): an accumulator machine               *)
(* Add / CumSumStep / Sub / Complement whose implementation variable may   *)
(* be off by a bounded error in every step; TLC checks that it stays       *)
(* inside the tolerance rule (error budget) and the laws of the algebra.   *)
(***************************************************************************)
EXTENDS Integers, Sequences, FiniteSets

Unit  == 1000000
Unit9 == 1000000000
Half  == Unit \div 200                  \* 0.5 % of the largest operand

RECURSIVE SumFrom(_, _, _)
SumFrom(xs, i, acc) == IF i > Len(xs) THEN acc ELSE SumFrom(xs, i + 1, acc + xs[i])
Sum(xs) == SumFrom(xs, 1, 0)

RECURSIVE CumFrom(_, _, _, _)
CumFrom(xs, i, acc, out) == IF i > Len(xs) THEN out ELSE CumFrom(xs, i + 1, acc + xs[i], Append(out, acc + xs[i]))
CumSums(xs) == CumFrom(xs, 1, 0, << >>)

\* the tolerance rule; nops = number of operands that were quantised
Tol(nops) == Half + nops + 1
Within(r, exact, nops) == r >= exact - Tol(nops) /\ r <= exact + Tol(nops)
\* ln(0) is the neutral element: with at most one non-zero operand nothing is approximated
NonZero(zs) == Cardinality({i \in 1..Len(zs) : zs[i] = 0})
Tight(r, exact) == r >= exact - 1 /\ r <= exact + 1

\* ---- integration rules on samples ys[1..n] (ys[k+1] = density at grid point k),
\* normalised by (interval width * largest sample): a value in 0..Unit
RECURSIVE WSum(_, _, _, _)
WSum(ys, w, i, acc) ==                 \* sum of w[i] * ys[i]
    IF i > Len(ys) THEN acc ELSE WSum(ys, w, i + 1, acc + w[i] * ys[i])
TrapzW(n)   == [i \in 1..n |-> IF i = 1 \/ i = n THEN 1 ELSE 2]
SimpsonW(n) == [i \in 1..n |-> IF i = 1 \/ i = n THEN 1 ELSE IF i % 2 = 0 THEN 4 ELSE 2]   \* 1 4 2 4 ... 4 1
Trapz(ys)   == WSum(ys, TrapzW(Len(ys)), 1, 0) \div (2 * (Len(ys) - 1))
Simpson(ys) == WSum(ys, SimpsonW(Len(ys)), 1, 0) \div (3 * (Len(ys) - 1))
RECURSIVE GridFrom(_, _, _, _)
GridFrom(ys, gs, i, acc) ==
    IF i > Len(ys) THEN acc ELSE GridFrom(ys, gs, i + 1, acc + (ys[i - 1] + ys[i]) * (gs[i] - gs[i - 1]))
GridTrapz(ys, gs) == GridFrom(ys, gs, 2, 0) \div (2 * (gs[Len(gs)] - gs[1]))

\* samples reported as calls <<k, y>> (k = 0-based grid index): each grid point exactly once
Covers(calls, n) ==
    /\ Len(calls) = n
    /\ \A k \in 0..(n - 1) : Cardinality({i \in 1..n : calls[i][1] = k}) = 1
SamplesOf(calls, n) == [k \in 1..n |-> calls[CHOOSE i \in 1..n : calls[i][1] = k - 1][2]]

\* ---- conversions: representations P (linear), L (natural log), Q (PHRED)
Steps == {"p2l", "l2p", "p2q", "q2p", "l2q", "q2l"}
Src(s) == CASE s \in {"p2l", "p2q"} -> "P" [] s \in {"l2p", "l2q"} -> "L" [] OTHER -> "Q"
Dst(s) == CASE s \in {"l2p", "q2p"} -> "P" [] s \in {"p2l", "q2l"} -> "L" [] OTHER -> "Q"
\* the only step that goes through the approximate exponential
Approximate(s) == s = "l2p"
ChainOK(chain) == /\ Len(chain) >= 1
                  /\ \A i \in 1..Len(chain) : chain[i] \in Steps
                  /\ \A i \in 1..(Len(chain) - 1) : Dst(chain[i]) = Src(chain[i + 1])
ChainExact(chain) == \A i \in 1..Len(chain) : ~Approximate(chain[i])
\* every chain is the identity on the represented probability
ConvWithin(r9, x9, chain) ==
    IF ChainExact(chain) THEN r9 >= x9 - 2 /\ r9 <= x9 + 2                       \* 1e-9 relative + rounding
    ELSE r9 >= x9 - (x9 \div 200) - 2 /\ r9 <= x9 + (x9 \div 200) + 2            \* 0.5 %

\* ---- Prob::checked: exactly the closed interval [0,1]
CheckedAccepts(a) ==
    CASE a.kind = "ratio" -> a.den > 0 /\ a.num >= 0 /\ a.num <= a.den
      [] a.kind \in {"negzero", "min_positive", "one_minus_ulp"} -> TRUE
      [] a.kind \in {"nan", "posinf", "neginf", "one_plus_ulp", "minus_min_positive"} -> FALSE
      [] OTHER -> FALSE

\* ------------------------------------------------- closed-form family "big lists"
\* Lists of 10^5 .. 10^6 operands are never written down: a list is ONE dominant element (value
\* dom) at position pos (1-based) plus, class after class, mult copies of the value x for every
\* class <<x, mult>> (x in units of 1e-9 of the dominant element in the traces).  The exact
\* linear sum and every prefix sum are closed forms; ProbAlgebraMC proves them equal to Sum /
\* CumSums of the expanded list for small multiplicities (BigLemmas).
RECURSIVE ClassTotal(_, _, _)
ClassTotal(cl, i, acc) == IF i > Len(cl) THEN acc ELSE ClassTotal(cl, i + 1, acc + cl[i][1] * cl[i][2])
RECURSIVE ClassCount(_, _, _)
ClassCount(cl, i, acc) == IF i > Len(cl) THEN acc ELSE ClassCount(cl, i + 1, acc + cl[i][2])
BigSumClosed(cl, dom) == dom + ClassTotal(cl, 1, 0)
\* sum of the first j tail elements
RECURSIVE TailPrefix(_, _, _, _)
TailPrefix(cl, i, j, acc) ==
    IF i > Len(cl) \/ j <= 0 THEN acc
    ELSE TailPrefix(cl, i + 1, j - cl[i][2], acc + cl[i][1] * (IF j < cl[i][2] THEN j ELSE cl[i][2]))
\* sum of the first k elements of the whole list
BigPrefixClosed(cl, dom, pos, k) ==
    IF k >= pos THEN dom + TailPrefix(cl, 1, k - 1, 0) ELSE TailPrefix(cl, 1, k, 0)
\* the explicit list (only for the lemma)
RECURSIVE Repeat(_, _, _)
Repeat(x, n, acc) == IF n <= 0 THEN acc ELSE Repeat(x, n - 1, Append(acc, x))
RECURSIVE TailList(_, _, _)
TailList(cl, i, acc) == IF i > Len(cl) THEN acc ELSE TailList(cl, i + 1, Repeat(cl[i][1], cl[i][2], acc))
Expand(cl, dom, pos) ==
    LET t == TailList(cl, 1, << >>) IN SubSeq(t, 1, pos - 1) \o <<dom>> \o SubSeq(t, pos, Len(t))

\* ---- the same family with finer values (lists up to 10^7 elements): a class is
\* <<xm, xe, mult>> = mult copies of the value xm * 10^-xe of the dominant element (xe >= 6).
\* Totals are taken per class in Unit (1e-6) units: (mult * xm) \div 10^(xe - 6); with xe = 6
\* this is the unscaled closed form above (ScaledLemma in ProbAlgebraMC).
RECURSIVE Pow10(_)
Pow10(k) == IF k <= 0 THEN 1 ELSE 10 * Pow10(k - 1)
\* cnt copies of class c, in Unit units (cnt * xm < 2^31 < 10^10: beyond 10^-15 per element nothing is left;
\* this also keeps Pow10 inside 32 bits)
ClassUnits(c, cnt) == IF c[2] - 6 >= 10 THEN 0 ELSE (cnt * c[1]) \div Pow10(c[2] - 6)
RECURSIVE ScaledTotal(_, _, _)
ScaledTotal(cl, i, acc) == IF i > Len(cl) THEN acc ELSE ScaledTotal(cl, i + 1, acc + ClassUnits(cl[i], cl[i][3]))
RECURSIVE ScaledCount(_, _, _)
ScaledCount(cl, i, acc) == IF i > Len(cl) THEN acc ELSE ScaledCount(cl, i + 1, acc + cl[i][3])
RECURSIVE ScaledTailPrefix(_, _, _, _)
ScaledTailPrefix(cl, i, j, acc) ==
    IF i > Len(cl) \/ j <= 0 THEN acc
    ELSE ScaledTailPrefix(cl, i + 1, j - cl[i][3], acc + ClassUnits(cl[i], IF j < cl[i][3] THEN j ELSE cl[i][3]))
ScaledPrefixClosed(cl, pos, k) ==
    IF k >= pos THEN Unit + ScaledTailPrefix(cl, 1, k - 1, 0) ELSE ScaledTailPrefix(cl, 1, k, 0)
\* no 32-bit overflow: mult * xm < 2^31 for every class
ScaledOK(cl) == \A i \in 1..Len(cl) : cl[i][1] >= 1 /\ cl[i][2] >= 6 /\ cl[i][2] <= 30 /\ cl[i][3] >= 0
                                      /\ cl[i][3] <= 2000000000 \div cl[i][1]

\* integration grids with 10^5 .. 10^6 points: density = ONE peak cell kp (value peak) on a
\* piecewise constant floor (x1 for grid indices < h, x2 for indices >= h; 0-based indices
\* 0..n-1).  The weighted sum  sum_k W(k) * y(k)  of the rule is a closed form.
TrapzWBefore(n, h)   == IF h <= 0 THEN 0 ELSE IF h >= n THEN 2 * (n - 1) ELSE 2 * h - 1      \* sum of W(k), k < h
SimpsonWBefore(n, h) == IF h <= 0 THEN 0 ELSE IF h >= n THEN 3 * (n - 1)
                        ELSE 1 + 4 * (h \div 2) + 2 * ((h - 1) \div 2)
TrapzWAt(n, k)   == IF k = 0 \/ k = n - 1 THEN 1 ELSE 2
SimpsonWAt(n, k) == IF k = 0 \/ k = n - 1 THEN 1 ELSE IF k % 2 = 1 THEN 4 ELSE 2
\* rule = "trapz" / "simpson";  result in the units of x1, x2, peak
PeakFloorClosed(rule, n, kp, h, x1, x2, peak) ==
    LET wb  == IF rule = "trapz" THEN TrapzWBefore(n, h) ELSE SimpsonWBefore(n, h)
        wt  == IF rule = "trapz" THEN 2 * (n - 1) ELSE 3 * (n - 1)
        wk  == IF rule = "trapz" THEN TrapzWAt(n, kp) ELSE SimpsonWAt(n, kp)
        fl  == IF kp < h THEN x1 ELSE x2
    IN  wb * x1 + (wt - wb) * x2 - wk * fl + wk * peak
PeakFloorSamples(n, kp, h, x1, x2, peak) ==
    [i \in 1..n |-> IF i - 1 = kp THEN peak ELSE IF i - 1 < h THEN x1 ELSE x2]
=============================================================================
