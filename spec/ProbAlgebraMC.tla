--------------------------- MODULE ProbAlgebraMC ---------------------------
(***************************************************************************)
(* Machine layer of C15: an accumulator that is driven by the operations   *)
(* of the algebra, with two registers:                                     *)
(*   acc  the exact linear-space value (fixed point, One = probability 1)  *)
(*   imp  what an implementation holds whose EVERY binary operation may be *)
(*        off by up to Err(smaller operand) (the fast exponential enters   *)
(*        ln_add_exp / ln_sub_exp only through exp(smaller - larger))      *)
(* Actions: New(x), Add(x), CumSumStep(x), Sub(x), Complement.             *)
(* TLC explores all programs of up to MaxOps operations over the grid and  *)
(* all error choices {-E, 0, +E} and checks                                *)
(*   Budget     |imp - acc| <= n * E  <= the tolerance rule of the property *)
(*              (error-budget composition; the constants are scaled:       *)
(*              One = 100, E = 1 unit per operation on operands >= E0)     *)
(*   Laws       0 neutral, Add monotone, CumSum last = Sum, Sub undoes Add,*)
(*              Complement is an involution on [0, One]                    *)
(*   Rules      trapezoid / Simpson exact on constant densities, trapezoid *)
(*              exact on linear ones, Simpson exact on quadratics (checked *)
(*              in the initial state on a small family of sample vectors)  *)
(***************************************************************************)
EXTENDS ProbAlgebra, TLC
CONSTANTS One,       \* fixed-point image of probability 1 in the model
          Grid,      \* operand values
          MaxOps,    \* operations per behaviour
          E          \* per-operation error of the implementation (units)

VARIABLES acc, imp, n, xs, emitted, last, pure
vars == <<acc, imp, n, xs, emitted, last, pure>>
\* xs      : operands consumed so far (for the laws)
\* emitted : partial sums handed out by CumSumStep (implementation values)
\* last    : name of the last action;  pure : no Complement so far (acc = Sum(xs))

Errs(small) == IF small = 0 THEN {0} ELSE {-E, 0, E}     \* adding / subtracting zero is exact

Init == acc = 0 /\ imp = 0 /\ n = 0 /\ xs = << >> /\ emitted = << >> /\ last = "init" /\ pure = TRUE

Add(x) ==
    /\ n < MaxOps
    /\ acc' = acc + x
    /\ \E d \in Errs(IF x < imp THEN x ELSE imp) : imp' = imp + x + d /\ imp' >= 0
    /\ n' = n + 1 /\ xs' = Append(xs, x) /\ last' = "add"
    /\ UNCHANGED <<emitted, pure>>
CumSumStep(x) ==
    /\ n < MaxOps /\ (last \in {"init", "cumsum"})
    /\ acc' = acc + x
    /\ \E d \in Errs(IF x < imp THEN x ELSE imp) :
          /\ imp' = imp + x + d /\ imp' >= 0
          /\ emitted' = Append(emitted, imp + x + d)
    /\ n' = n + 1 /\ xs' = Append(xs, x) /\ last' = "cumsum" /\ UNCHANGED pure
Sub(x) ==                                 \* precondition of ln_sub_exp: no negative result
    /\ n < MaxOps /\ x <= acc /\ x <= imp
    /\ acc' = acc - x
    /\ \E d \in Errs(x) : imp' = imp - x + d /\ imp' >= 0
    /\ n' = n + 1 /\ xs' = Append(xs, -x) /\ last' = "sub"
    /\ UNCHANGED <<emitted, pure>>
Complement ==                             \* precondition of ln_one_minus_exp: a probability
    /\ n < MaxOps /\ acc <= One /\ imp <= One
    /\ acc' = One - acc
    /\ \E d \in Errs(imp) : imp' = One - imp + d /\ imp' >= 0
    /\ n' = n + 1 /\ last' = "complement" /\ pure' = FALSE
    /\ UNCHANGED <<xs, emitted>>

Next == (\E x \in Grid : Add(x) \/ CumSumStep(x) \/ Sub(x)) \/ Complement
Spec == Init /\ [][Next]_vars

\* ------------------------------------------------------------ invariants
Abs(x) == IF x < 0 THEN -x ELSE x
Budget == Abs(imp - acc) <= n * E
\* the scaled version of "n * 1e-5 * largest operand <= 0.5 % of the largest operand" for n <= 200:
\* in the real constants E = 10 units of 10^6 (fastexp: 8.8e-6 measured), 200 * 10 = 2000 <= Half
ASSUME 200 * 10 <= Half

CumSumMeaning ==
    last = "cumsum" =>
        /\ Len(emitted) = Len(xs)
        /\ emitted[Len(emitted)] = imp                                  \* last partial sum = the sum
        /\ CumSums(xs)[Len(xs)] = Sum(xs) /\ Sum(xs) = acc
        /\ \A i \in 1..Len(xs) : Abs(emitted[i] - CumSums(xs)[i]) <= i * E
Laws ==
    /\ acc >= 0 /\ imp >= 0
    /\ pure => acc = Sum(xs)                   \* Sub undoes Add: the operands simply cancel
NeutralAndMonotone == [][
      /\ (last' \in {"add", "cumsum"} /\ xs'[Len(xs')] = 0) => (acc' = acc /\ imp' = imp)   \* 0 is neutral, exactly
      /\ last' \in {"add", "cumsum"} => acc' >= acc                                          \* monotone
      /\ last' = "complement" => acc' + acc = One                                            \* involution
  ]_vars

\* integration rules (constant-level lemmas, evaluated in the initial state)
Const(c, k)  == [i \in 1..k |-> c]
Linear(a, b, k) == [i \in 1..k |-> a + b * (i - 1)]
Quad(a, b, c, k) == [i \in 1..k |-> a + b * (i - 1) + c * (i - 1) * (i - 1)]
RuleLemmas ==
    n = 0 =>
      /\ \A k \in {3, 5, 7} : \A c \in {0, 1, 7, One} :
            Trapz(Const(c, k)) = c /\ Simpson(Const(c, k)) = c /\ GridTrapz(Const(c, k), [i \in 1..k |-> i * i]) = c
      \* trapezoid is exact on linear densities: mean of the end points
      /\ \A k \in {3, 5, 7} : \A a \in {0, 4} : \A b \in {0, 2, 6} :
            Trapz(Linear(a, b, k)) = (2 * a + b * (k - 1)) \div 2
      \* Simpson is exact on quadratics: integral of a + b t + c t^2 over [0, k-1], divided by the width
      /\ \A k \in {3, 5, 7} : \A a \in {0, 6} : \A b \in {0, 6} : \A c \in {0, 6} :
            Simpson(Quad(a, b, c, k)) = (6 * a + 3 * b * (k - 1) + 2 * c * (k - 1) * (k - 1)) \div 6
      \* conversion table: every well-typed chain is exact unless it contains l2p
      /\ ChainOK(<<"p2l", "l2q", "q2p">>) /\ ChainExact(<<"p2l", "l2q", "q2p">>)
      /\ ChainOK(<<"p2q", "q2l", "l2p">>) /\ ~ChainExact(<<"p2q", "q2l", "l2p">>)
      /\ ~ChainOK(<<"p2l", "q2p">>)

\* closed forms of the "big" families = the general definitions, for small parameters
SmallClasses == {<< >>} \cup {<<c>> : c \in {1, 3} \X {0, 1, 3}} \cup {<<c, d>> : c \in {1, 3} \X {1, 2}, d \in {2, 5} \X {0, 2}}
BigLemmas ==
    n = 0 =>
      /\ \A cl \in SmallClasses : \A pos \in 1..(ClassCount(cl, 1, 0) + 1) :
            LET l == Expand(cl, 100, pos) IN
            /\ Len(l) = ClassCount(cl, 1, 0) + 1 /\ l[pos] = 100
            /\ Sum(l) = BigSumClosed(cl, 100)
            /\ \A k \in 1..Len(l) : CumSums(l)[k] = BigPrefixClosed(cl, 100, pos, k)
      \* the scaled form with xe = 6 is the unscaled one (dominant element = Unit)
      /\ \A cl \in SmallClasses : \A pos \in 1..(ClassCount(cl, 1, 0) + 1) :
            LET c3 == [i \in 1..Len(cl) |-> <<cl[i][1], 6, cl[i][2]>>] IN
            /\ ScaledCount(c3, 1, 0) = ClassCount(cl, 1, 0)
            /\ Unit + ScaledTotal(c3, 1, 0) = BigSumClosed(cl, Unit)
            /\ \A k \in 1..(ClassCount(cl, 1, 0) + 1) : ScaledPrefixClosed(c3, pos, k) = BigPrefixClosed(cl, Unit, pos, k)
      \* and a coarser xe only divides: 7 copies of 25e-8 are 1 unit (1.75 truncated)
      /\ ScaledTotal(<< <<25, 8, 7>> >>, 1, 0) = 1 /\ ScaledPrefixClosed(<< <<25, 8, 7>> >>, 3, 8) = Unit + 1
      /\ \A k \in {3, 5, 7} : \A kp \in 0..(k - 1) : \A h \in 0..k : \A x1 \in {0, 2} : \A x2 \in {1, 3} :
            LET ys == PeakFloorSamples(k, kp, h, x1, x2, 50) IN
            /\ WSum(ys, TrapzW(k), 1, 0) = PeakFloorClosed("trapz", k, kp, h, x1, x2, 50)
            /\ WSum(ys, SimpsonW(k), 1, 0) = PeakFloorClosed("simpson", k, kp, h, x1, x2, 50)
      /\ \A k \in {4, 6} : \A kp \in 0..(k - 1) : \A h \in 0..k :
            WSum(PeakFloorSamples(k, kp, h, 2, 3, 50), TrapzW(k), 1, 0) = PeakFloorClosed("trapz", k, kp, h, 2, 3, 50)

\* progress: n counts up to MaxOps
Progress == [][n' = n + 1]_vars
=============================================================================
