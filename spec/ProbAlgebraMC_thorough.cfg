CONSTANTS
  One = 100
  Grid = {0, 1, 30, 50, 100}
  MaxOps = 6
  E = 1
SPECIFICATION Spec
INVARIANTS Budget CumSumMeaning Laws RuleLemmas BigLemmas
PROPERTIES NeutralAndMonotone Progress
CHECK_DEADLOCK FALSE
