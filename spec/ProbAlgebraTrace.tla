-------------------------- MODULE ProbAlgebraTrace --------------------------
(* Trace validation for family "prob" (C15).                                 *)
(* cfg.kind = "ops"  : every event is self-contained; operands and result    *)
(*    are fixed-point images relative to the largest operand of the event    *)
(*    (a.xs, flags a.zs = operand is ln(0)); acceptance = the tolerance rule *)
(*    of ProbAlgebra.tla against the exact integer computation; never NaN,   *)
(*    never +inf; result exactly ln(0) iff every operand is ln(0) (add, sum, *)
(*    cumsum); with at most one non-zero operand the result is that operand  *)
(*    (neutral element, tolerance 1 unit).                                   *)
(* cfg.kind = "chain": one accumulator driven through acc_new / acc_add /    *)
(*    acc_sub / acc_compl on the absolute scale; the trace spec steps the    *)
(*    exact accumulator (st) and compares every reported value with it.      *)
EXTENDS ProbAlgebra, TLC, Json, IOUtils

Rec == ndJsonDeserialize(IOEnv.TRACE)

VARIABLES run, idx, ok, st
vars == <<run, idx, ok, st>>

Clean(r)  == r.nan = 0 /\ r.posinf = 0                 \* a result record [v, nan, posinf, neginf]
AllZero(zs) == \A i \in 1..Len(zs) : zs[i] = 1
Shape(a) == Len(a.xs) = Len(a.zs)
ZeroIff(r, zs) == /\ (r.neginf = 1) <=> AllZero(zs)
                  /\ (r.neginf = 1) => r.v = 0
Approx(r, exact, zs) ==
    IF NonZero(zs) <= 1 THEN Tight(r.v, exact) ELSE Within(r.v, exact, Len(zs))

\* calls = <<k, y, i>>: k = grid position of the abscissa x handed to the density, i = the index
\* handed to it.  Every grid point is announced with its own position; the right boundary may be
\* announced as n - 1 or as n (the helper says n, its documentation does not fix it).
AnnouncedOK(calls, n) ==
    \A j \in 1..Len(calls) : calls[j][3] = calls[j][1] \/ (calls[j][1] = n - 1 /\ calls[j][3] = n)

ExplainsOp(c, r) ==
    CASE c.op = "add" ->
           /\ Len(c.a.xs) = 2 /\ Shape(c.a) /\ Clean(r)
           /\ ZeroIff(r, c.a.zs)
           /\ Approx(r, c.a.xs[1] + c.a.xs[2], c.a.zs)
      [] c.op = "sum" ->
           /\ Shape(c.a) /\ Clean(r)
           /\ ZeroIff(r, c.a.zs)
           /\ Approx(r, Sum(c.a.xs), c.a.zs)
      [] c.op = "cumsum" ->
           /\ Shape(c.a) /\ Len(r.vs) = Len(c.a.xs)
           /\ LET cs == CumSums(c.a.xs) IN
              \A i \in 1..Len(cs) :
                 /\ Clean(r.vs[i])
                 /\ ZeroIff(r.vs[i], SubSeq(c.a.zs, 1, i))
                 /\ Approx(r.vs[i], cs[i], SubSeq(c.a.zs, 1, i))
      [] c.op = "sub" ->
           /\ Len(c.a.xs) = 2 /\ Shape(c.a) /\ Clean(r)
           /\ (r.neginf = 1) => r.v = 0
           /\ IF c.a.zs[2] = 1 THEN Tight(r.v, c.a.xs[1])             \* minus ln(0): unchanged
              ELSE Within(r.v, c.a.xs[1] - c.a.xs[2], 2)
      [] c.op = "complement" ->
           /\ Clean(r)
           /\ (r.neginf = 1) => r.v = 0
           /\ IF c.a.z = 1 THEN r.v = Unit                             \* 1 - 0 = 1 exactly
              ELSE Within(r.v, Unit - c.a.x, 1)
      [] c.op \in {"trapz", "simpson"} ->
           /\ Clean(r) /\ c.a.n >= 2
           /\ Covers(r.calls, c.a.n)
           /\ AnnouncedOK(r.calls, c.a.n)
           /\ LET ys == SamplesOf(r.calls, c.a.n)
              IN  Within(r.v, IF c.op = "trapz" THEN Trapz(ys) ELSE Simpson(ys), c.a.n)
      \* index-driven densities: the closure returns table[i] for the ANNOUNCED index i, so the
      \* integral is right only if every grid point is announced with its own position
      [] c.op \in {"trapz_idx", "simpson_idx"} ->
           /\ Clean(r) /\ c.a.n >= 2 /\ Len(c.a.table) = c.a.n
           /\ Covers(r.calls, c.a.n)
           /\ AnnouncedOK(r.calls, c.a.n)
           /\ Within(r.v, IF c.op = "trapz_idx" THEN Trapz(c.a.table) ELSE Simpson(c.a.table), c.a.n)
      \* nested helpers: the density of the outer rule is itself an integral (inner rule over the
      \* second argument): the iterated application of the two rules to the table f(x_i, y_j)
      [] c.op = "nested" ->
           /\ Clean(r) /\ Len(c.a.table) = c.a.n1 /\ \A i \in 1..c.a.n1 : Len(c.a.table[i]) = c.a.n2
           /\ LET R1(ys, rule) == IF rule = "simpson" THEN Simpson(ys) ELSE Trapz(ys)      \* "grid" on an equidistant grid = trapezoid
                  inner == [i \in 1..c.a.n1 |-> R1(c.a.table[i], c.a.inner)]
              IN  Within(r.v, R1(inner, c.a.outer), c.a.n1 + c.a.n2)
      \* fine grid far from the origin, density c0 + c1 (x - a) on [a, a + w]: both rules give
      \* w (c0 + c1 w / 2); every sampled abscissa lies within 2 ulp of a + i h
      [] c.op = "fargrid" ->
           /\ Clean(r) /\ r.ncalls = c.a.n
           /\ Within(r.v, (Unit * (2 * c.a.c0 + c.a.c1 * c.a.w)) \div (2 * (c.a.c0 + c.a.c1 * c.a.w)), 3)
           /\ Len(r.samples) >= 4
           /\ \A i \in 1..Len(r.samples) : r.samples[i][2] >= -2 /\ r.samples[i][2] <= 2
      [] c.op = "grid_idx" ->
           /\ Clean(r) /\ Len(c.a.gs) >= 2 /\ Len(c.a.table) = Len(c.a.gs)
           /\ \A i \in 1..Len(r.calls) : r.calls[i][1] = r.calls[i][3] /\ r.calls[i][1] \in 0..(Len(c.a.gs) - 1)
           /\ \A kk \in 0..(Len(c.a.gs) - 1) : \E i \in 1..Len(r.calls) : r.calls[i][1] = kk
           /\ Within(r.v, GridTrapz(c.a.table, c.a.gs), Len(c.a.gs))
      [] c.op = "grid" ->
           /\ Clean(r) /\ Len(c.a.gs) >= 2
           /\ Covers(r.calls, Len(c.a.gs))
           /\ Within(r.v, GridTrapz(SamplesOf(r.calls, Len(c.a.gs)), c.a.gs), Len(c.a.gs))
      [] c.op = "conv" ->
           /\ r.nan = 0
           /\ ChainOK(c.a.chain)
           /\ ConvWithin(r.v, c.a.x, c.a.chain)
      [] c.op = "l2p_at" ->                 \* Prob::from(LogProb(d)); a.x = image of exp(d) on the 1e9 scale
           /\ r.nan = 0 /\ r.inf = 0
           /\ r.v >= c.a.x - (c.a.x \div 200) - 2 /\ r.v <= c.a.x + (c.a.x \div 200) + 2
      \* ---- closed-form families (10^5 .. 10^6 operands; see ProbAlgebra.tla)
      [] c.op = "hugesum" ->          \* classes <<xm, xe, mult>>, up to 10^7 elements
           /\ Clean(r) /\ r.neginf = 0
           /\ ScaledOK(c.a.cl)
           /\ c.a.n = ScaledCount(c.a.cl, 1, 0) + 1 /\ c.a.pos \in 1..c.a.n
           /\ Within(r.v, Unit + ScaledTotal(c.a.cl, 1, 0), 2 * Len(c.a.cl) + 1)
      [] c.op = "hugecumsum" ->
           /\ ScaledOK(c.a.cl)
           /\ c.a.n = ScaledCount(c.a.cl, 1, 0) + 1 /\ c.a.pos \in 1..c.a.n
           /\ Len(r.vs) = Len(c.a.at)
           /\ \A i \in 1..Len(c.a.at) :
                 /\ c.a.at[i] \in 1..c.a.n
                 /\ Clean(r.vs[i])
                 /\ Within(r.vs[i].v, ScaledPrefixClosed(c.a.cl, c.a.pos, c.a.at[i]), 2 * Len(c.a.cl) + 1)
      [] c.op = "bigsum" ->
           /\ Clean(r) /\ r.neginf = 0
           /\ c.a.n = ClassCount(c.a.cl, 1, 0) + 1 /\ c.a.pos \in 1..c.a.n
           /\ ClassTotal(c.a.cl, 1, 0) <= Unit9
           /\ Within(r.v, Unit + (ClassTotal(c.a.cl, 1, 0) \div 1000), Len(c.a.cl) + 1)
      [] c.op = "bigcumsum" ->
           /\ c.a.n = ClassCount(c.a.cl, 1, 0) + 1 /\ c.a.pos \in 1..c.a.n
           /\ ClassTotal(c.a.cl, 1, 0) <= Unit9
           /\ Len(r.vs) = Len(c.a.at)
           /\ \A i \in 1..Len(c.a.at) :
                 /\ c.a.at[i] \in 1..c.a.n
                 /\ Clean(r.vs[i]) /\ r.vs[i].neginf = 0
                 /\ Within(r.vs[i].v, BigPrefixClosed(c.a.cl, Unit9, c.a.pos, c.a.at[i]) \div 1000, Len(c.a.cl) + 1)
      [] c.op \in {"bigtrapz", "bigsimpson"} ->
           /\ Clean(r) /\ r.neginf = 0
           /\ c.a.n >= 3 /\ c.a.kp \in 0..(c.a.n - 1) /\ c.a.h \in 0..c.a.n
           /\ r.ncalls = c.a.n
           /\ LET rule == IF c.op = "bigtrapz" THEN "trapz" ELSE "simpson"
                  wk   == IF rule = "trapz" THEN TrapzWAt(c.a.n, c.a.kp) ELSE SimpsonWAt(c.a.n, c.a.kp)
                  fl   == PeakFloorClosed(rule, c.a.n, c.a.kp, c.a.h, c.a.x1, c.a.x2, 0)     \* floor part, 1e-9 units
                  want == wk * Unit + (fl \div 1000)
              IN  \* 0.5 % of the largest (weighted) operand of the log-sum + quantisation
                  r.v >= want - (wk * Half + 4) /\ r.v <= want + (wk * Half + 4)
      \* ---- the value types: operators vs documented meaning; operands k0/1000, k1/1000, results on 1e9
      [] c.op = "operators" ->
           LET k0 == c.a.k0  k1 == c.a.k1
               Fin(x) == x.nan = 0 /\ x.inf = 0
               Is(x, want) == Fin(x) /\ x.v >= want - 2 /\ x.v <= want + 2
               \* quotient k0/k1 on the 1e9 scale, compared without division: |v*k1 - k0*1e9| <= 2*k1 (k1 > 0)
               Quot(x) == IF k0 > 2 * k1 THEN Fin(x) /\ x.v >= 2000000000 - 2       \* clamped by the projection
                          ELSE Fin(x) /\ (x.v \div 1000) * k1 >= k0 * 1000000 - 2 * k1 - 1000
                                      /\ (x.v \div 1000) * k1 <= k0 * 1000000 + 2 * k1 + 1000
               B(b) == IF b THEN 1 ELSE 0
           IN  /\ Is(r.l_add, k0 * k1 * 1000) /\ Is(r.l_add_assign, k0 * k1 * 1000)        \* LogProb + LogProb = product
               /\ Is(r.p_mul, k0 * k1 * 1000)
               /\ Is(r.p_add, (k0 + k1) * 1000000) /\ Is(r.p_sub, (k0 - k1) * 1000000)
               /\ (k0 > 0 => Quot(r.l_sub) /\ Quot(r.l_sub_assign) /\ Quot(r.p_div))                \* LogProb - LogProb = quotient
               /\ (k0 = 0 => r.l_sub.nan = 0 /\ r.l_sub.v = 0 /\ r.p_div.v = 0)
               /\ Is(r.l_sum_val, k0 * k1 * 1000)                                            \* Sum of LogProbs = product
               /\ Fin(r.l_sum_ref) /\ r.l_sum_ref.v >= (k0 * k1 * k1) - 2 /\ r.l_sum_ref.v <= (k0 * k1 * k1) + 2
               /\ r.lt = <<B(k0 < k1), B(k0 < k1), B(k0 > k1)>>          \* PHRED order is the reverse of the probability order
               /\ r.gt = <<B(k0 > k1), B(k0 > k1), B(k0 < k1)>>
               /\ r.eq = <<B(k0 = k1), B(k0 = k1), B(k0 = k1)>>
               /\ r.valid = 1
      [] c.op = "serde" ->
           /\ \A x \in {r.p, r.l, r.q} : x.nan = 0 /\ x.inf = 0 /\ x.v >= c.a.k * 1000000 - 2 /\ x.v <= c.a.k * 1000000 + 2
      [] c.op = "defaults" ->
           /\ r.logprob_default_neginf = 1 /\ r.phred_default_posinf = 1 /\ r.prob_default.v = 0 /\ r.prob_default.nan = 0
           /\ r.logprob_zero_is_zero = 1 /\ r.prob_zero_is_zero = 1 /\ r.phred_zero_is_zero = 1
           /\ r.ln_one_is_zero = 0 /\ r.half_is_zero = 0 /\ r.tiny_is_zero = 0       \* only ln(0) is zero
           /\ r.ln_one.v = Unit9 /\ r.ln_zero_neginf = 1
           /\ r.zero_plus.v = 0 /\ r.zero_plus.nan = 0                                 \* 0 * p = 0
      [] c.op = "cap" -> FALSE        \* handled in Explains (a panic is the documented refusal)
      [] c.op = "checked" ->
           /\ (r.ok = 1) <=> CheckedAccepts(c.a)
           /\ (r.ok = 1 /\ c.a.kind = "ratio") =>
                 \* (the drivers use denominators that divide Unit; no 32-bit overflow)
                 LET x == c.a.num * (Unit \div c.a.den) IN r.v >= x - 1 /\ r.v <= x + 1
      [] OTHER -> FALSE

\* accumulator chains: s = [acc |-> exact value, n |-> operands so far]
InitSt == [acc |-> 0, n |-> 0]
After(s, c) ==
    CASE c.op = "acc_new"   -> [acc |-> c.a.x, n |-> 1]
      [] c.op = "acc_add"   -> [acc |-> s.acc + c.a.x, n |-> s.n + 1]
      [] c.op = "acc_sub"   -> [acc |-> s.acc - c.a.x, n |-> s.n + 1]
      [] c.op = "acc_compl" -> [acc |-> Unit - s.acc, n |-> s.n + 1]
      [] OTHER -> s
ExplainsChain(s, c, r) ==
    /\ c.op \in {"acc_new", "acc_add", "acc_sub", "acc_compl"}
    /\ Clean(r)
    /\ (r.neginf = 1) => r.v = 0
    /\ Within(r.v, After(s, c).acc, After(s, c).n)

\* cap_numerical_overshoot(v, eps), both in units of 1e-9: values <= 0 unchanged, overshoots up to
\* and including eps become ln(1) = 0, larger ones are refused (documented panic)
ExplainsCap(c, r) ==
    IF c.a.vn <= 0 THEN r.st = "ok" /\ r.v = c.a.vn
    ELSE IF c.a.vn <= c.a.en THEN r.st = "ok" /\ r.v = 0
    ELSE r.st = "panic"

Explains(cfg, s, e) ==
    IF e.c.op = "cap" THEN ExplainsCap(e.c, e.r)
    ELSE /\ e.r.st = "ok"
         /\ IF cfg.kind = "chain" THEN ExplainsChain(s, e.c, e.r) ELSE ExplainsOp(e.c, e.r)

Init == run \in 1..Len(Rec) /\ idx = 0 /\ ok = TRUE /\ st = InitSt
Next ==
    /\ ok /\ idx < Len(Rec[run].ev)
    /\ LET e == Rec[run].ev[idx + 1]
           good == Explains(Rec[run].cfg, st, e)
       IN  /\ ok' = good
           /\ st' = IF Rec[run].cfg.kind = "chain" THEN After(st, e.c) ELSE st
           /\ IF good THEN TRUE ELSE PrintT(<<"REJECT", run, idx + 1>>)
    /\ idx' = idx + 1
    /\ UNCHANGED run
Spec == Init /\ [][Next]_vars
=============================================================================
