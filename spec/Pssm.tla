-------------------------------- MODULE Pssm --------------------------------
(***************************************************************************)
(* X02 -- position-specific scoring matrices of rust-bio                   *)
(* (src/pattern_matching/pssm/{mod,dnamotif,protmotif}.rs).                *)
(*                                                                         *)
(* Numbers.  Counts are integers in units of 1/1000 ("milli"): a sequence  *)
(* contributes Incr(kind, monomer) to its position (1000 for an            *)
(* unambiguous monomer, 500/500 for a two-fold IUPAC code, 333 x 3 for a   *)
(* three-fold one -- the constants of the code --, 250 x 4 for N, 50 x 20  *)
(* for the protein X, nothing for '0'), pseudocounts are given in milli.   *)
(* A motif is [kind, len, w, t]: w[pos][b] the weight of monomer index b-1 *)
(* at position pos, t[pos] the row total; the normalised score is the      *)
(* rational w/t.  Reported floats are projected by the harness to          *)
(* round(x * S), S = 10^4 (info content: round(x * 1000), milli-bits);     *)
(* the specification computes floor(w * S / t) and allows one unit per     *)
(* term.  Comparisons inside degenerate_consensus are decided exactly on   *)
(* the integers; where the two sides are exactly equal, either outcome of  *)
(* the floating-point comparison is accepted.                              *)
(***************************************************************************)
EXTENDS Integers, Sequences, FiniteSets, FiniteSetsExt, TLC

S == 10000

Max2(x, y) == IF x >= y THEN x ELSE y
Min2(x, y) == IF x <= y THEN x ELSE y
Abs(x) == IF x < 0 THEN -x ELSE x
Within(x, e, tol) == x >= e - tol /\ x <= e + tol

\* ---------------------------------------------------------------- alphabets
DnaMonos  == <<65, 84, 71, 67>>                                       \* "ATGC"
ProtMonos == <<65, 82, 78, 68, 67, 69, 81, 71, 72, 73, 76, 75, 77, 70, 80, 83, 84, 87, 89, 86>>
                                                                      \* "ARNDCEQGHILKMFPSTWYV"
K(kind)     == IF kind = "dna" THEN 4 ELSE 20
Monos(kind) == IF kind = "dna" THEN DnaMonos ELSE ProtMonos
Upper(b)    == IF b >= 97 /\ b <= 122 THEN b - 32 ELSE b

IndexIn(sq, x) == LET cs == {k \in 1..Len(sq) : sq[k] = x}
                  IN  IF cs = {} THEN -1 ELSE (CHOOSE k \in cs : TRUE) - 1
\* Motif::lookup: column of a monomer of a QUERY (upper and lower case), -1 = InvalidMonomer
Lookup(kind, b) == IF b < 0 \/ b >= 127 THEN -1 ELSE IndexIn(Monos(kind), Upper(b))

Unit(kind, idx) == [b \in 1..K(kind) |-> IF b = idx + 1 THEN 1000 ELSE 0]
DnaRow(a, t, g, c) == <<a, t, g, c>>
\* Motif::incr: contribution of a monomer of a MOTIF sequence; << >> = InvalidMonomer
Incr(kind, b) ==
    IF kind = "dna" THEN
        CASE b = 65 -> DnaRow(1000, 0, 0, 0)        \* A
          [] b = 84 -> DnaRow(0, 1000, 0, 0)        \* T
          [] b = 71 -> DnaRow(0, 0, 1000, 0)        \* G
          [] b = 67 -> DnaRow(0, 0, 0, 1000)        \* C
          [] b = 77 -> DnaRow(500, 0, 0, 500)       \* M = A/C
          [] b = 82 -> DnaRow(500, 0, 500, 0)       \* R = A/G
          [] b = 87 -> DnaRow(500, 500, 0, 0)       \* W = A/T
          [] b = 83 -> DnaRow(0, 0, 500, 500)       \* S = G/C
          [] b = 89 -> DnaRow(0, 500, 0, 500)       \* Y = T/C
          [] b = 75 -> DnaRow(0, 500, 500, 0)       \* K = T/G
          [] b = 86 -> DnaRow(333, 0, 333, 333)     \* V = not T
          [] b = 72 -> DnaRow(333, 333, 0, 333)     \* H = not G
          [] b = 68 -> DnaRow(333, 333, 333, 0)     \* D = not C
          [] b = 66 -> DnaRow(0, 333, 333, 333)     \* B = not A
          [] b = 78 -> DnaRow(250, 250, 250, 250)   \* N
          [] b = 48 -> DnaRow(0, 0, 0, 0)           \* '0'
          [] OTHER -> << >>
    ELSE IF b = 88 THEN [k \in 1..20 |-> 50]        \* X
    ELSE IF Lookup(kind, b) = -1 THEN << >>
    ELSE Unit(kind, Lookup(kind, b))

\* ------------------------------------------------------------- construction
\* from_seqs(seqs, pseudos): pdef = 1 means None (DEF_PSEUDO = 0.5 for every monomer)
Pseudos(kind, pdef, ps) == IF pdef = 1 THEN [b \in 1..K(kind) |-> 500] ELSE ps

RECURSIVE FirstBadBase(_, _, _)
FirstBadBase(kind, sq, i) ==             \* -1 = none
    IF i > Len(sq) THEN -1
    ELSE IF Incr(kind, sq[i]) = << >> THEN sq[i] ELSE FirstBadBase(kind, sq, i + 1)

RECURSIVE SeqError(_, _, _)
SeqError(kind, seqs, k) ==               \* first error met while adding sequences k, k+1, ...
    IF k > Len(seqs) THEN [err |-> "", mono |-> -1]
    ELSE IF Len(seqs[k]) # Len(seqs[1]) THEN [err |-> "InconsistentLen", mono |-> -1]
    ELSE LET bad == FirstBadBase(kind, seqs[k], 1)
         IN  IF bad # -1 THEN [err |-> "InvalidMonomer", mono |-> bad]
             ELSE SeqError(kind, seqs, k + 1)

BuildError(kind, seqs, pdef, ps) ==
    IF pdef = 0 /\ Len(ps) # K(kind) THEN [err |-> "InvalidPseudos", mono |-> -1]
    ELSE IF Len(seqs) = 0 THEN [err |-> "EmptyMotif", mono |-> -1]
    ELSE SeqError(kind, seqs, 1)

RECURSIVE ColSum(_, _, _, _, _)
ColSum(kind, seqs, pos, b, k) ==         \* sum over sequences k.. of Incr(seq[pos])[b]
    IF k > Len(seqs) THEN 0 ELSE Incr(kind, seqs[k][pos])[b] + ColSum(kind, seqs, pos, b, k + 1)

RECURSIVE SumSeq(_, _, _)
SumSeq(sq, k, acc) == IF k > Len(sq) THEN acc ELSE SumSeq(sq, k + 1, acc + sq[k])

\* the motif built from error-free input
WeightsOf(kind, seqs, pdef, ps) ==
    LET p == Pseudos(kind, pdef, ps)
    IN  [pos \in 1..Len(seqs[1]) |-> [b \in 1..K(kind) |-> p[b] + ColSum(kind, seqs, pos, b, 1)]]
MotifOfWeights(kind, w) ==
    [kind |-> kind, len |-> Len(w), w |-> w, t |-> [pos \in 1..Len(w) |-> SumSeq(w[pos], 1, 0)]]
MotifOf(kind, seqs, pdef, ps) == MotifOfWeights(kind, WeightsOf(kind, seqs, pdef, ps))

\* every row total is positive (precondition of the normalisation: "no zeros")
WellFormed(m) == \A pos \in 1..m.len : m.t[pos] > 0

\* ------------------------------------------------------------------ scores
FP(w, t) == (w * S) \div t
ScoreFP(m, pos, idx) == FP(m.w[pos][idx + 1], m.t[pos])
RowMax(m, pos) == Max({m.w[pos][b] : b \in 1..K(m.kind)})
RowMin(m, pos) == Min({m.w[pos][b] : b \in 1..K(m.kind)})
MaxScoreFP(m) == SumSeq([pos \in 1..m.len |-> FP(RowMax(m, pos), m.t[pos])], 1, 0)
MinScoreFP(m) == SumSeq([pos \in 1..m.len |-> FP(RowMin(m, pos), m.t[pos])], 1, 0)
\* "information-free": every monomer equally likely at every position (also the empty motif)
IsNull(m) == \A pos \in 1..m.len : RowMax(m, pos) = RowMin(m, pos)

\* ------------------------------------------------------------------ search
RECURSIVE FirstInvalid(_, _, _)
FirstInvalid(kind, q, i) ==              \* leftmost invalid monomer of a query, -1 = none
    IF i > Len(q) THEN -1
    ELSE IF Lookup(kind, q[i]) = -1 THEN q[i] ELSE FirstInvalid(kind, q, i + 1)

\* window at 0-based start (the query is valid there)
WinScores(m, q, start) == [i \in 1..m.len |-> ScoreFP(m, i, Lookup(m.kind, q[start + i]))]
WinSum(m, q, start)    == SumSeq(WinScores(m, q, start), 1, 0)
WinIdx(m, q, start)    == [i \in 1..m.len |-> Lookup(m.kind, q[start + i])]
Starts(m, q) == 0..(Len(q) - m.len)
BestSum(m, q) == Max({WinSum(m, q, s) : s \in Starts(m, q)})
\* the first window with the largest fixed-point sum
FirstBest(m, q) == Min({s \in Starts(m, q) : WinSum(m, q, s) = BestSum(m, q)})

\* error of raw_score / score ("" = none), in the order of the code
RawError(m, q) ==
    IF Len(q) < m.len THEN [err |-> "QueryTooShort", mono |-> -1]
    ELSE IF m.len > 0 /\ FirstInvalid(m.kind, q, 1) # -1
         THEN [err |-> "InvalidMonomer", mono |-> FirstInvalid(m.kind, q, 1)]
    ELSE [err |-> "", mono |-> -1]
ScoreError(m, q) ==
    IF Len(q) < m.len THEN [err |-> "QueryTooShort", mono |-> -1]
    ELSE IF IsNull(m) THEN [err |-> "NullMotif", mono |-> -1]
    ELSE RawError(m, q)

\* is `loc` an acceptable best position?  No window is better by more than the quantisation of the
\* fixed-point sums, and no EARLIER window consists of the same monomers (then the floating-point
\* sums are identical and the code keeps the first one).
LocOK(m, q, loc) ==
    /\ loc \in Starts(m, q)
    /\ \A s \in Starts(m, q) : WinSum(m, q, s) <= WinSum(m, q, loc) + m.len + 1
    /\ \A s \in Starts(m, q) : s < loc => WinIdx(m, q, s) # WinIdx(m, q, loc)

\* reported per-position scores of the window at loc
ScoresOK(m, q, loc, sc) ==
    /\ Len(sc) = m.len
    /\ \A i \in 1..m.len : Within(sc[i], WinScores(m, q, loc)[i], 1)

\* normalised score (best - min) / (max - min) reported as round(x * S)
RatioOK(m, q, loc, x) ==
    LET d  == MaxScoreFP(m) - MinScoreFP(m)
        nn == WinSum(m, q, loc) - MinScoreFP(m)
    IN  Abs(x * d - nn * S) <= (3 * m.len + 3) * S + d

\* ------------------------------------------------- degenerate consensus
SortDesc(vals) == SortSeq(vals, LAMBDA a, b : a > b)
Two(a, b) ==                              \* IUPAC code of two different DNA bases
    LET st == {a, b} IN
    CASE st = {65, 67} -> 77  [] st = {65, 71} -> 82  [] st = {65, 84} -> 87
      [] st = {67, 71} -> 83  [] st = {67, 84} -> 89  [] st = {71, 84} -> 75  [] OTHER -> 0
AllBut(b) == CASE b = 84 -> 86 [] b = 71 -> 72 [] b = 67 -> 68 [] b = 65 -> 66 [] OTHER -> 0

\* set of letters the code may report for one position (a singleton unless a comparison is an exact tie)
ConsSet(m, pos) ==
    LET row == m.w[pos]  t == m.t[pos]  mon == Monos(m.kind)  kk == K(m.kind)
        v   == SortDesc(row)
        \* rule 1: the dominant monomer: > 50 % and > 2 x the runner-up
        r1t == 2 * v[1] >= t /\ v[1] >= 2 * v[2]          \* possibly true
        r1f == 2 * v[1] <= t \/ v[1] <= 2 * v[2]          \* possibly false
        top == {mon[b] : b \in {bb \in 1..kk : row[bb] = v[1]}}
    IN  IF m.kind = "prot"
        THEN (IF r1t THEN top ELSE {}) \cup (IF r1f THEN {88} ELSE {})
        ELSE
        LET r2t == 4 * (v[1] + v[2]) >= 3 * t
            r2f == 4 * (v[1] + v[2]) <= 3 * t
            pairs == {Two(mon[a], mon[b]) : a \in {aa \in 1..kk : row[aa] = v[1]},
                                            b \in {bb \in 1..kk : row[bb] = v[2]}} \ {0}
            \* rule 3: the rarest base is ~0 (< EPSILON = 1e-5)
            r3t == v[4] = 0 \/ (v[4] <= 20 /\ v[4] * 100000 <= t)
            r3f == v[4] # 0 /\ (v[4] > 20 \/ v[4] * 100000 >= t)
            last == {AllBut(mon[b]) : b \in {bb \in 1..kk : row[bb] = v[4]}}
        IN  (IF r1t THEN top ELSE {})
            \cup (IF r1f THEN (IF r2t THEN pairs ELSE {})
                          \cup (IF r2f THEN (IF r3t THEN last ELSE {}) \cup (IF r3f THEN {78} ELSE {})
                                ELSE {})
                  ELSE {})

ConsensusOK(m, cs) == Len(cs) = m.len /\ \A pos \in 1..m.len : cs[pos] \in ConsSet(m, pos)

\* ------------------------------------------------------ information content
\* log2(n) * 4096 for an integer n >= 1, by repeated squaring of a 14-bit mantissa
RECURSIVE FloorLog2(_, _)
FloorLog2(n, e) == IF n < 2 THEN e ELSE FloorLog2(n \div 2, e + 1)
RECURSIVE Pow2(_)
Pow2(e) == IF e <= 0 THEN 1 ELSE 2 * Pow2(e - 1)
RECURSIVE FracBits(_, _, _)
FracBits(xf, k, acc) ==                   \* xf = mantissa * 2^14 in [2^14, 2^15); k bits still to produce
    IF k = 0 THEN acc
    ELSE LET sq == (xf * xf) \div 16384
         IN  IF sq >= 32768 THEN FracBits(sq \div 2, k - 1, 2 * acc + 1)
             ELSE FracBits(sq, k - 1, 2 * acc)
Log2FP(n) == LET e  == FloorLog2(n, 0)
                 xf == IF e <= 14 THEN n * Pow2(14 - e) ELSE n \div Pow2(e - 14)     \* no overflow for any n < 2^31
             IN  e * 4096 + FracBits(xf, 12, 0)

\* -p log2 p in milli-bits for p = w / t
EntMilli(w, t) == IF w = 0 THEN 0 ELSE (((w * 10000) \div t) * (Log2FP(t) - Log2FP(w))) \div 40960
BitsMilli(kind) == IF kind = "dna" THEN 2000 ELSE 4322
InfoMilli(m) ==
    SumSeq([pos \in 1..m.len |->
              BitsMilli(m.kind) - SumSeq([b \in 1..K(m.kind) |-> EntMilli(m.w[pos][b], m.t[pos])], 1, 0)], 1, 0)
InfoTol(m) == (IF m.kind = "dna" THEN 15 ELSE 60) * m.len + 5

\* ---------------------------------------------------------------- machines
\* (a) from_seqs: pseudocount rows, then sequence by sequence, base by base
\* (b) raw_score: windows left to right, best-so-far registers (strict improvement)
\* The step operators are used by PssmMC (one action each).

\* add base `b` of the current sequence at position pos to the counts
AddBase(kind, counts, pos, b) ==
    [counts EXCEPT ![pos] = [k \in 1..K(kind) |-> @[k] + Incr(kind, b)[k]]]

\* one window of raw_score: total of the per-position scores, or the first invalid monomer in it
RECURSIVE WinScan(_, _, _, _, _)
WinScan(m, q, start, i, acc) ==           \* acc = scores of positions 1..i-1
    IF i > m.len THEN [bad |-> -1, sc |-> acc]
    ELSE LET idx == Lookup(m.kind, q[start + i])
         IN  IF idx = -1 THEN [bad |-> q[start + i], sc |-> acc]
             ELSE WinScan(m, q, start, i + 1, Append(acc, ScoreFP(m, i, idx)))
=============================================================================
