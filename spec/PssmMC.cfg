CONSTANTS
  Kind = "dna"
  MaxSeqs = 2
  MaxLen = 2
  MaxQ = 3
  MotifLetters <- LettersQuick
  QueryLetters <- QLettersQuick
  PseudoSet <- PseudosDna
SPECIFICATION Spec
INVARIANTS TypeOK BuildMeaning BuildResult ScanMeaning ScanResult NoStall
PROPERTY Progress
CHECK_DEADLOCK FALSE
