------------------------------- MODULE PssmMC -------------------------------
(***************************************************************************)
(* Exhaustive check of the two PSSM machines (shaped like                  *)
(* Motif::seqs_to_weights + normalize + calc_minmax and Motif::raw_score)  *)
(* against the definitions of Pssm.tla: for EVERY list of up to MaxSeqs    *)
(* motif sequences of length <= MaxLen over MotifLetters (IUPAC codes,     *)
(* '0', an invalid byte; equal and unequal lengths), every pseudocount     *)
(* choice in PseudoSet and every query of length <= MaxQ over QueryLetters.*)
(*                                                                         *)
(* One behaviour:                                                          *)
(*   CheckPseudos CheckEmpty ( SeqLen Base* SeqEnd )* Normalize MinMax     *)
(*   ScanStart(query) Window* ScanEnd          (or an early error exit)    *)
(***************************************************************************)
EXTENDS Pssm
CONSTANTS Kind, MaxSeqs, MaxLen, MaxQ, MotifLetters, QueryLetters, PseudoSet

\* candidate instantiations (picked by the .cfg files)
LettersQuick    == {65, 84, 87, 33}            \* A T W(=A/T) !
LettersThorough == {65, 84, 87, 48, 86, 33}    \* ... '0' V(= not T)
QLettersQuick    == {65, 84, 33}
QLettersThorough == {65, 84, 116, 71, 33}      \* ... t G
\* <<pdef, ps>>: None; one explicit vector; a vector of the wrong length
PseudosDna == {<<1, << >>>>, <<0, <<1000, 0, 0, 0>>>>, <<0, <<500, 500>>>>}

SeqsOver(L, n) == UNION {[1..k -> L] : k \in 0..n}
Inputs == {[seqs |-> ss, pdef |-> p[1], ps |-> p[2]] :
             ss \in UNION {[1..n -> SeqsOver(MotifLetters, MaxLen)] : n \in 0..MaxSeqs}, p \in PseudoSet}
Queries == SeqsOver(QueryLetters, MaxQ)

NoErr == [err |-> "", mono |-> -1]
NoMotif == [kind |-> Kind, len |-> 0, w |-> << >>, t |-> << >>]

VARIABLES inp, pc, k, pos, counts, err, m, mn, mx, q, start, bstart, bscore, bm, rerr
vars == <<inp, pc, k, pos, counts, err, m, mn, mx, q, start, bstart, bscore, bm, rerr>>

Init ==
    /\ inp \in Inputs
    /\ pc = "pseudos" /\ k = 0 /\ pos = 0 /\ counts = << >> /\ err = NoErr
    /\ m = NoMotif /\ mn = 0 /\ mx = 0
    /\ q = << >> /\ start = 0 /\ bstart = 0 /\ bscore = -1 /\ bm = << >> /\ rerr = NoErr

SeqLen0 == Len(inp.seqs[1])
Fail(e, mono) == /\ err' = [err |-> e, mono |-> mono] /\ pc' = "done"

\* ------------------------------------------------------------------ build
CheckPseudos ==
    /\ pc = "pseudos"
    /\ IF inp.pdef = 0 /\ Len(inp.ps) # K(Kind)
       THEN Fail("InvalidPseudos", -1)
       ELSE pc' = "empty" /\ UNCHANGED err
    /\ UNCHANGED <<inp, k, pos, counts, m, mn, mx, q, start, bstart, bscore, bm, rerr>>
CheckEmpty ==
    /\ pc = "empty"
    /\ IF Len(inp.seqs) = 0
       THEN Fail("EmptyMotif", -1) /\ UNCHANGED <<counts, k>>
       ELSE /\ counts' = [p \in 1..SeqLen0 |-> Pseudos(Kind, inp.pdef, inp.ps)]
            /\ k' = 1 /\ pc' = "seq" /\ UNCHANGED err
    /\ UNCHANGED <<inp, pos, m, mn, mx, q, start, bstart, bscore, bm, rerr>>
SeqLen ==
    /\ pc = "seq" /\ k <= Len(inp.seqs)
    /\ IF Len(inp.seqs[k]) # SeqLen0
       THEN Fail("InconsistentLen", -1) /\ UNCHANGED pos
       ELSE pos' = 1 /\ pc' = "base" /\ UNCHANGED err
    /\ UNCHANGED <<inp, k, counts, m, mn, mx, q, start, bstart, bscore, bm, rerr>>
Base ==
    /\ pc = "base" /\ pos <= SeqLen0
    /\ LET b == inp.seqs[k][pos] IN
       IF Incr(Kind, b) = << >>
       THEN Fail("InvalidMonomer", b) /\ UNCHANGED <<counts, pos>>
       ELSE counts' = AddBase(Kind, counts, pos, b) /\ pos' = pos + 1 /\ UNCHANGED <<pc, err>>
    /\ UNCHANGED <<inp, k, m, mn, mx, q, start, bstart, bscore, bm, rerr>>
SeqEnd ==
    /\ pc = "base" /\ pos > SeqLen0
    /\ k' = k + 1 /\ pc' = "seq"
    /\ UNCHANGED <<inp, pos, counts, err, m, mn, mx, q, start, bstart, bscore, bm, rerr>>
Normalize ==
    /\ pc = "seq" /\ k > Len(inp.seqs)
    /\ m' = MotifOfWeights(Kind, counts)
    /\ pc' = "minmax"
    /\ UNCHANGED <<inp, k, pos, counts, err, mn, mx, q, start, bstart, bscore, bm, rerr>>
MinMax ==
    /\ pc = "minmax"
    /\ mn' = SumSeq([p \in 1..m.len |-> Min({ScoreFP(m, p, b) : b \in 0..(K(Kind) - 1)})], 1, 0)
    /\ mx' = SumSeq([p \in 1..m.len |-> Max({ScoreFP(m, p, b) : b \in 0..(K(Kind) - 1)})], 1, 0)
    /\ pc' = "scan0"
    /\ UNCHANGED <<inp, k, pos, counts, err, m, q, start, bstart, bscore, bm, rerr>>

\* ------------------------------------------------------------------- scan
ScanStart ==
    /\ pc = "scan0"
    /\ \E qq \in Queries :
         /\ q' = qq
         /\ IF Len(qq) < m.len
            THEN rerr' = [err |-> "QueryTooShort", mono |-> -1] /\ pc' = "done"
            ELSE rerr' = rerr /\ pc' = "win"
    /\ start' = 0 /\ bstart' = 0 /\ bscore' = -1 /\ bm' = << >>
    /\ UNCHANGED <<inp, k, pos, counts, err, m, mn, mx>>
Window ==
    /\ pc = "win" /\ start <= Len(q) - m.len
    /\ LET r == WinScan(m, q, start, 1, << >>) IN
       IF r.bad # -1
       THEN /\ rerr' = [err |-> "InvalidMonomer", mono |-> r.bad] /\ pc' = "done"
            /\ UNCHANGED <<start, bstart, bscore, bm>>
       ELSE LET tot == SumSeq(r.sc, 1, 0) IN
            /\ IF tot > bscore
               THEN bscore' = tot /\ bstart' = start /\ bm' = r.sc
               ELSE UNCHANGED <<bscore, bstart, bm>>
            /\ start' = start + 1
            /\ UNCHANGED <<rerr, pc>>
    /\ UNCHANGED <<inp, k, pos, counts, err, m, mn, mx, q>>
ScanEnd ==
    /\ pc = "win" /\ start > Len(q) - m.len
    /\ pc' = "done"
    /\ UNCHANGED <<inp, k, pos, counts, err, m, mn, mx, q, start, bstart, bscore, bm, rerr>>

Next == CheckPseudos \/ CheckEmpty \/ SeqLen \/ Base \/ SeqEnd \/ Normalize \/ MinMax
        \/ ScanStart \/ Window \/ ScanEnd
Spec == Init /\ [][Next]_vars

\* ------------------------------------------------------------ invariants
Def == BuildError(Kind, inp.seqs, inp.pdef, inp.ps)
PrefixSeqs(n) == SubSeq(inp.seqs, 1, n)

TypeOK ==
    /\ pc \in {"pseudos", "empty", "seq", "base", "minmax", "scan0", "win", "done"}
    /\ err.err \in {"", "InvalidPseudos", "EmptyMotif", "InconsistentLen", "InvalidMonomer"}
    /\ rerr.err \in {"", "QueryTooShort", "InvalidMonomer"}

\* between two sequences the counts are the pseudocounts plus the contributions of the sequences added
BuildMeaning ==
    pc = "seq" => counts = [p \in 1..SeqLen0 |-> [b \in 1..K(Kind) |->
                              Pseudos(Kind, inp.pdef, inp.ps)[b] + ColSum(Kind, PrefixSeqs(k - 1), p, b, 1)]]
\* errors exactly when (and which) the definition says; otherwise the motif of the definition
BuildResult ==
    /\ (pc = "done" /\ err.err # "") => err = Def
    /\ pc \in {"minmax", "scan0", "win"} =>
          /\ Def = NoErr
          /\ m = MotifOf(Kind, inp.seqs, inp.pdef, inp.ps)
          /\ WellFormed(m)
    /\ pc \in {"scan0", "win"} => mn = MinScoreFP(m) /\ mx = MaxScoreFP(m) /\ (mn = mx <=> IsNull(m))

\* after the windows 0..start-1: the registers hold the first of the best windows seen so far
ScanMeaning ==
    pc = "win" =>
        /\ \A s \in 0..(start - 1) : \A i \in 1..m.len : Lookup(Kind, q[s + i]) # -1
        /\ IF start = 0 THEN bscore = -1
           ELSE LET seen == 0..(start - 1)
                    best == Max({WinSum(m, q, s) : s \in seen})
                IN  /\ bscore = best
                    /\ bstart = Min({s \in seen : WinSum(m, q, s) = best})
                    /\ bm = WinScores(m, q, bstart)
ScanResult ==
    (pc = "done" /\ err.err = "") =>
        /\ rerr = RawError(m, q)
        /\ rerr.err = "" =>
              /\ bstart = FirstBest(m, q) /\ bscore = BestSum(m, q)
              /\ LocOK(m, q, bstart) /\ ScoresOK(m, q, bstart, bm)
              /\ ScoreError(m, q).err \in {"", "NullMotif"}
              \* the normalised score lies in [0, 1]
              /\ bscore >= mn /\ bscore <= mx
              /\ ConsensusOK(m, [p \in 1..m.len |-> CHOOSE x \in ConsSet(m, p) : TRUE])

\* progress
PhaseNo == CASE pc = "pseudos" -> 0 [] pc = "empty" -> 1 [] pc \in {"seq", "base"} -> 2
             [] pc = "minmax" -> 3 [] pc = "scan0" -> 4 [] pc = "win" -> 5 [] OTHER -> 6
Rank == PhaseNo * 1000 + k * (MaxLen + 3) + (IF pc = "base" THEN pos ELSE 0) + start
Progress == [][Rank' > Rank]_vars
NoStall  == pc # "done" => ENABLED Next
=============================================================================
