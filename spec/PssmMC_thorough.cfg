CONSTANTS
  Kind = "dna"
  MaxSeqs = 2
  MaxLen = 2
  MaxQ = 4
  MotifLetters <- LettersThorough
  QueryLetters <- QLettersThorough
  PseudoSet <- PseudosDna
SPECIFICATION Spec
INVARIANTS TypeOK BuildMeaning BuildResult ScanMeaning ScanResult NoStall
PROPERTY Progress
CHECK_DEADLOCK FALSE
