------------------------------ MODULE PssmTrace ------------------------------
(* Trace validation for family "pssm" (X02).                                  *)
(* run.cfg = [kind, ctor, seqs, pdef, ps, w]: one DNAMotif / ProtMotif built  *)
(* by from_seqs(seqs, pseudos) (ctor "seqs"; pdef = 1: pseudos = None) or     *)
(* wrapped around the weight matrix w (ctor "array").  Counts in 1/1000.      *)
(* events:                                                                    *)
(*   build      -> err, mono, x, y | len, scores[pos][b], min, max  (x 10^4)  *)
(*   consensus  -> cs (bytes)                                                 *)
(*   info       -> milli (information content x 1000), nan                    *)
(*   raw_score(q) -> err, mono | loc, sum, scores                             *)
(*   score(q)     -> err, mono | loc, sum (normalised), scores                *)
(* Acceptance: Pssm.tla (errors exactly when and which the definition says;   *)
(* values within the fixed-point quantisation; best position = a maximal      *)
(* window that is not preceded by an identical window; consensus letter from  *)
(* the set the IUPAC rule allows).  Panic / dangling call: never explained.   *)
EXTENDS Pssm, Json, IOUtils

Rec == ndJsonDeserialize(IOEnv.TRACE)

VARIABLES run, idx, ok
vars == <<run, idx, ok>>

Def(cfg) == IF cfg.ctor = "array" THEN [err |-> "", mono |-> -1]
            ELSE BuildError(cfg.kind, cfg.seqs, cfg.pdef, cfg.ps)
MotifOfCfg(cfg) == IF cfg.ctor = "array" THEN MotifOfWeights(cfg.kind, cfg.w)
                   ELSE MotifOf(cfg.kind, cfg.seqs, cfg.pdef, cfg.ps)

ErrIs(r, d) == r.err = d.err /\ r.mono = d.mono

BuildOK(cfg, r) ==
    LET d == Def(cfg) IN
    /\ ErrIs(r, d)
    /\ d.err = "InvalidPseudos" => r.x = K(cfg.kind) /\ r.y = Len(cfg.ps)
    /\ d.err = "" =>
         LET m == MotifOfCfg(cfg) IN
         /\ r.len = m.len
         /\ Len(r.scores) = m.len
         /\ \A pos \in 1..m.len :
               /\ Len(r.scores[pos]) = K(m.kind)
               /\ \A b \in 1..K(m.kind) : Within(r.scores[pos][b], ScoreFP(m, pos, b - 1), 1)
         /\ Within(r.min, MinScoreFP(m), m.len + 1)
         /\ Within(r.max, MaxScoreFP(m), m.len + 1)

SearchOK(m, op, q, r) ==
    LET d == IF op = "score" THEN ScoreError(m, q) ELSE RawError(m, q) IN
    /\ ErrIs(r, d)
    /\ d.err = "QueryTooShort" => r.x = m.len /\ r.y = Len(q)
    /\ d.err = "" =>
         /\ LocOK(m, q, r.loc)
         /\ ScoresOK(m, q, r.loc, r.scores)
         /\ IF op = "score" THEN RatioOK(m, q, r.loc, r.sum) /\ r.sum >= -1 /\ r.sum <= S + 1
            ELSE Within(r.sum, WinSum(m, q, r.loc), m.len + 1)

Explains(cfg, e) ==
    LET r == e.r  op == e.c.op IN
    /\ r.st = "ok"
    /\ CASE op = "build" -> BuildOK(cfg, r)
         [] op = "consensus" -> Def(cfg).err = "" /\ ConsensusOK(MotifOfCfg(cfg), r.cs)
         [] op = "info" -> /\ Def(cfg).err = "" /\ r.nan = 0
                           /\ LET m == MotifOfCfg(cfg) IN Within(r.milli, InfoMilli(m), InfoTol(m))
         [] op \in {"raw_score", "score"} ->
                Def(cfg).err = "" /\ SearchOK(MotifOfCfg(cfg), op, e.c.a.q, r)
         [] OTHER -> FALSE

Init == run \in 1..Len(Rec) /\ idx = 0 /\ ok = TRUE
Next ==
    /\ ok /\ idx < Len(Rec[run].ev)
    /\ LET good == Explains(Rec[run].cfg, Rec[run].ev[idx + 1])
       IN  /\ ok' = good
           /\ IF good THEN TRUE ELSE PrintT(<<"REJECT", run, idx + 1>>)
    /\ idx' = idx + 1
    /\ UNCHANGED run
Spec == Init /\ [][Next]_vars
=============================================================================
