-------------------------------- MODULE QGram --------------------------------
(***************************************************************************)
(* C19 (first half) -- q-gram rank codes (src/alphabets/mod.rs:            *)
(* RankTransform::{qgrams,rev_qgrams}) and the q-gram index                *)
(* (src/data_structures/qgram_index.rs).                                   *)
(*                                                                         *)
(* Definition layer                                                        *)
(*   Bits(sigma)            ceil(log2 sigma): width of one rank            *)
(*   Digits / Code          ranks of the symbols of a q-gram / their       *)
(*                          bit-packed value (first symbol most            *)
(*                          significant)                                   *)
(*   Occ / Positions        ascending text positions of a q-gram; nothing  *)
(*                          when it occurs more than max_count times       *)
(*   Hits                   pairs <<i,p>>: pattern q-gram at i = unmasked  *)
(*                          text q-gram at p                               *)
(*   MatchSet               per diagonal p-i with >= min_count hits:       *)
(*                          count, first start and last stop in pattern    *)
(*                          and text                                       *)
(*   ExactMatchSet          maximal runs of consecutive hits on a diagonal *)
(*                          (= maximal exact matches of length >= q when   *)
(*                          nothing is masked: lemma in QGramMC)           *)
(* Machine layer: step operators of the index (table of 2^(bits*q)         *)
(* addresses, count / mask / prescan / fill passes, per-hit diagonal       *)
(* merging); the state machine over them is QGramMC.tla.                   *)
(* Positions are 0-based as in the code; text[p+1] is position p.          *)
(***************************************************************************)
EXTENDS Naturals, Integers, Sequences, FiniteSets

Inf == -1                       \* max_count = usize::MAX in the traces

RECURSIVE Pow(_, _)
Pow(b, e) == IF e = 0 THEN 1 ELSE b * Pow(b, e - 1)

\* smallest b with 2^b >= sigma  ((sigma as f32).log2().ceil()); 0 for sigma = 1
RECURSIVE BitsFrom(_, _)
BitsFrom(sigma, b) == IF Pow(2, b) >= sigma THEN b ELSE BitsFrom(sigma, b + 1)
Bits(sigma) == BitsFrom(sigma, 0)

\* a q-gram code fits the machine word (precondition of qgrams / rev_qgrams / QGramIndex); for a
\* single-symbol alphabet bits = 0 and every q >= 1 is legal
WordBits == 64
Legal(sigma, q) == q >= 1 /\ Bits(sigma) * q <= WordBits

Members(syms) == {syms[i] : i \in 1..Len(syms)}
RankOf(A, a) == Cardinality({x \in A : x < a})

\* -------------------------------------------------------------------- codes
Digits(A, g) == [i \in 1..Len(g) |-> RankOf(A, g[i])]
RECURSIVE PackFrom(_, _, _, _)
PackFrom(d, w, i, acc) == IF i > Len(d) THEN acc ELSE PackFrom(d, w, i + 1, acc * w + d[i])
\* value of the digit string d in base 2^bits
Pack(d, bits) == PackFrom(d, Pow(2, bits), 1, 0)
Code(A, g) == Pack(Digits(A, g), Bits(Cardinality(A)))

NGrams(t, q) == IF Len(t) >= q THEN Len(t) - q + 1 ELSE 0
GramAt(t, q, p) == SubSeq(t, p + 1, p + q)                  \* p 0-based, p + q <= Len(t)
\* forward iteration: q-gram at 0, 1, ...; reverse iteration: the same list backwards
FwdGrams(t, q) == [i \in 1..NGrams(t, q) |-> GramAt(t, q, i - 1)]
RevGrams(t, q) == [i \in 1..NGrams(t, q) |-> GramAt(t, q, NGrams(t, q) - i)]

\* ------------------------------------------------------------------- index
Occ(t, q, g) ==
    SelectSeq([i \in 1..NGrams(t, q) |-> i - 1], LAMBDA p : GramAt(t, q, p) = g)
Masked(t, q, g, maxc) == maxc # Inf /\ Len(Occ(t, q, g)) > maxc
Positions(t, q, g, maxc) == IF Masked(t, q, g, maxc) THEN << >> ELSE Occ(t, q, g)

\* text positions whose q-gram is masked (one pass per event)
MaskedPos(t, q, maxc) ==
    IF maxc = Inf THEN {}
    ELSE {p \in 0..(NGrams(t, q) - 1) : Len(Occ(t, q, GramAt(t, q, p))) > maxc}

Hits(t, pat, q, maxc) ==
    LET mp == MaskedPos(t, q, maxc) IN
    {h \in (0..(NGrams(pat, q) - 1)) \X (0..(NGrams(t, q) - 1)) :
        h[2] \notin mp /\ GramAt(pat, q, h[1]) = GramAt(t, q, h[2])}

MinOf(S) == CHOOSE x \in S : \A y \in S : x <= y
MaxOf(S) == CHOOSE x \in S : \A y \in S : y <= x

\* QGramIndex::matches -- one record per diagonal with at least max(1,min_count) hits
MatchSetDef(t, pat, q, maxc, mincount) ==
    LET H == Hits(t, pat, q, maxc)
        D == {h[2] - h[1] : h \in H}
        On(d) == {h[1] : h \in {x \in H : x[2] - x[1] = d}}
    IN  {[ps |-> MinOf(On(d)), pe |-> MaxOf(On(d)) + q,
          ts |-> MinOf(On(d)) + d, te |-> MaxOf(On(d)) + d + q,
          count |-> Cardinality(On(d))] : d \in {x \in D : Cardinality(On(x)) >= mincount}}

\* QGramIndex::exact_matches -- maximal runs i1..i2 of hits on one diagonal
ExactMatchSetDef(t, pat, q, maxc) ==
    LET H == Hits(t, pat, q, maxc)
        RunStarts == {h \in H : <<h[1] - 1, h[2] - 1>> \notin H}
        RunLen(h) == MinOf({l \in 1..(NGrams(pat, q) + 1) : <<h[1] + l, h[2] + l>> \notin H})
    IN  {[ps |-> h[1], pe |-> h[1] + RunLen(h) - 1 + q,
          ts |-> h[2], te |-> h[2] + RunLen(h) - 1 + q] : h \in RunStarts}

\* The same two sets computed diagonal by diagonal (each pattern/text pair is looked at once; this
\* is what the trace specification evaluates -- lemma FastLemma in QGramMC: equal to the *Def forms)
DiagRange(t, pat, q) ==
    IF NGrams(pat, q) = 0 \/ NGrams(t, q) = 0 THEN {} ELSE (1 - NGrams(pat, q))..(NGrams(t, q) - 1)
\* pattern positions i with a hit <<i, i+d>>
DiagHits(t, pat, q, mp, d) ==
    {i \in (IF d < 0 THEN 0 - d ELSE 0)..(IF NGrams(t, q) - 1 - d < NGrams(pat, q) - 1
                                           THEN NGrams(t, q) - 1 - d ELSE NGrams(pat, q) - 1) :
        (i + d) \notin mp /\ GramAt(pat, q, i) = GramAt(t, q, i + d)}
MatchRec(on, d, q) ==
    IF on = {} THEN [ps |-> 0, pe |-> 0, ts |-> 0, te |-> 0, count |-> 0]
    ELSE [ps |-> MinOf(on), pe |-> MaxOf(on) + q, ts |-> MinOf(on) + d, te |-> MaxOf(on) + d + q,
          count |-> Cardinality(on)]
\* (mp = MaskedPos(t,q,maxc): a property of the index, computed once per index object on traces)
MatchSetMp(t, pat, q, mp, mincount) ==
    {r \in {MatchRec(DiagHits(t, pat, q, mp, d), d, q) : d \in DiagRange(t, pat, q)} :
        r.count >= 1 /\ r.count >= mincount}
MatchSet(t, pat, q, maxc, mincount) == MatchSetMp(t, pat, q, MaskedPos(t, q, maxc), mincount)
\* runs of consecutive positions in `on`
RunsOf(on, d, q) ==
    {[ps |-> i, pe |-> MinOf({j \in on : j >= i /\ (j + 1) \notin on}) + q,
      ts |-> i + d, te |-> MinOf({j \in on : j >= i /\ (j + 1) \notin on}) + d + q] :
        i \in {x \in on : (x - 1) \notin on}}
ExactMatchSetMp(t, pat, q, mp) ==
    UNION {RunsOf(DiagHits(t, pat, q, mp, d), d, q) : d \in DiagRange(t, pat, q)}
ExactMatchSet(t, pat, q, maxc) == ExactMatchSetMp(t, pat, q, MaskedPos(t, q, maxc))

\* the textbook notion: maximal exact matches of length >= q between pattern and text
MaximalExactMatches(t, pat, q) ==
    LET Eq(i, p, l) == /\ i + l <= Len(pat) /\ p + l <= Len(t)
                       /\ \A x \in 1..l : pat[i + x] = t[p + x]
        Same(i, p)  == i >= 0 /\ p >= 0 /\ i < Len(pat) /\ p < Len(t) /\ pat[i + 1] = t[p + 1]
    IN  {[ps |-> i, pe |-> i + l, ts |-> p, te |-> p + l] :
            <<i, p, l>> \in {x \in (0..Len(pat)) \X (0..Len(t)) \X (q..Len(pat)) :
                                /\ Eq(x[1], x[2], x[3])
                                /\ ~Same(x[1] - 1, x[2] - 1)
                                /\ ~Same(x[1] + x[3], x[2] + x[3])}}

\* a reported list equals a set of records: same elements, nothing twice
ListIsSet(v, S) == Len(v) = Cardinality(S) /\ {v[i] : i \in 1..Len(v)} = S

\* ------------------------------------------------ machine: step operators
\* number of addressable q-gram codes. "bits": 2^(bits*q), every bit-packed code fits (the code after
\* the D4 repair); "sigma": sigma^q as the code had it -- too small for sigma not a power of two.
TableSize(mode, sigma, q) == IF mode = "sigma" THEN Pow(sigma, q) ELSE Pow(2, Bits(sigma) * q)

\* QGrams::qgram_push: shift in one rank, keep q*bits bits
PushCode(code, rank, bits, q) == (code * Pow(2, bits) + rank) % Pow(2, bits * q)
\* RevQGrams::qgram_push_rev
PushCodeRev(code, rank, bits, q) == (code \div Pow(2, bits)) + rank * Pow(2, (q - 1) * bits)

\* utils::prescan with + : exclusive prefix sums
RECURSIVE PrescanFrom(_, _, _, _)
PrescanFrom(a, i, s, acc) == IF i > Len(a) THEN acc ELSE PrescanFrom(a, i + 1, s + a[i], Append(acc, s))
Prescan(a) == PrescanFrom(a, 1, 0, << >>)

\* one hit (i,p) of QGramIndex::matches merged into the diagonal map `dm` (function on its DOMAIN)
MergeHit(dm, i, p, q) ==
    LET d == p - i IN
    IF d \notin DOMAIN dm
    THEN [x \in DOMAIN dm \cup {d} |->
            IF x = d THEN [ps |-> i, pe |-> i + q, ts |-> p, te |-> p + q, count |-> 1] ELSE dm[x]]
    ELSE [dm EXCEPT ![d] = [@ EXCEPT !.pe = i + q, !.te = p + q, !.count = @ + 1]]

\* one hit of exact_matches: returns <<new map, finished matches to append>>
MergeExact(dm, i, p, q) ==
    LET d == p - i IN
    IF d \notin DOMAIN dm
    THEN << [x \in DOMAIN dm \cup {d} |->
               IF x = d THEN [ps |-> i, pe |-> i + q, ts |-> p, te |-> p + q] ELSE dm[x]], << >> >>
    ELSE IF dm[d].pe - q + 1 # i
         THEN << [dm EXCEPT ![d] = [ps |-> i, pe |-> i + q, ts |-> p, te |-> p + q]], << dm[d] >> >>
         ELSE << [dm EXCEPT ![d] = [@ EXCEPT !.pe = i + q, !.te = p + q]], << >> >>
=============================================================================
