------------------------------- MODULE QGramMC -------------------------------
(***************************************************************************)
(* The q-gram index machine of qgram_index.rs for every alphabet in        *)
(* Alphabets (sizes 1, 2, 3: a non-power-of-two included), every text up   *)
(* to MaxT, q in Qs, max_count in MaxCounts, every pattern up to MaxP.     *)
(*   count    rolling bit-packed code over the text (QGrams iterator),     *)
(*            address[code] += 1                                           *)
(*   scan     mask counts > max_count, exclusive prefix sums (prescan),    *)
(*            allocate pos / offset                                        *)
(*   fill     second pass: pos[address[code] + offset[code]] = i for the   *)
(*            unmasked q-grams                                             *)
(*   query    matches / exact_matches: rolling code over the pattern, for  *)
(*            every hit (i,p) of qgram_matches(code) one merge step into   *)
(*            the per-diagonal map                                         *)
(* TableMode = "bits" is the code after the D4 repair; with "sigma" the    *)
(* machine reaches phase "oob" (index out of bounds) for |A| = 3.          *)
(***************************************************************************)
EXTENDS QGram, TLC
CONSTANTS Alphabets, MaxT, MaxP, Qs, MaxCounts, MinCounts, TableMode

VARIABLES A, text, q, maxc, phase, addr, pos, offs, cur, code, pat, kind, hq, dm, fin, res, minc
vars == <<A, text, q, maxc, phase, addr, pos, offs, cur, code, pat, kind, hq, dm, fin, res, minc>>

\* for the cfg files: alphabets of size 1, 2, 3 (bytes need not be contiguous); max_count 1, 2, none
AlphabetsDef == {{7}, {7, 9}, {7, 9, 200}}
MaxCountsDef == {1, 2, Inf}
MaxCountsQuick == {1, Inf}

Sigma == Cardinality(A)
B == Bits(Sigma)
TSize == TableSize(TableMode, Sigma, q)
Strings(S, lo, hi) == UNION {[1..n -> S] : n \in lo..hi}
Zeros(n) == [i \in 1..n |-> 0]
EmptyMap == [x \in {} |-> 0]

Init ==
    /\ A \in Alphabets /\ q \in Qs /\ maxc \in MaxCounts
    /\ text \in Strings(A, 0, MaxT)
    /\ phase = "count" /\ addr = Zeros(TSize + 1) /\ pos = << >> /\ offs = << >>
    /\ cur = 0 /\ code = 0
    /\ pat = << >> /\ kind = "none" /\ hq = << >> /\ dm = EmptyMap /\ fin = << >> /\ res = {} /\ minc = 0

\* ------------------------------------------------------------------ build
CountStep ==
    /\ phase = "count" /\ cur < Len(text)
    /\ LET c2 == PushCode(code, RankOf(A, text[cur + 1]), B, q) IN
       /\ code' = c2
       /\ IF cur + 1 >= q
          THEN IF c2 + 1 > Len(addr) - 1                \* qgram < qgram_count must hold (address has count+1 slots)
               THEN phase' = "oob" /\ UNCHANGED addr
               ELSE addr' = [addr EXCEPT ![c2 + 1] = @ + 1] /\ UNCHANGED phase
          ELSE UNCHANGED <<addr, phase>>
    /\ cur' = cur + 1
    /\ UNCHANGED <<A, text, q, maxc, pos, offs, pat, kind, hq, dm, fin, res, minc>>

ScanStep ==
    /\ phase = "count" /\ cur = Len(text)
    /\ LET masked == [i \in 1..Len(addr) |-> IF maxc # Inf /\ addr[i] > maxc THEN 0 ELSE addr[i]]
           ps == Prescan(masked)
       IN  /\ addr' = ps
           /\ pos' = Zeros(ps[Len(ps)])
    /\ offs' = Zeros(TSize)
    /\ phase' = "fill" /\ cur' = 0 /\ code' = 0
    /\ UNCHANGED <<A, text, q, maxc, pat, kind, hq, dm, fin, res, minc>>

FillStep ==
    /\ phase = "fill" /\ cur < Len(text)
    /\ LET c2 == PushCode(code, RankOf(A, text[cur + 1]), B, q)
           i  == cur + 1 - q                                  \* index of this q-gram
       IN  /\ code' = c2
           /\ IF cur + 1 >= q /\ addr[c2 + 2] - addr[c2 + 1] # 0
              THEN /\ pos' = [pos EXCEPT ![addr[c2 + 1] + offs[c2 + 1] + 1] = i]
                   /\ offs' = [offs EXCEPT ![c2 + 1] = @ + 1]
              ELSE UNCHANGED <<pos, offs>>
    /\ cur' = cur + 1
    /\ UNCHANGED <<A, text, q, maxc, phase, addr, pat, kind, hq, dm, fin, res, minc>>

FillDone ==
    /\ phase = "fill" /\ cur = Len(text)
    /\ phase' = "idle"
    /\ UNCHANGED <<A, text, q, maxc, addr, pos, offs, cur, code, pat, kind, hq, dm, fin, res, minc>>

\* ------------------------------------------------------------------ query
QGramMatches(c) == SubSeq(pos, addr[c + 1] + 1, addr[c + 2])

StartQuery(k, p) ==
    /\ phase = "idle"
    /\ kind' = k /\ pat' = p /\ phase' = "query" /\ cur' = 0 /\ code' = 0
    /\ hq' = << >> /\ dm' = EmptyMap /\ fin' = << >> /\ res' = {}
    /\ UNCHANGED <<A, text, q, maxc, addr, pos, offs, minc>>

\* advance the pattern's rolling code by one symbol; a complete q-gram loads its position list
NextGram ==
    /\ phase = "query" /\ hq = << >> /\ cur < Len(pat)
    /\ LET c2 == PushCode(code, RankOf(A, pat[cur + 1]), B, q) IN
       /\ code' = c2
       /\ hq' = IF cur + 1 >= q THEN QGramMatches(c2) ELSE << >>
    /\ cur' = cur + 1
    /\ UNCHANGED <<A, text, q, maxc, phase, addr, pos, offs, pat, kind, dm, fin, res, minc>>

HitStep ==
    /\ phase = "query" /\ hq # << >>
    /\ LET i == cur - q
           p == Head(hq)
       IN  IF kind = "matches"
           THEN dm' = MergeHit(dm, i, p, q) /\ UNCHANGED fin
           ELSE LET r == MergeExact(dm, i, p, q) IN dm' = r[1] /\ fin' = fin \o r[2]
    /\ hq' = Tail(hq)
    /\ UNCHANGED <<A, text, q, maxc, phase, addr, pos, offs, cur, code, pat, kind, res, minc>>

Finish(m) ==
    /\ phase = "query" /\ hq = << >> /\ cur = Len(pat)
    /\ res' = IF kind = "matches"
              THEN {dm[d] : d \in {x \in DOMAIN dm : dm[x].count >= m}}
              ELSE {fin[i] : i \in 1..Len(fin)} \cup {dm[d] : d \in DOMAIN dm}
    /\ phase' = "done" /\ minc' = (IF kind = "matches" THEN m ELSE 0)
    /\ UNCHANGED <<A, text, q, maxc, addr, pos, offs, cur, code, pat, kind, hq, dm, fin>>

Next ==
    \/ CountStep \/ ScanStep \/ FillStep \/ FillDone \/ NextGram \/ HitStep
    \/ \E k \in {"matches", "exact"} : \E p \in Strings(A, 0, MaxP) : StartQuery(k, p)
    \/ \E m \in MinCounts : Finish(m)
Spec == Init /\ [][Next]_vars

\* ------------------------------------------------------------- invariants
IsDone == phase = "done"
AllGrams == [1..q -> A]

NeverOutOfBounds == phase # "oob"

\* the rolling code is the packed code of the last q symbols
Rolling ==
    /\ (phase \in {"count", "fill"} /\ cur >= q) => code = Code(A, SubSeq(text, cur - q + 1, cur))
    /\ (phase = "query" /\ cur >= q) => code = Code(A, SubSeq(pat, cur - q + 1, cur))

\* counting pass: address[code] = occurrences among the q-grams read so far
Counting == phase = "count" =>
    \A g \in AllGrams : addr[Code(A, g) + 1] = Len(Occ(SubSeq(text, 1, cur), q, g))

\* what the finished index answers
IndexMeaning == phase = "idle" =>             \* (the index is not touched by the queries)
    \A g \in AllGrams : QGramMatches(Code(A, g)) = Positions(text, q, g, maxc)

\* filling pass: every unmasked q-gram has its first offs[] positions in place
Filling == phase = "fill" =>
    \A g \in AllGrams :
        LET c == Code(A, g)
            want == Positions(text, q, g, maxc)
            have == Len(SelectSeq(want, LAMBDA p : p + q <= cur))
        IN  /\ addr[c + 2] - addr[c + 1] = Len(want)
            /\ offs[c + 1] = have
            /\ SubSeq(pos, addr[c + 1] + 1, addr[c + 1] + have) = SubSeq(want, 1, have)

\* hits merged so far
Processed ==
    LET gi == cur - q IN
    {h \in Hits(text, pat, q, maxc) :
        h[1] < gi \/ (h[1] = gi /\ \A x \in 1..Len(hq) : hq[x] # h[2])}
Merging == (phase = "query" /\ kind = "matches") =>
    /\ DOMAIN dm = {h[2] - h[1] : h \in Processed}
    /\ \A d \in DOMAIN dm : dm[d].count = Cardinality({h \in Processed : h[2] - h[1] = d})

Result == IsDone =>
    IF kind = "matches" THEN res = MatchSetDef(text, pat, q, maxc, minc)
    ELSE res = ExactMatchSetDef(text, pat, q, maxc)

\* the diagonal-by-diagonal forms used on traces equal the definitions over the hit set
FastLemma == IsDone =>
    /\ \A m \in MinCounts \cup {0} : MatchSet(text, pat, q, maxc, m) = MatchSetDef(text, pat, q, maxc, m)
    /\ ExactMatchSet(text, pat, q, maxc) = ExactMatchSetDef(text, pat, q, maxc)

\* lemmas about the definition layer
ExactIsMaximal == (IsDone /\ kind = "exact" /\ maxc = Inf) => res = MaximalExactMatches(text, pat, q)

RECURSIVE FwdCodes(_, _, _, _)
FwdCodes(t, i, c, acc) ==
    IF i > Len(t) THEN acc
    ELSE LET c2 == PushCode(c, RankOf(A, t[i]), B, q)
         IN  FwdCodes(t, i + 1, c2, IF i >= q THEN Append(acc, c2) ELSE acc)
RECURSIVE RevCodes(_, _, _, _)
RevCodes(t, i, c, acc) ==                    \* i counts symbols taken from the back
    IF i > Len(t) THEN acc
    ELSE LET c2 == PushCodeRev(c, RankOf(A, t[Len(t) + 1 - i]), B, q)
         IN  RevCodes(t, i + 1, c2, IF i >= q THEN Append(acc, c2) ELSE acc)
CodeLemmas == phase = "idle" =>
    /\ Legal(Sigma, q) /\ (Sigma = 1 => \A qq \in {1, 64, 65, 200} : Legal(1, qq)) /\ ~Legal(2, 65) /\ ~Legal(3, 33)
    /\ \A g1 \in AllGrams : \A g2 \in AllGrams : Code(A, g1) = Code(A, g2) => g1 = g2        \* injective
    /\ \A g \in AllGrams : Code(A, g) < TableSize("bits", Sigma, q)
    /\ FwdCodes(text, 1, 0, << >>) = [i \in 1..NGrams(text, q) |-> Code(A, FwdGrams(text, q)[i])]
    /\ RevCodes(text, 1, 0, << >>) = [i \in 1..NGrams(text, q) |-> Code(A, RevGrams(text, q)[i])]
    \* reverse iteration mirrors forward iteration
    /\ \A i \in 1..NGrams(text, q) :
          RevCodes(text, 1, 0, << >>)[i] = FwdCodes(text, 1, 0, << >>)[NGrams(text, q) + 1 - i]

Measure ==
    CASE phase = "count" -> 1000 + (Len(text) - cur)
      [] phase = "fill"  -> 900 + (Len(text) - cur)
      [] phase = "idle"  -> 800
      [] phase = "query" -> 10 + (Len(pat) - cur) * (MaxT + 2) + Len(hq)
      [] OTHER -> 0
Progress == [][Measure' < Measure]_vars
=============================================================================
