CONSTANTS
  Alphabets <- AlphabetsDef
  MaxT = 5
  MaxP = 3
  Qs = {1, 2}
  MaxCounts <- MaxCountsDef
  MinCounts = {1, 2}
  TableMode = "bits"
SPECIFICATION Spec
INVARIANTS NeverOutOfBounds Rolling Counting IndexMeaning Filling Merging Result FastLemma ExactIsMaximal CodeLemmas
PROPERTY Progress
CHECK_DEADLOCK FALSE
