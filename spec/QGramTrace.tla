------------------------------ MODULE QGramTrace ------------------------------
(* Trace validation for the family "qgram" (C19).                            *)
(*  cfg.kind = "index": cfg = [alpha, q, text, max_count (-1 = none)] = one  *)
(*     QGramIndex; events new | qgram_matches(g) -> v | matches(p,min_count) *)
(*     -> v = list of [ps,pe,ts,te,count] | exact_matches(p) -> v = list of  *)
(*     [ps,pe,ts,te]  (lists in hash-map order: compared as sets, no         *)
(*     duplicates)                                                           *)
(*  cfg.kind = "codes": cfg = [alpha, q] = one RankTransform; events         *)
(*     codes(t) / rev_codes(t) -> d = the code of every q-gram split into q  *)
(*     fields of `bits` bits (most significant first), hi = 1 iff bits above *)
(*     q*bits are set, v = the codes as integers when q*bits <= 30 (else []) *)
EXTENDS QGram, TLC, Json, IOUtils

Rec == ndJsonDeserialize(IOEnv.TRACE)

VARIABLES run, idx, ok, st       \* st: text positions whose q-gram is masked by max_count (set by `new`)
vars == <<run, idx, ok, st>>

ExplainsIndex(cfg, c, r, mp) ==
    LET A == Members(cfg.alpha) IN
    /\ r.st = "ok"
    /\ CASE c.op = "new" -> TRUE
         [] c.op = "qgram_matches" -> r.v = Positions(cfg.text, cfg.q, c.a.g, cfg.max_count)
         [] c.op = "matches" ->
              ListIsSet(r.v, MatchSetMp(cfg.text, c.a.p, cfg.q, mp, c.a.min_count))
         [] c.op = "exact_matches" ->
              ListIsSet(r.v, ExactMatchSetMp(cfg.text, c.a.p, cfg.q, mp))
         [] OTHER -> FALSE

CodesOk(A, q, grams, r) ==
    LET bits == Bits(Cardinality(A))
        n == Len(grams)
    IN  /\ Len(r.d) = n /\ Len(r.hi) = n
        /\ \A i \in 1..n : r.d[i] = Digits(A, grams[i]) /\ r.hi[i] = 0
        /\ IF bits * q <= 30
           THEN Len(r.v) = n /\ \A i \in 1..n : r.v[i] = Code(A, grams[i])
           ELSE r.v = << >>

ExplainsCodes(cfg, c, r) ==
    LET A == Members(cfg.alpha) IN
    /\ r.st = "ok"
    /\ CASE c.op = "codes"     -> CodesOk(A, cfg.q, FwdGrams(c.a.t, cfg.q), r)
         [] c.op = "rev_codes" -> CodesOk(A, cfg.q, RevGrams(c.a.t, cfg.q), r)
         [] OTHER -> FALSE

Explains(cfg, e, mp) ==
    /\ Legal(Cardinality(Members(cfg.alpha)), cfg.q)            \* (precondition; the drivers generate nothing else)
    /\ CASE cfg.kind = "index" -> ExplainsIndex(cfg, e.c, e.r, mp)
      [] cfg.kind = "codes" -> ExplainsCodes(cfg, e.c, e.r)
      [] OTHER -> FALSE

After(cfg, e, mp) ==
    IF cfg.kind = "index" /\ e.c.op = "new" THEN MaskedPos(cfg.text, cfg.q, cfg.max_count) ELSE mp

Init == run \in 1..Len(Rec) /\ idx = 0 /\ ok = TRUE /\ st = {}
Next ==
    /\ ok /\ idx < Len(Rec[run].ev)
    /\ LET good == Explains(Rec[run].cfg, Rec[run].ev[idx + 1], st)
       IN  /\ ok' = good
           /\ st' = IF good THEN After(Rec[run].cfg, Rec[run].ev[idx + 1], st) ELSE st
           /\ IF good THEN TRUE ELSE PrintT(<<"REJECT", run, idx + 1>>)
    /\ idx' = idx + 1
    /\ UNCHANGED run
Spec == Init /\ [][Next]_vars
=============================================================================
