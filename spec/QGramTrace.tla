------------------------------ MODULE QGramTrace ------------------------------
(* Trace validation for the family "qgram" (C19).                            *)
(*  cfg.kind = "index": cfg = [alpha, q, text, max_count (-1 = none)] = one  *)
(*     QGramIndex; events new | qgram_matches(g) -> v | matches(p,min_count) *)
(*     -> v = list of [ps,pe,ts,te,count] | exact_matches(p) -> v = list of  *)
(*     [ps,pe,ts,te]  (lists in hash-map order: compared as sets, no         *)
(*     duplicates)                                                           *)
(*  cfg.kind = "codes": cfg = [alpha, q] = one RankTransform; events         *)
(*     codes(t) / rev_codes(t) -> d = the code of every q-gram split into q  *)
(*     fields of `bits` bits (most significant first), hi = 1 iff bits above *)
(*     q*bits are set, v = the codes as integers when q*bits <= 30 (else []) *)
EXTENDS QGram, TLC, Json, IOUtils

Rec == ndJsonDeserialize(IOEnv.TRACE)

VARIABLES run, idx, ok, st       \* st: text positions whose q-gram is masked by max_count (set by `new`)
vars == <<run, idx, ok, st>>

ExplainsIndex(cfg, c, r, mp) ==
    LET A == Members(cfg.alpha) IN
    /\ r.st = "ok"
    /\ CASE c.op \in {"new", "clone", "serde", "clone_from"} -> TRUE     \* (queries go to either object)
         [] c.op = "qgram_matches" -> r.v = Positions(cfg.text, cfg.q, c.a.g, cfg.max_count)
         [] c.op = "matches" ->
              ListIsSet(r.v, MatchSetMp(cfg.text, c.a.p, cfg.q, mp, c.a.min_count))
         [] c.op = "exact_matches" ->
              ListIsSet(r.v, ExactMatchSetMp(cfg.text, c.a.p, cfg.q, mp))
         [] OTHER -> FALSE

CodesOk(A, q, grams, r) ==
    LET bits == Bits(Cardinality(A))
        n == Len(grams)
    IN  /\ Len(r.d) = n /\ Len(r.hi) = n
        /\ \A i \in 1..n : r.d[i] = Digits(A, grams[i]) /\ r.hi[i] = 0
        /\ IF bits * q <= 30
           THEN Len(r.v) = n /\ \A i \in 1..n : r.v[i] = Code(A, grams[i])
           ELSE r.v = << >>

\* the same code sequence C consumed through other iterator methods (only logged for codes < 2^30)
OptAt(C, i) == IF i >= 1 /\ i <= Len(C) THEN C[i] ELSE -1
EveryNth(C, step) == [i \in 1..((Len(C) + step - 1) \div step) |-> C[(i - 1) * step + 1]]
IterOk(A, q, t, r) ==
    LET F == [i \in 1..NGrams(t, q) |-> Code(A, FwdGrams(t, q)[i])]
        R == [i \in 1..NGrams(t, q) |-> Code(A, RevGrams(t, q)[i])]
        n == NGrams(t, q)
    IN  /\ r.count = n /\ r.rcount = n /\ r.len = n
        /\ r.lo = n /\ r.hi = n /\ r.rlo = n /\ r.rhi = n            \* exact size hints (ExactSizeIterator)
        /\ r.last = OptAt(F, n) /\ r.rlast = OptAt(R, n)
        /\ r.nth = [k \in 1..4 |-> OptAt(F, k)] /\ r.rnth = [k \in 1..4 |-> OptAt(R, k)]
        /\ r.skip2 = SubSeq(F, 3, n)
        /\ r.step3 = EveryNth(F, 3) /\ r.rstep2 = EveryNth(R, 2)
        /\ \A i \in 1..Len(r.forks) :
              /\ r.forks[i].h \o r.forks[i].a = F /\ r.forks[i].h \o r.forks[i].b = F
              /\ r.forks[i].rh \o r.forks[i].ra = R /\ r.forks[i].rh \o r.forks[i].rb = R
VariantsOk(A, q, t, r) ==
    LET F == [i \in 1..NGrams(t, q) |-> Code(A, FwdGrams(t, q)[i])]
        R == [i \in 1..NGrams(t, q) |-> Code(A, RevGrams(t, q)[i])]
    IN  /\ Len(r.f) >= 1 /\ Len(r.r) >= 1
        /\ \A i \in 1..Len(r.f) : r.f[i] = F
        /\ \A i \in 1..Len(r.r) : r.r[i] = R

ExplainsCodes(cfg, c, r) ==
    LET A == Members(cfg.alpha) IN
    /\ r.st = "ok"
    /\ CASE c.op = "codes"     -> CodesOk(A, cfg.q, FwdGrams(c.a.t, cfg.q), r)
         [] c.op = "rev_codes" -> CodesOk(A, cfg.q, RevGrams(c.a.t, cfg.q), r)
         [] c.op \in {"serde", "rt_new"} -> TRUE
         [] c.op = "width"     -> r.v = Bits(Cardinality(A))          \* get_width: bits per rank
         [] c.op = "codes_iter"     -> Bits(Cardinality(A)) * cfg.q <= 30 /\ IterOk(A, cfg.q, c.a.t, r)
         [] c.op = "codes_variants" -> Bits(Cardinality(A)) * cfg.q <= 30 /\ VariantsOk(A, cfg.q, c.a.t, r)
         [] OTHER -> FALSE

Explains(cfg, e, mp) ==
    /\ Legal(Cardinality(Members(cfg.alpha)), cfg.q)            \* (precondition; the drivers generate nothing else)
    /\ CASE cfg.kind = "index" -> ExplainsIndex(cfg, e.c, e.r, mp)
      [] cfg.kind = "codes" -> ExplainsCodes(cfg, e.c, e.r)
      [] OTHER -> FALSE

After(cfg, e, mp) ==
    IF cfg.kind = "index" /\ e.c.op = "new" THEN MaskedPos(cfg.text, cfg.q, cfg.max_count) ELSE mp

Init == run \in 1..Len(Rec) /\ idx = 0 /\ ok = TRUE /\ st = {}
Next ==
    /\ ok /\ idx < Len(Rec[run].ev)
    /\ LET good == Explains(Rec[run].cfg, Rec[run].ev[idx + 1], st)
       IN  /\ ok' = good
           /\ st' = IF good THEN After(Rec[run].cfg, Rec[run].ev[idx + 1], st) ELSE st
           /\ IF good THEN TRUE ELSE PrintT(<<"REJECT", run, idx + 1>>)
    /\ idx' = idx + 1
    /\ UNCHANGED run
Spec == Init /\ [][Next]_vars
=============================================================================
