CONSTANTS
  Bytes <- EdgeBytes
SPECIFICATION Spec
INVARIANTS TypeOK Result Refusal Lemmas
PROPERTY Progress
CHECK_DEADLOCK FALSE
