------------------------------ MODULE ScoresMC ------------------------------
(***************************************************************************)
(* The lookup of a substitution matrix as a machine: index of a, index of  *)
(* b (either may refuse), fetch from the stored 27 x 27 table -- for EVERY *)
(* pair of bytes, against the published BLOSUM62 table.                    *)
(*   Result      a finished lookup has both bytes in Accepted and returns  *)
(*               Blosum62(a, b)                                            *)
(*   Refusal     a refused lookup has a byte outside Accepted; an accepted *)
(*               pair is never refused (with Progress: it finishes)        *)
(*   Lemmas      (initial state) the index function is a bijection from    *)
(*               Accepted onto 0..26; the table obeys MatrixLaws; the      *)
(*               stored table is Blosum62 under the index function; the    *)
(*               upper-case letters of both protein alphabets can be       *)
(*               scored, their lower-case letters cannot                   *)
(***************************************************************************)
EXTENDS Scores, TLC
CONSTANTS Bytes
AllBytes == 0..255
EdgeBytes == (0..3) \cup (40..44) \cup (62..93) \cup (95..99) \cup (119..129) \cup (253..255)

VARIABLES a, b, pc, i, j, out
vars == <<a, b, pc, i, j, out>>

Init == a \in Bytes /\ b \in Bytes /\ pc = "idx_a" /\ i = 0 - 1 /\ j = 0 - 1 /\ out = 0
IdxA == pc = "idx_a" /\ i' = Idx(a) /\ pc' = (IF Idx(a) < 0 THEN "refused" ELSE "idx_b") /\ UNCHANGED <<a, b, j, out>>
IdxB == pc = "idx_b" /\ j' = Idx(b) /\ pc' = (IF Idx(b) < 0 THEN "refused" ELSE "fetch") /\ UNCHANGED <<a, b, i, out>>
Get  == pc = "fetch" /\ out' = Fetch(Stored62, i, j) /\ pc' = "done" /\ UNCHANGED <<a, b, i, j>>
Next == IdxA \/ IdxB \/ Get
Spec == Init /\ [][Next]_vars /\ WF_vars(Next)

TypeOK == pc \in {"idx_a", "idx_b", "fetch", "done", "refused"} /\ i \in (0 - 1)..26 /\ j \in (0 - 1)..26
Result == pc = "done" => a \in Accepted /\ b \in Accepted /\ out = Blosum62(a, b)
Refusal ==
    /\ pc = "refused" => ~(a \in Accepted /\ b \in Accepted)
    /\ pc \in {"idx_b", "fetch", "done"} => a \in Accepted /\ i \in 0..26
    /\ pc \in {"fetch", "done"} => b \in Accepted /\ j \in 0..26
Progress == <>(pc \in {"done", "refused"})

Lemmas ==
    (a = 0 /\ b = 0 /\ pc = "idx_a") =>
        /\ \A x \in Accepted : \A y \in Accepted : x # y => Idx(x) # Idx(y)
        /\ {Idx(x) : x \in Accepted} = 0..26
        /\ \A x \in 0..255 : x \notin Accepted => Idx(x) < 0
        /\ \A x \in Accepted : StoreOrder[Idx(x) + 1] = x
        /\ MatrixLaws(Blosum62Table)
        /\ IsTable(Stored62)
        /\ \A x \in Accepted : \A y \in Accepted : Fetch(Stored62, Idx(x), Idx(y)) = Blosum62(x, y)
        /\ Cardinality(ProteinStd) = 40 /\ Cardinality(ProteinIupac) = 46
        /\ ProteinStd \cap Accepted = Amino20
        /\ ProteinIupac \cap Accepted = Amino20 \cup {66, 88, 90}
        /\ \A x \in ProteinStd \cup ProteinIupac : x \notin Accepted => x - 32 \in Accepted    \* lower case twins
=============================================================================
