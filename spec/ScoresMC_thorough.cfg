CONSTANTS
  Bytes <- AllBytes
SPECIFICATION Spec
INVARIANTS TypeOK Result Refusal Lemmas
PROPERTY Progress
CHECK_DEADLOCK FALSE
