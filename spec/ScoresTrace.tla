----------------------------- MODULE ScoresTrace -----------------------------
(***************************************************************************)
(* Trace validation for family "scores" (X05).  One run = one substitution *)
(* matrix (cfg.m); its first event reads the whole table through the       *)
(* public function, the trace state `st` keeps it:                         *)
(*   table()      -> v  27 rows of 27 scores, rows and columns in the      *)
(*                      order A..Z, '*': must obey MatrixLaws; for         *)
(*                      cfg.m = "blosum62" it must BE the published table  *)
(*   row(a)       -> v  = that row of the table                            *)
(*   score(a, b)  -> v  any two bytes: the entry of the table when both    *)
(*                      are in Accepted, otherwise the call is refused     *)
(*                      (panic) -- a byte outside the table is never       *)
(*                      scored as if it were another one                   *)
(*   word(t)      -> v  self scores along t                                *)
(* run "alpha" (cfg.m = "none"): member(a) -> std, iupac (is the byte a    *)
(* one-letter word of the predefined protein alphabets), sizes().          *)
(* Everything is property level: there is no DRIFT verdict in this family. *)
(***************************************************************************)
EXTENDS Scores, TLC, Json, IOUtils

Rec == ndJsonDeserialize(IOEnv.TRACE)

VARIABLES run, idx, ok, st
vars == <<run, idx, ok, st>>

Bool(p) == IF p THEN 1 ELSE 0
MaxOfSet(S) == CHOOSE x \in S : \A y \in S : y <= x

Explains(cfg, c, r, tab) ==
    LET a == c.a IN
    CASE c.op = "table" ->
            /\ r.st = "ok" /\ MatrixLaws(r.v)
            /\ cfg.m = "blosum62" => r.v = Blosum62Table
      [] c.op = "row" -> r.st = "ok" /\ IsTable(tab) /\ a.a \in Accepted /\ r.v = tab[Pos(a.a)]
      [] c.op = "score" ->
            IF a.a \in Accepted /\ a.b \in Accepted
            THEN r.st = "ok" /\ IsTable(tab) /\ r.v = tab[Pos(a.a)][Pos(a.b)]
            ELSE r.st = "panic"
      [] c.op = "word" ->
            /\ r.st = "ok" /\ IsTable(tab) /\ Len(r.v) = Len(a.t)
            /\ \A i \in 1..Len(a.t) : a.t[i] \in Accepted /\ r.v[i] = tab[Pos(a.t[i])][Pos(a.t[i])]
      [] c.op = "member" ->
            r.st = "ok" /\ r.std = Bool(a.a \in ProteinStd) /\ r.iupac = Bool(a.a \in ProteinIupac)
      [] c.op = "sizes" ->
            /\ r.st = "ok"
            /\ r.std = Cardinality(ProteinStd) /\ r.iupac = Cardinality(ProteinIupac)
            /\ r.std_max = MaxOfSet(ProteinStd) /\ r.iupac_max = MaxOfSet(ProteinIupac)
            /\ r.both = Cardinality(ProteinStd \cap ProteinIupac)
            /\ r.either = Cardinality(ProteinStd \cup ProteinIupac)
            /\ r.only_std = Cardinality(ProteinStd \ ProteinIupac)
            /\ r.only_iupac = Cardinality(ProteinIupac \ ProteinStd)
      [] OTHER -> FALSE

Init == run \in 1..Len(Rec) /\ idx = 0 /\ ok = TRUE /\ st = << >>
Next ==
    /\ ok /\ idx < Len(Rec[run].ev)
    /\ LET e == Rec[run].ev[idx + 1]
           good == Explains(Rec[run].cfg, e.c, e.r, st)
       IN  /\ ok' = good
           /\ st' = IF good /\ e.c.op = "table" THEN e.r.v ELSE st
           /\ IF good THEN TRUE ELSE PrintT(<<"REJECT", run, idx + 1>>)
    /\ idx' = idx + 1
    /\ UNCHANGED run
Spec == Init /\ [][Next]_vars
=============================================================================
