------------------------------ MODULE SeqBasics ------------------------------
(***************************************************************************)
(* C20 -- ORF finder (src/seq_analysis/orf.rs), DNA/RNA complement         *)
(* (src/alphabets/{dna,rna}.rs), alphabets and rank transform              *)
(* (src/alphabets/mod.rs), GC content (src/seq_analysis/gc.rs).            *)
(*                                                                         *)
(* Definition layer                                                        *)
(*   Frames(seq,starts,stops)  all <<s,e>> (0-based, e exclusive) with a   *)
(*       start codon at s and the FIRST in-frame stop codon after it       *)
(*       ending at e                                                       *)
(*   OrfReportOk               the two-sided acceptance rule of the        *)
(*       property: every reported ORF is a frame with len >= min_len and   *)
(*       offset = s mod 3, nothing is reported twice, every frame with     *)
(*       len > min_len + 2 is reported                                     *)
(*   Comp(pairs,b)             complement of a byte from the IUPAC pairs   *)
(*   Members / RankOf          alphabet membership and rank by ascending   *)
(*       byte value                                                        *)
(*   GcCount                   number of G/C/g/c symbols                   *)
(* Machine layer: the step operators of the finder (sliding codon window,  *)
(* three lists of pending start positions, flush at a stop codon with the  *)
(* early `break`); the state machine over them is SeqBasicsMC.tla.         *)
(* Sequences are sequences of byte values; position i (0-based) = seq[i+1] *)
(***************************************************************************)
EXTENDS Naturals, Integers, Sequences, FiniteSets

\* ------------------------------------------------------------------- ORF
CodonAt(seq, s) == SubSeq(seq, s + 1, s + 3)                 \* s 0-based, s + 3 <= Len(seq)
IsStartAt(seq, starts, s) == s >= 0 /\ s + 3 <= Len(seq) /\ CodonAt(seq, s) \in starts
IsStopAt(seq, stops, s)  == s >= 0 /\ s + 3 <= Len(seq) /\ CodonAt(seq, s) \in stops

\* ends (exclusive) of the in-frame stop codons at or after the start codon at s. A codon may be in both
\* sets: a start codon that is also a stop codon closes its own frame at once (the frame is the codon
\* itself, length 3) -- like every stop codon it closes the frames open in its reading frame and it leaves
\* no frame open. For disjoint sets the codon at s is never a stop and the first candidate is s + 6.
StopEnds(seq, stops, s) ==
    {e \in (s + 3)..Len(seq) : (e - s) % 3 = 0 /\ IsStopAt(seq, stops, e - 3)}

IsFrame(seq, starts, stops, s, e) ==
    /\ IsStartAt(seq, starts, s)
    /\ e \in StopEnds(seq, stops, s)
    /\ \A e2 \in StopEnds(seq, stops, s) : e <= e2            \* no earlier in-frame stop

Frames(seq, starts, stops) ==
    {f \in (0..Len(seq)) \X (0..Len(seq)) : IsFrame(seq, starts, stops, f[1], f[2])}

\* the same set, one candidate per start position (what the trace spec evaluates; FramesLemma in MC)
MinOf(S) == CHOOSE x \in S : \A y \in S : x <= y
FramesFast(seq, starts, stops) ==
    {<<s, MinOf(StopEnds(seq, stops, s))>> :
        s \in {x \in 0..(Len(seq) - 3) : IsStartAt(seq, starts, x) /\ StopEnds(seq, stops, x) # {}}}

\* `rep` = sequence of records [start, end, offset] as reported by find_all; fr = the set of frames
OrfReportOkFr(fr, minlen, rep) ==
    /\ \A i \in 1..Len(rep) :
          /\ <<rep[i].start, rep[i].end>> \in fr
          /\ rep[i].end - rep[i].start >= minlen
          /\ (rep[i].end - rep[i].start) % 3 = 0
          /\ rep[i].offset = rep[i].start % 3
    /\ \A i \in 1..Len(rep) : \A j \in 1..Len(rep) :
          (i # j) => <<rep[i].start, rep[i].end>> # <<rep[j].start, rep[j].end>>
    /\ \A f \in fr : f[2] - f[1] > minlen + 2 =>
          \E i \in 1..Len(rep) : rep[i].start = f[1] /\ rep[i].end = f[2]

OrfReportOk(seq, starts, stops, minlen, rep) == OrfReportOkFr(FramesFast(seq, starts, stops), minlen, rep)

\* ---- finder machine: step operators
\* sliding window of the last <= 3 symbols
PushCodon(codon, nuc) == IF Len(codon) >= 3 THEN Append(Tail(codon), nuc) ELSE Append(codon, nuc)
\* the prefix of the pending list that is long enough (`else break`)
RECURSIVE TakeLong(_, _, _)
TakeLong(pend, index, minlen) ==
    IF pend = << >> THEN << >>
    ELSE IF index + 1 - Head(pend) > minlen
         THEN << Head(pend) >> \o TakeLong(Tail(pend), index, minlen)
         ELSE << >>
MkOrf(startpos, index, offset) == [start |-> startpos - 2, end |-> index + 1, offset |-> offset]

\* ------------------------------------------------------------ complement
\* IUPAC pairs (upper case): A-T C-G Y-R W-W S-S K-M D-H V-B N-N; RNA: U for T, and Z-Z
DnaPairs == {<<65, 84>>, <<67, 71>>, <<89, 82>>, <<87, 87>>, <<83, 83>>, <<75, 77>>, <<68, 72>>,
             <<86, 66>>, <<78, 78>>}
RnaPairs == {<<65, 85>>, <<67, 71>>, <<89, 82>>, <<87, 87>>, <<83, 83>>, <<75, 77>>, <<68, 72>>,
             <<86, 66>>, <<78, 78>>, <<90, 90>>}
Letters(pairs) == {p[1] : p \in pairs} \cup {p[2] : p \in pairs}
Partner(pairs, u) ==         \* u an upper-case letter of the pairs
    LET P == {p \in pairs : p[1] = u \/ p[2] = u}
        p == CHOOSE q \in P : TRUE
    IN  IF p[1] = u THEN p[2] ELSE p[1]
Comp(pairs, b) ==
    IF b \in Letters(pairs) THEN Partner(pairs, b)
    ELSE IF (b - 32) \in Letters(pairs) THEN Partner(pairs, b - 32) + 32      \* lower-case twin
    ELSE b
CompTable(pairs) == [i \in 1..256 |-> Comp(pairs, i - 1)]
RevComp(pairs, t) == [i \in 1..Len(t) |-> Comp(pairs, t[Len(t) + 1 - i])]

IsUpper(b) == b \in 65..90
IsLower(b) == b \in 97..122
\* the clauses of the property, as lemmas about the table (checked for all 256 bytes in SeqBasicsMC)
ComplementLaws(pairs) ==
    /\ \A b \in 0..255 : Comp(pairs, b) \in 0..255
    /\ \A b \in 0..255 : Comp(pairs, Comp(pairs, b)) = b                                 \* involution
    /\ \A b \in 0..255 : (IsUpper(b) <=> IsUpper(Comp(pairs, b))) /\ (IsLower(b) <=> IsLower(Comp(pairs, b)))
    /\ \A b \in 0..255 : (b \notin Letters(pairs) /\ (b - 32) \notin Letters(pairs)) => Comp(pairs, b) = b
    /\ \A b \in 65..90 : Comp(pairs, b + 32) = Comp(pairs, b) + 32                       \* case twins

\* -------------------------------------------------------------- alphabets
Members(syms) == {syms[i] : i \in 1..Len(syms)}            \* Alphabet::new(syms): a set of bytes
IsWord(A, t) == \A i \in 1..Len(t) : t[i] \in A
RankOf(A, a) == Cardinality({x \in A : x < a})             \* rank by ascending byte value
\* ascending list of a finite set of numbers
RECURSIVE SortedSeq(_)
SortedSeq(S) == IF S = {} THEN << >> ELSE LET m == MinOf(S) IN << m >> \o SortedSeq(S \ {m})
MaxOrNone(S) == IF S = {} THEN -1 ELSE CHOOSE x \in S : \A y \in S : y <= x
\* order isomorphism onto 0..|A|-1
RankLaws(A) ==
    /\ {RankOf(A, a) : a \in A} = 0..(Cardinality(A) - 1)
    /\ \A a \in A : \A b \in A : (a < b) <=> (RankOf(A, a) < RankOf(A, b))

WithLower(S) == S \cup {c + 32 : c \in S}
Nuc4(t) == {65, 67, 71, t}                                          \* A C G T|U
IupacNuc(t) == Nuc4(t) \cup {82, 89, 83, 87, 75, 77, 66, 68, 72, 86, 78, 90}   \* R Y S W K M B D H V N Z
Amino20 == {65, 82, 78, 68, 67, 69, 81, 71, 72, 73, 76, 75, 77, 70, 80, 83, 84, 87, 89, 86}
StdAlphabet(name) ==
    CASE name = "dna" -> WithLower(Nuc4(84))
      [] name = "dna_n" -> WithLower(Nuc4(84) \cup {78})
      [] name = "dna_iupac" -> WithLower(IupacNuc(84))
      [] name = "rna" -> WithLower(Nuc4(85))
      [] name = "rna_n" -> WithLower(Nuc4(85) \cup {78})
      [] name = "rna_iupac" -> WithLower(IupacNuc(85))
      [] name = "protein" -> WithLower(Amino20)
      [] name = "protein_iupac" -> WithLower(Amino20 \cup {66, 88, 90})       \* + B X Z
      [] OTHER -> {}

\* --------------------------------------------------------------------- GC
IsGC(b) == b \in {67, 71, 99, 103}
\* every step-th symbol starting with the first
Sampled(t, step) == [i \in 1..((Len(t) + step - 1) \div step) |-> t[(i - 1) * step + 1]]
GcCount(t) == Cardinality({i \in 1..Len(t) : IsGC(t[i])})
Scale == 1000000
\* g = the reported fraction as round(fraction * Scale); tolerance: half a unit of rounding plus f32 error
GcOk(t, step, g) ==
    LET s == Sampled(t, step)
        n == Len(s)
    IN  IF n = 0 THEN TRUE                                   \* fraction of nothing: undefined, anything goes
        ELSE /\ g \in 0..Scale
             /\ g * n - GcCount(s) * Scale <= n
             /\ GcCount(s) * Scale - g * n <= n

\* ---- huge sequences: `reps` repetitions of a short unit (never written out)
RECURSIVE Repeat(_, _)
Repeat(u, r) == IF r = 0 THEN << >> ELSE u \o Repeat(u, r - 1)
\* number of sampled symbols / of sampled G/C symbols of Repeat(unit, reps), in closed form:
\* three units have a length divisible by 3, so sampling every third symbol restarts there
RepSampled(unit, reps, step) == (reps * Len(unit) + step - 1) \div step
RepGcCount(unit, reps, step) ==
    IF step = 1 THEN reps * GcCount(unit)
    ELSE (reps \div 3) * GcCount(Sampled(Repeat(unit, 3), 3)) + GcCount(Sampled(Repeat(unit, reps % 3), 3))
\* ---- several streamed segments: segment i = unit_i repeated m_i * chunk times, chunk divisible by 3, so
\* every segment has a length divisible by 3 and the every-third-symbol sampling restarts in each. The
\* common factor chunk (resp. chunk / 3) cancels in the fraction: totals beyond 2^32 symbols never appear.
UnitGc(unit, step) == IF step = 1 THEN GcCount(unit) ELSE GcCount(Sampled(Repeat(unit, 3), 3))
RECURSIVE SegSum(_, _, _, _)
SegSum(segs, i, step, what) ==     \* what = "gc": sum of m * UnitGc, "len": sum of m * |unit|
    IF i > Len(segs) THEN 0
    ELSE segs[i].m * (IF what = "gc" THEN UnitGc(segs[i].unit, step) ELSE Len(segs[i].unit))
         + SegSum(segs, i + 1, step, what)
SegsWritten(segs, chunk) ==        \* the sequence itself (small parameters only)
    LET RECURSIVE F(_)
        F(i) == IF i > Len(segs) THEN << >> ELSE Repeat(segs[i].unit, segs[i].m * chunk) \o F(i + 1)
    IN F(1)

\* floor(c * 10^6 / n) for 0 <= c <= n by long division (no product above 10 * n: TLC integers are 32 bit)
RECURSIVE LongDiv(_, _, _, _)
LongDiv(rem, n, digits, acc) ==
    IF digits = 0 THEN acc ELSE LongDiv((rem * 10) % n, n, digits - 1, acc * 10 + (rem * 10) \div n)
FixedFloor(c, n) == IF c >= n THEN Scale ELSE LongDiv(c, n, 6, 0)
\* acceptance on the 10^-6 grid: the reported value rounds the exact fraction up to f32 error
GcRepOk(unit, reps, step, g) ==
    LET n == RepSampled(unit, reps, step)
        c == RepGcCount(unit, reps, step)
    IN  IF n = 0 THEN TRUE
        ELSE /\ g \in 0..Scale
             /\ g >= FixedFloor(c, n) - 1 /\ g <= FixedFloor(c, n) + 2
GcSegsOk(segs, chunk, step, g) ==
    LET n == SegSum(segs, 1, step, "len")
        c == SegSum(segs, 1, step, "gc")
    IN  /\ chunk > 0 /\ chunk % 3 = 0
        /\ \A i \in 1..Len(segs) : segs[i].m >= 0
        /\ IF n = 0 THEN TRUE
           ELSE /\ g \in 0..Scale
                /\ g >= FixedFloor(c, n) - 1 /\ g <= FixedFloor(c, n) + 2
=============================================================================
