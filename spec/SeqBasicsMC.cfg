CONSTANTS
  Sym = {65, 84, 71}
  Starts <- StartsATG
  Stops <- StopsStd
  MaxLen = 9
  MinLens = {0, 4}
SPECIFICATION Spec
INVARIANTS Window Pending Reported Final Sharp FramesLemma
PROPERTY Progress
CHECK_DEADLOCK FALSE
