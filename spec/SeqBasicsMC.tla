----------------------------- MODULE SeqBasicsMC -----------------------------
(***************************************************************************)
(* The ORF finder machine of orf.rs (Matches::next) for every sequence     *)
(* over Sym up to MaxLen and every min_len in MinLens.                     *)
(*   Consume  next nucleotide: slide the codon window, offset =            *)
(*            (index+1) mod 3, push index on the offset's pending list at  *)
(*            a start codon, at a stop codon flush the list (long enough   *)
(*            prefix only -- `else break`) into `found` and clear it       *)
(*   Emit     the iterator hands out `found` front first before it         *)
(*            consumes anything else                                       *)
(* plus the table lemmas of the complement / alphabet definitions (ASSUME) *)
(***************************************************************************)
EXTENDS SeqBasics, TLC
CONSTANTS Sym, Starts, Stops, MaxLen, MinLens

\* codon sets for the cfg files (tuples cannot be written there): ATG | ATG,GTG ; TAG,TGA,TAA
StartsATG == {<<65, 84, 71>>}
StartsATG_GTG == {<<65, 84, 71>>, <<71, 84, 71>>}
StopsStd == {<<84, 65, 71>>, <<84, 71, 65>>, <<84, 65, 65>>}

\* a codon in both sets (cfg SeqBasicsMC_overlap): TGA is a start and a stop codon
StartsATG_TGA == {<<65, 84, 71>>, <<84, 71, 65>>}
StopsTGA_TAA == {<<84, 71, 65>>, <<84, 65, 65>>}
ASSUME ComplementLaws(DnaPairs) /\ ComplementLaws(RnaPairs)    \* all 256 bytes
ASSUME \A A \in SUBSET {0, 1, 7, 200, 255} : RankLaws(A)
ASSUME \A t \in {<<>>, <<65>>, <<84, 71, 67>>, <<0, 255, 110, 78, 65, 99>>} :
          /\ RevComp(DnaPairs, RevComp(DnaPairs, t)) = t
          /\ RevComp(RnaPairs, RevComp(RnaPairs, t)) = t
ASSUME SortedSeq({5, 1, 200}) = <<1, 5, 200>> /\ SortedSeq({}) = << >>

\* closed forms for repeated units = the definitions on the written-out sequence; the two GC
\* acceptance rules agree where both apply (exact fraction on the 10^-6 grid)
ASSUME \A u \in {<<71>>, <<65>>, <<71, 65>>, <<65, 67, 71, 84>>, <<67, 65, 65, 71, 99>>, <<84, 71, 65, 65, 65, 71, 67>>} :
         \A r \in 0..7 : \A step \in {1, 3} :
           LET t == Repeat(u, r) IN
           /\ RepSampled(u, r, step) = Len(Sampled(t, step))
           /\ RepGcCount(u, r, step) = GcCount(Sampled(t, step))
           /\ Len(Sampled(t, step)) > 0 =>
                 LET c == GcCount(Sampled(t, step))  n == Len(Sampled(t, step)) IN
                 /\ FixedFloor(c, n) = (c * Scale) \div n
                 /\ GcRepOk(u, r, step, (c * Scale) \div n) /\ GcOk(t, step, (c * Scale) \div n)
                 /\ ~GcRepOk(u, r, step, (c * Scale) \div n + 3) /\ ((c * Scale) \div n >= 2 => ~GcRepOk(u, r, step, (c * Scale) \div n - 2))

\* segments: the chunk-free fraction equals the fraction of the written-out sequence (cross-multiplied)
ASSUME \A ua \in {<<71>>, <<71, 65, 84, 67>>, <<99, 65>>} : \A ub \in {<<65>>, <<103, 65>>, <<65, 84, 71, 67, 67>>} :
         \A ma \in 0..2 : \A mb \in 0..2 : \A chunk \in {3, 6} : \A step \in {1, 3} :
           LET segs == << [unit |-> ua, m |-> ma], [unit |-> ub, m |-> mb] >>
               t == Sampled(SegsWritten(segs, chunk), step)
           IN  GcCount(t) * SegSum(segs, 1, step, "len") = SegSum(segs, 1, step, "gc") * Len(t)

VARIABLES seq, minlen, index, codon, pend, found, out, pc
vars == <<seq, minlen, index, codon, pend, found, out, pc>>

N == Len(seq)
Seqs == UNION {[1..n -> Sym] : n \in 0..MaxLen}

Init ==
    /\ seq \in Seqs /\ minlen \in MinLens
    /\ index = 0 /\ codon = << >> /\ pend = [o \in 0..2 |-> << >>]
    /\ found = << >> /\ out = << >> /\ pc = "run"

Consume ==
    /\ pc = "run" /\ found = << >> /\ index < N
    /\ LET cd == PushCodon(codon, seq[index + 1])
           offset == (index + 1) % 3
           p1 == IF cd \in Starts THEN Append(pend[offset], index) ELSE pend[offset]
       IN  /\ codon' = cd
           /\ IF p1 # << >> /\ cd \in Stops
              THEN LET long == TakeLong(p1, index, minlen) IN
                   /\ found' = [i \in 1..Len(long) |-> MkOrf(long[i], index, offset)]
                   /\ pend' = [pend EXCEPT ![offset] = << >>]
              ELSE /\ found' = found
                   /\ pend' = [pend EXCEPT ![offset] = p1]
    /\ index' = index + 1
    /\ UNCHANGED <<seq, minlen, out, pc>>

Emit ==
    /\ pc = "run" /\ found # << >>
    /\ out' = Append(out, Head(found)) /\ found' = Tail(found)
    /\ UNCHANGED <<seq, minlen, index, codon, pend, pc>>

Finish ==
    /\ pc = "run" /\ found = << >> /\ index = N
    /\ pc' = "done"
    /\ UNCHANGED <<seq, minlen, index, codon, pend, found, out>>

Next == Consume \/ Emit \/ Finish
Spec == Init /\ [][Next]_vars

\* ------------------------------------------------------------- invariants
AllFrames == FramesFast(seq, Starts, Stops)      \* = Frames(seq, Starts, Stops) by FramesLemma
AsPairs(q) == {<<q[i].start, q[i].end>> : i \in 1..Len(q)}

\* the window holds the last min(3,index) symbols
Window == codon = SubSeq(seq, (IF index >= 3 THEN index - 2 ELSE 1), index)

\* pending list of frame o: ascending end positions (s+2) of the start codons of that frame read so
\* far that have not met an in-frame stop codon yet
Pending == \A o \in 0..2 :
    pend[o] = SelectSeq([i \in 1..index |-> i - 1],
                        LAMBDA x : /\ x >= 2 /\ (x + 1) % 3 = o
                                   /\ IsStartAt(seq, Starts, x - 2)
                                   /\ \A e \in StopEnds(seq, Stops, x - 2) : e > index)

\* everything that ends at or before `index` and is long enough is in found/out, once
Reported ==
    /\ AsPairs(out) \cup AsPairs(found) = {f \in AllFrames : f[2] <= index /\ f[2] - f[1] > minlen + 2}
    /\ Cardinality(AsPairs(out) \cup AsPairs(found)) = Len(out) + Len(found)

Final == pc = "done" =>
    /\ AsPairs(out) = {f \in AllFrames : f[2] - f[1] > minlen + 2}
    /\ OrfReportOk(seq, Starts, Stops, minlen, out)            \* the trace predicate accepts the machine

\* the acceptance predicate is two-sided: dropping a frame that must be reported or adding a
\* non-frame is rejected (checked on the final output)
Sharp == (pc = "done" /\ out # << >>) =>
    /\ (Head(out).end - Head(out).start > minlen + 2) => ~OrfReportOk(seq, Starts, Stops, minlen, Tail(out))
    /\ ~OrfReportOk(seq, Starts, Stops, minlen, out \o << Head(out) >>)
    /\ ~OrfReportOk(seq, Starts, Stops, minlen, << [Head(out) EXCEPT !.offset = (@ + 1) % 3] >> \o Tail(out))

FramesLemma == index = 0 => FramesFast(seq, Starts, Stops) = Frames(seq, Starts, Stops)

Measure == (IF pc = "done" THEN 0 ELSE 1) + (N - index) * (N + 2) + Len(found)
Progress == [][Measure' < Measure]_vars
=============================================================================
