CONSTANTS
  Sym = {65, 84, 71}
  Starts <- StartsATG_TGA
  Stops <- StopsTGA_TAA
  MaxLen = 8
  MinLens = {0, 3}
SPECIFICATION Spec
INVARIANTS Window Pending Reported Final Sharp FramesLemma
PROPERTY Progress
CHECK_DEADLOCK FALSE
