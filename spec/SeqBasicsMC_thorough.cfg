CONSTANTS
  Sym = {65, 84, 71}
  Starts = {<<65, 84, 71>>, <<71, 84, 71>>}
  Stops = {<<84, 65, 71>>, <<84, 71, 65>>, <<84, 65, 65>>}
  MaxLen = 10
  MinLens = {0, 3, 4, 6}
SPECIFICATION Spec
INVARIANTS Window Pending Reported Final Sharp FramesLemma
PROPERTY Progress
CHECK_DEADLOCK FALSE
