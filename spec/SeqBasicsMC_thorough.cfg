CONSTANTS
  Sym = {65, 84, 71}
  Starts <- StartsATG_GTG
  Stops <- StopsStd
  MaxLen = 10
  MinLens = {0, 3, 4, 6}
SPECIFICATION Spec
INVARIANTS Window Pending Reported Final Sharp FramesLemma
PROPERTY Progress
CHECK_DEADLOCK FALSE
