---------------------------- MODULE SeqBasicsTrace ----------------------------
(* Trace validation for the families "orf" and "seqbasics" (C20).            *)
(*  orf:       run.cfg = [starts, stops, min_len, cloned] = one Finder (or a   *)
(*             clone of it); the codon sets may overlap; a min_len beyond     *)
(*             2^31 is logged as min_len_exact (string) with min_len = 2^30    *)
(*             as a stand-in: both exceed every driven sequence, so nothing    *)
(*             may and nothing must be reported -- the same verdict; events    *)
(*             find_all(t) -> v = list of [start,end,offset] in iterator order*)
(*  seqbasics: run.cfg.kind in                                                *)
(*     "compl" (cfg.mol = "dna"|"rna"): table -> 256 values; revcomp(t)       *)
(*     "alpha" (cfg.syms = bytes given to Alphabet::new): len, is_empty,      *)
(*             max_symbol, symbols, is_word(t), ranks (get() of every         *)
(*             cfg.syms entry), transform(t), setops(other)                   *)
(*     "std"   (cfg.name): symbols of the predefined alphabet                 *)
(*     "gc"    gc(t) / gc3(t) -> g = round(fraction * 10^6)                   *)
EXTENDS SeqBasics, TLC, Json, IOUtils

Rec == ndJsonDeserialize(IOEnv.TRACE)

VARIABLES run, idx, ok
vars == <<run, idx, ok>>

SetOf(s) == {s[i] : i \in 1..Len(s)}
\* a reported symbol list denotes a set: the right elements, each once (iteration order is not promised)
ListsSet(v, S) == Len(v) = Cardinality(S) /\ SetOf(v) = S
Bool(b) == IF b THEN 1 ELSE 0

ExplainsOrf(cfg, c, r) ==
    /\ r.st = "ok"
    /\ CASE c.op = "finder_new" -> TRUE
         [] c.op = "find_all" ->
              OrfReportOk(c.a.t, SetOf(cfg.starts), SetOf(cfg.stops), cfg.min_len, r.v)
         \* the iterator forked (cloned) after every number of items: h = the items taken before the
         \* fork, a / b = everything the original / the clone yields afterwards; each continuation
         \* must complete a correct report
         [] c.op = "forks" ->
              LET fr == FramesFast(c.a.t, SetOf(cfg.starts), SetOf(cfg.stops)) IN
              \A i \in 1..Len(r.v) :
                  /\ OrfReportOkFr(fr, cfg.min_len, r.v[i].h \o r.v[i].a)
                  /\ OrfReportOkFr(fr, cfg.min_len, r.v[i].h \o r.v[i].b)
         \* one iterator consumed through count / last / nth / skip / step_by (relative to its own collect(),
         \* which must be a correct report) and fed from by-value / owned / filtered / flat-mapped input
         [] c.op = "iters" ->
              LET fr == FramesFast(c.a.t, SetOf(cfg.starts), SetOf(cfg.stops))
                  all == r.all
                  n == Len(all)
              IN  /\ OrfReportOkFr(fr, cfg.min_len, all)
                  /\ r.count = n
                  /\ r.last = (IF n = 0 THEN << >> ELSE << all[n] >>)
                  /\ r.nth1 = (IF n < 2 THEN << >> ELSE << all[2] >>)
                  /\ r.skip1 = SubSeq(all, 2, n)
                  /\ r.step2 = [i \in 1..((n + 1) \div 2) |-> all[2 * i - 1]]
                  /\ OrfReportOkFr(fr, cfg.min_len, r.byval) /\ OrfReportOkFr(fr, cfg.min_len, r.owned)
                  /\ OrfReportOkFr(fr, cfg.min_len, r.filt) /\ OrfReportOkFr(fr, cfg.min_len, r.flat)
         [] OTHER -> FALSE

Pairs(mol) == IF mol = "rna" THEN RnaPairs ELSE DnaPairs

ExplainsCompl(cfg, c, r) ==
    /\ r.st = "ok"
    /\ CASE c.op = "table"   -> r.v = CompTable(Pairs(cfg.mol))
         [] c.op = "revcomp" -> r.v = RevComp(Pairs(cfg.mol), c.a.t)
         \* revcomp fed from by-value / owned / filtered / chained iterators
         [] c.op = "revcomp_variants" ->
              Len(r.v) >= 1 /\ \A i \in 1..Len(r.v) : r.v[i] = RevComp(Pairs(cfg.mol), c.a.t)
         [] OTHER -> FALSE

ExplainsAlpha(cfg, c, r) ==
    LET A == Members(cfg.syms) IN
    /\ r.st = "ok"
    /\ CASE c.op \in {"new", "rt_new"} -> TRUE
         [] c.op = "len"        -> r.v = Cardinality(A)
         [] c.op = "is_empty"   -> r.v = Bool(A = {})
         [] c.op = "max_symbol" -> r.v = MaxOrNone(A)
         [] c.op = "symbols"    -> ListsSet(r.v, A)
         [] c.op = "is_word"    -> r.v = Bool(IsWord(A, c.a.t))
         [] c.op = "ranks"      -> r.v = [i \in 1..Len(cfg.syms) |-> RankOf(A, cfg.syms[i])]
         [] c.op = "transform"  -> r.v = [i \in 1..Len(c.a.t) |-> RankOf(A, c.a.t[i])]
         \* Alphabet::new from other kinds of iterators (duplicates, inexact size hints, by value), clone
         [] c.op = "new_variants" -> Len(r.v) >= 1 /\ \A i \in 1..Len(r.v) : ListsSet(r.v[i], A)
         \* set operations in both orders / groupings, insert in another order
         [] c.op = "setops_orders" ->
              LET B == Members(c.a.other)  C == Members(c.a.third) IN
              /\ ListsSet(r.uab, A \cup B) /\ ListsSet(r.uba, A \cup B)
              /\ ListsSet(r.iab, A \cap B) /\ ListsSet(r.iba, A \cap B)
              /\ ListsSet(r.u3a, A \cup B \cup C) /\ ListsSet(r.u3b, A \cup B \cup C)
              /\ ListsSet(r.ins, A) /\ ListsSet(r.ins2, A \cup B)
              /\ ListsSet(r.dab, A \ B) /\ ListsSet(r.dba, B \ A)
         \* a rank transform of the alphabet collected from a text (with repetitions)
         [] c.op = "ranks_via_text" ->
              r.v = [i \in 1..Len(c.a.t) |-> RankOf(Members(c.a.t), c.a.t[i])]
         \* is_word / transform fed from by-value / filtered iterators; rank transform copied (clone, serde)
         [] c.op = "word_variants" ->
              /\ Len(r.w) >= 1 /\ \A i \in 1..Len(r.w) : r.w[i] = Bool(IsWord(A, c.a.t))
              /\ \A i \in 1..Len(r.tr) : r.tr[i] = [j \in 1..Len(c.a.t) |-> RankOf(A, c.a.t[j])]
         [] c.op = "setops"     -> LET B == Members(c.a.other) IN
                                   /\ ListsSet(r.u, A \cup B)
                                   /\ ListsSet(r.i, A \cap B)
                                   /\ ListsSet(r.d, A \ B)
         [] OTHER -> FALSE

ExplainsStd(cfg, c, r) ==
    /\ r.st = "ok"
    /\ c.op = "symbols"
    /\ StdAlphabet(cfg.name) # {}
    /\ ListsSet(r.v, StdAlphabet(cfg.name))

ExplainsGc(cfg, c, r) ==
    /\ r.st = "ok"
    /\ CASE c.op = "gc"  -> GcOk(c.a.t, 1, r.g)
         [] c.op = "gc3" -> GcOk(c.a.t, 3, r.g)
         \* gc / gc3 fed from by-value / owned / filtered / flat-mapped / take_while iterators
         [] c.op = "gc_variants" ->
              /\ Len(r.g) >= 1 /\ \A i \in 1..Len(r.g) : GcOk(c.a.t, 1, r.g[i])
              /\ \A i \in 1..Len(r.g3) : GcOk(c.a.t, 3, r.g3[i])
         \* the sequence is `reps` repetitions of `unit` (never logged verbatim)
         [] c.op = "gc_rep"  -> c.a.reps >= 0 /\ GcRepOk(c.a.unit, c.a.reps, 1, r.g)
         \* segments unit_i^(m_i * chunk), streamed: up to more than 2^32 symbols in one call
         [] c.op = "gc_segs"  -> GcSegsOk(c.a.segs, c.a.chunk, 1, r.g)
         [] c.op = "gc3_segs" -> GcSegsOk(c.a.segs, c.a.chunk, 3, r.g)
         [] c.op = "gc3_rep" -> c.a.reps >= 0 /\ GcRepOk(c.a.unit, c.a.reps, 3, r.g)
         [] OTHER -> FALSE

Explains(fam, cfg, e) ==
    CASE fam = "orf" -> ExplainsOrf(cfg, e.c, e.r)
      [] fam = "seqbasics" ->
           CASE cfg.kind = "compl" -> ExplainsCompl(cfg, e.c, e.r)
             [] cfg.kind = "alpha" -> ExplainsAlpha(cfg, e.c, e.r)
             [] cfg.kind = "std"   -> ExplainsStd(cfg, e.c, e.r)
             [] cfg.kind = "gc"    -> ExplainsGc(cfg, e.c, e.r)
             [] OTHER -> FALSE
      [] OTHER -> FALSE

Init == run \in 1..Len(Rec) /\ idx = 0 /\ ok = TRUE
Next ==
    /\ ok /\ idx < Len(Rec[run].ev)
    /\ LET good == Explains(Rec[run].fam, Rec[run].cfg, Rec[run].ev[idx + 1])
       IN  /\ ok' = good
           /\ IF good THEN TRUE ELSE PrintT(<<"REJECT", run, idx + 1>>)
    /\ idx' = idx + 1
    /\ UNCHANGED run
Spec == Init /\ [][Next]_vars
=============================================================================
