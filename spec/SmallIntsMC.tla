----------------------------- MODULE SmallIntsMC -----------------------------
(* SmallInts machine (small vector + escape value SMAX + overflow map)      *)
(* refines a plain vector of big integers, for all histories of push / set. *)
EXTENDS Packed, TLC
CONSTANTS SMIN, SMAX, Values, MaxSteps

VARIABLES small, big, vec, steps
vars == <<small, big, vec, steps>>

MC_SMIN == -4
MC_Values == {-6, -5, -4, -1, 0, 2, 3, 4, 9}

Init == small = << >> /\ big = << >> /\ vec = << >> /\ steps = 0
    \* big: function from 0-based index to value; << >> is the empty function

Push(v) ==
    /\ LET r == SIPush(small, big, v, SMIN, SMAX) IN small' = r[1] /\ big' = r[2]
    /\ vec' = Append(vec, v) /\ steps' = steps + 1
Set(i, v) ==
    /\ i < Len(small)
    /\ LET r == SISet(small, big, i, v, SMIN, SMAX) IN small' = r[1] /\ big' = r[2]
    /\ vec' = [vec EXCEPT ![i + 1] = v] /\ steps' = steps + 1
Next == /\ steps < MaxSteps
        /\ \/ \E v \in Values : Push(v)
           \/ \E i \in 0..(Len(small) - 1), v \in Values : Set(i, v)
Spec == Init /\ [][Next]_vars

Refines == /\ Len(small) = Len(vec)
           /\ \A i \in 1..Len(small) : small[i] = SMAX => (i - 1) \in DOMAIN big   \* escape always resolvable
           /\ SIDecode(small, big, SMAX) = vec
SmallRange == \A i \in 1..Len(small) : small[i] >= SMIN /\ small[i] <= SMAX
=============================================================================
