CONSTANTS
  SMIN <- MC_SMIN
  SMAX = 3
  Values <- MC_Values
  MaxSteps = 5
SPECIFICATION Spec
INVARIANTS Refines SmallRange
CHECK_DEADLOCK FALSE
