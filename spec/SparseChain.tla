----------------------------- MODULE SparseChain -----------------------------
(***************************************************************************)
(* C19 (second half) -- k-mer matches and chaining (src/alignment/sparse.rs,*)
(* src/data_structures/bit_tree.rs).                                       *)
(*                                                                         *)
(* Definition layer                                                        *)
(*   KmerMatches(x,y,k)   sorted list of all <<i,j>> with x[i..i+k) =      *)
(*                        y[j..j+k)                                        *)
(*   ValidChain           indices into the match list, strictly ascending, *)
(*                        each next match continues the previous one       *)
(*                        diagonally by one or starts >= k later in both   *)
(*   LcskScore(path)      k for the first match, +1 per continuation, +k   *)
(*                        per jump                                         *)
(*   LcskOptDef           maximum of LcskScore over ALL valid chains       *)
(*   LcskOpt              the same by the O(M^2) recurrence (eager; lemma  *)
(*                        OptLemma in SparseChainMC)                       *)
(* Machine layer: step operators of the LCSk++ sweep (start/end events     *)
(* sorted by (x,y,tag), max-Fenwick tree over end columns, diagonal        *)
(* continuation by binary search); the state machine is SparseChainMC.tla. *)
(* A match is a pair <<x,y>> (0-based); a match list is a sequence of them;*)
(* path entries are 0-based indices into that list, as in the code.        *)
(***************************************************************************)
EXTENDS Naturals, Integers, Sequences, FiniteSets

Max2(a, b) == IF a >= b THEN a ELSE b

PairLess(a, b) == a[1] < b[1] \/ (a[1] = b[1] /\ a[2] < b[2])
StrictlySorted(ms) == \A i \in 1..(Len(ms) - 1) : PairLess(ms[i], ms[i + 1])
IsPairList(ms) == \A i \in 1..Len(ms) : Len(ms[i]) = 2 /\ ms[i][1] >= 0 /\ ms[i][2] >= 0

\* ------------------------------------------------------------ k-mer matches
KmerEq(x, y, k, i, j) == \A d \in 1..k : x[i + d] = y[j + d]
NK(s, k) == IF Len(s) >= k THEN Len(s) - k + 1 ELSE 0           \* number of k-mers
\* sorted by (i,j): row by row
RECURSIVE KmerRows(_, _, _, _, _)
KmerRows(x, y, k, i, acc) ==
    IF i >= NK(x, k) THEN acc
    ELSE KmerRows(x, y, k, i + 1,
                  acc \o SelectSeq([j \in 1..NK(y, k) |-> <<i, j - 1>>], LAMBDA m : KmerEq(x, y, k, i, m[2])))
KmerMatches(x, y, k) == KmerRows(x, y, k, 0, << >>)

\* --------------------------------------------------------------- chains
Continues(a, b) == b[1] = a[1] + 1 /\ b[2] = a[2] + 1
Jumps(a, b, k) == b[1] >= a[1] + k /\ b[2] >= a[2] + k
StepOk(a, b, k) == Continues(a, b) \/ Jumps(a, b, k)

ValidChain(ms, k, path) ==
    /\ \A i \in 1..Len(path) : path[i] \in 0..(Len(ms) - 1)
    /\ \A i \in 1..(Len(path) - 1) :
          /\ path[i] < path[i + 1]
          /\ StepOk(ms[path[i] + 1], ms[path[i + 1] + 1], k)

StepGain(a, b, k) == IF Jumps(a, b, k) THEN k ELSE 1          \* (both hold only for k = 1: same gain)
RECURSIVE ScoreFrom(_, _, _, _, _)
ScoreFrom(ms, k, path, i, acc) ==
    IF i >= Len(path) THEN acc
    ELSE ScoreFrom(ms, k, path, i + 1, acc + StepGain(ms[path[i] + 1], ms[path[i + 1] + 1], k))
LcskScore(ms, k, path) == IF path = << >> THEN 0 ELSE ScoreFrom(ms, k, path, 1, k)

\* best score of a chain ending in match i (1-based), given the scores f of the matches before it
BestEnding(ms, k, f, i) ==
    LET cands == {k} \cup {f[j] + StepGain(ms[j], ms[i], k) : j \in {x \in 1..(i - 1) : StepOk(ms[x], ms[i], k)}}
    IN  CHOOSE v \in cands : \A w \in cands : w <= v
RECURSIVE OptTable(_, _, _)
OptTable(ms, k, f) == IF Len(f) = Len(ms) THEN f ELSE OptTable(ms, k, Append(f, BestEnding(ms, k, f, Len(f) + 1)))
SeqMax(f) == IF f = << >> THEN 0 ELSE CHOOSE v \in {f[i] : i \in 1..Len(f)} : \A i \in 1..Len(f) : f[i] <= v
LcskOpt(ms, k) == SeqMax(OptTable(ms, k, << >>))

\* definition proper: maximum over all chains (for small match lists)
RECURSIVE AscSeqs(_, _)
AscSeqs(lo, hi) ==            \* all strictly ascending sequences over lo..hi
    IF lo > hi THEN {<< >>}
    ELSE LET rest == AscSeqs(lo + 1, hi) IN rest \cup {<< lo >> \o s : s \in rest}
LcskOptDef(ms, k) ==
    LET scores == {LcskScore(ms, k, p) : p \in {c \in AscSeqs(0, Len(ms) - 1) : ValidChain(ms, k, c)}}
    IN  CHOOSE v \in scores : \A w \in scores : w <= v

\* acceptance predicates of the traces (total in path/score)
IsNatSeq(p) == \A i \in 1..Len(p) : p[i] \in Nat
LcskppOk(ms, k, path, score) ==
    IF ms = << >> THEN path = << >> /\ score = 0
    ELSE /\ path # << >> /\ IsNatSeq(path)
         /\ ValidChain(ms, k, path)
         /\ score = LcskScore(ms, k, path)
         /\ score = LcskOpt(ms, k)
\* lcskpp's exposed dp_vector (documented as "can generally be ignored"): entry i = <<best score of a
\* chain ending in match i, predecessor index or -1>>. Not promised by the property: judged as
\* machine-layer conformance only (DRIFT, not REJECT).
DpVectorOk(ms, k, dp) ==
    LET F == OptTable(ms, k, << >>) IN
    /\ Len(dp) >= Len(ms)                      \* (the code allocates one slot per event; the first M are used)
    /\ \A i \in 1..Len(ms) :
          /\ Len(dp[i]) = 2 /\ dp[i][1] = F[i]
          /\ IF dp[i][2] < 0 THEN F[i] = k
             ELSE /\ dp[i][2] < i - 1
                  /\ StepOk(ms[dp[i][2] + 1], ms[i], k)
                  /\ F[i] = F[dp[i][2] + 1] + StepGain(ms[dp[i][2] + 1], ms[i], k)
ChainOk(ms, k, path) ==            \* sdpkpp, sdpkpp_union_lcskpp_path: a valid chain, non-empty
    IF ms = << >> THEN path = << >>
    ELSE path # << >> /\ IsNatSeq(path) /\ ValidChain(ms, k, path)
ExpandOk(x, y, k, ms, out) ==      \* expand_kmer_matches
    /\ IsPairList(out) /\ StrictlySorted(out)
    /\ \A i \in 1..Len(ms) : \E j \in 1..Len(out) : out[j] = ms[i]
    /\ \A j \in 1..Len(out) : out[j][1] + k <= Len(x) /\ out[j][2] + k <= Len(y)

\* ------------------------------------------------ machine: step operators
\* events <<x, y, tag>>: tag = idx + M for the start of match idx (0-based), idx for its end (x+k,y+k);
\* sorted as tuples, so an end at (x,y) precedes a start at (x,y)
EvLess(a, b) == a[1] < b[1] \/ (a[1] = b[1] /\ (a[2] < b[2] \/ (a[2] = b[2] /\ a[3] < b[3])))
EventSet(ms, k) ==
    {<<ms[i][1], ms[i][2], (i - 1) + Len(ms)>> : i \in 1..Len(ms)} \cup
    {<<ms[i][1] + k, ms[i][2] + k, i - 1>> : i \in 1..Len(ms)}
RECURSIVE SortEvents(_)
SortEvents(S) == IF S = {} THEN << >>
                 ELSE LET m == CHOOSE e \in S : \A f \in S : f = e \/ EvLess(e, f)
                      IN  << m >> \o SortEvents(S \ {m})
TreeSize(ms, k) ==           \* n = max over matches of x+k, y+k
    LET vals == {0} \cup {ms[i][1] + k : i \in 1..Len(ms)} \cup {ms[i][2] + k : i \in 1..Len(ms)}
    IN  CHOOSE v \in vals : \A w \in vals : w <= v

\* MaxBitTree<(u32,u32)>: tree[1..n+1] of pairs (1-based slot idx = code's tree[idx-1+1]); max of pairs
PairMax(a, b) == IF PairLess(a, b) THEN b ELSE a
RECURSIVE LowBitFrom(_, _)
LowBitFrom(i, b) == IF (i \div b) % 2 = 1 THEN b ELSE LowBitFrom(i, 2 * b)
LowBit(i) == LowBitFrom(i, 1)                       \* i & -i, i > 0
\* tree is a sequence of len+1 slots, slot 0 unused: tree[s + 1] is the code's tree[s]
RECURSIVE FenGetFrom(_, _, _)
FenGetFrom(tree, s, acc) == IF s <= 0 THEN acc ELSE FenGetFrom(tree, s - LowBit(s), PairMax(acc, tree[s + 1]))
FenGet(tree, idx) == FenGetFrom(tree, idx + 1, <<0, 0>>)
RECURSIVE FenSetFrom(_, _, _)
FenSetFrom(tree, s, val) ==
    IF s >= Len(tree) THEN tree
    ELSE FenSetFrom([tree EXCEPT ![s + 1] = PairMax(@, val)], s + LowBit(s), val)
FenSet(tree, idx, val) == FenSetFrom(tree, idx + 1, val)

\* matches.binary_search(&(x,y)): index (0-based) or -1
FindMatch(ms, m) == IF \E i \in 1..Len(ms) : ms[i] = m THEN (CHOOSE i \in 1..Len(ms) : ms[i] = m) - 1 ELSE -1
\* max on (score, prev) tuples as the code's dp entries
DpMax(a, b) == IF a[1] < b[1] \/ (a[1] = b[1] /\ a[2] < b[2]) THEN b ELSE a
=============================================================================
