CONSTANTS
  G = 4
  MaxM = 4
  Ks = {1, 2}
SPECIFICATION Spec
INVARIANTS EventsSorted DpMeaning FenMeaning BestMeaning Final OptLemma
PROPERTY Progress
CHECK_DEADLOCK FALSE
