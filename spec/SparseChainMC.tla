---------------------------- MODULE SparseChainMC ----------------------------
(***************************************************************************)
(* The LCSk++ sweep of sparse.rs::lcskpp for every strictly sorted match   *)
(* list with at most MaxM matches inside a G x G grid and every k in Ks.   *)
(*   Sweep      one step per event in sorted order:                        *)
(*              start of match p: dp[p] = (k,-1), or (k + best, pos) where *)
(*                (best,pos) = prefix maximum of the Fenwick tree at       *)
(*                column y (matches that ended at or before this corner)   *)
(*              end of match p: diagonal continuation of match (x-1,y-1)   *)
(*                found by binary search; then the tree is updated at      *)
(*                column y+k with (score, p)                               *)
(*   Trace      follow the prev pointers from the best entry               *)
(* Invariants tie the tree and the dp vector to the O(M^2) recurrence and  *)
(* the final result to the maximum over all valid chains.                  *)
(***************************************************************************)
EXTENDS SparseChain, TLC
CONSTANTS G, MaxM, Ks

VARIABLES ms, k, evs, ei, tree, dp, best, pc, ptr, path
vars == <<ms, k, evs, ei, tree, dp, best, pc, ptr, path>>

Grid == (0..(G - 1)) \X (0..(G - 1))
\* all strictly sorted lists of exactly m grid points, built by extension (no 16^m enumeration)
RECURSIVE SortedOfLen(_)
SortedOfLen(m) ==
    IF m = 0 THEN {<< >>}
    ELSE {Append(s, pt) : <<s, pt>> \in {sp \in SortedOfLen(m - 1) \X Grid :
                                          sp[1] = << >> \/ PairLess(sp[1][Len(sp[1])], sp[2])}}
SortedLists == UNION {SortedOfLen(m) : m \in 0..MaxM}
M == Len(ms)

Init ==
    /\ ms \in SortedLists /\ k \in Ks
    /\ evs = SortEvents(EventSet(ms, k))
    /\ ei = 0
    /\ tree = [i \in 1..(TreeSize(ms, k) + 1) |-> <<0, 0>>]
    /\ dp = [i \in 1..Len(ms) |-> <<0, 0>>]
    /\ best = <<k, 0>>
    /\ pc = IF ms = << >> THEN "done" ELSE "sweep"          \* early return for no matches
    /\ ptr = -1 /\ path = << >>

StartEvent(ev, p) ==
    LET bv == FenGet(tree, ev[2]) IN
    IF bv[1] > 0
    THEN /\ dp' = [dp EXCEPT ![p + 1] = <<k + bv[1], bv[2]>>]
         /\ best' = DpMax(best, <<k + bv[1], p>>)
         /\ UNCHANGED tree
    ELSE /\ dp' = [dp EXCEPT ![p + 1] = <<k, -1>>]
         /\ UNCHANGED <<best, tree>>

EndEvent(ev, p) ==
    LET c  == IF ev[1] > k /\ ev[2] > k THEN FindMatch(ms, <<ev[1] - k - 1, ev[2] - k - 1>>) ELSE -1
        d2 == IF c >= 0 THEN DpMax(dp[p + 1], <<dp[c + 1][1] + 1, c>>) ELSE dp[p + 1]
    IN  /\ dp' = [dp EXCEPT ![p + 1] = d2]
        /\ best' = IF c >= 0 THEN DpMax(best, <<d2[1], p>>) ELSE best
        /\ tree' = FenSet(tree, ev[2], <<d2[1], p>>)

Sweep ==
    /\ pc = "sweep" /\ ei < Len(evs)
    /\ LET ev == evs[ei + 1]
           p  == ev[3] % M
       IN  IF ev[3] >= M THEN StartEvent(ev, p) ELSE EndEvent(ev, p)
    /\ ei' = ei + 1
    /\ UNCHANGED <<ms, k, evs, pc, ptr, path>>

SweepDone ==
    /\ pc = "sweep" /\ ei = Len(evs)
    /\ pc' = "trace" /\ ptr' = best[2]
    /\ UNCHANGED <<ms, k, evs, ei, tree, dp, best, path>>

TraceStep ==
    /\ pc = "trace" /\ ptr >= 0
    /\ path' = << ptr >> \o path
    /\ ptr' = dp[ptr + 1][2]
    /\ UNCHANGED <<ms, k, evs, ei, tree, dp, best, pc>>

TraceDone ==
    /\ pc = "trace" /\ ptr < 0
    /\ pc' = "done"
    /\ UNCHANGED <<ms, k, evs, ei, tree, dp, best, ptr, path>>

Next == Sweep \/ SweepDone \/ TraceStep \/ TraceDone
Spec == Init /\ [][Next]_vars

\* ------------------------------------------------------------- invariants
F == OptTable(ms, k, << >>)                 \* F[i] = best score of a chain ending in match i (1-based)
Score == IF ms = << >> THEN 0 ELSE best[1]

EvIndex(e) == CHOOSE i \in 1..Len(evs) : evs[i] = e
Started(p) == EvIndex(<<ms[p + 1][1], ms[p + 1][2], p + M>>) <= ei           \* p 0-based
Ended(p)   == EvIndex(<<ms[p + 1][1] + k, ms[p + 1][2] + k, p>>) <= ei

EventsSorted == \A i \in 1..(Len(evs) - 1) : EvLess(evs[i], evs[i + 1])

\* best chain score ending in p using only a jump (or nothing) as the last step
JumpBest(p) ==
    LET cands == {k} \cup {F[j] + k : j \in {x \in 1..M : Jumps(ms[x], ms[p + 1], k)}}
    IN  CHOOSE v \in cands : \A w \in cands : w <= v

DpMeaning == pc # "done" \/ ms # << >> =>
    \A p \in 0..(M - 1) :
        /\ Ended(p) => dp[p + 1][1] = F[p + 1]
        /\ (Started(p) /\ ~Ended(p)) => dp[p + 1][1] = JumpBest(p)
        \* the pointer names a legal predecessor that explains the score
        /\ (Started(p) /\ dp[p + 1][2] >= 0) =>
              LET c == dp[p + 1][2] IN
              /\ c < p /\ StepOk(ms[c + 1], ms[p + 1], k)
              /\ dp[p + 1][1] = dp[c + 1][1] + StepGain(ms[c + 1], ms[p + 1], k)
        /\ (Started(p) /\ dp[p + 1][2] < 0) => dp[p + 1][1] = k

\* prefix maximum of the tree at column j = best score among the matches that ended with y+k <= j
FenMeaning == ms # << >> =>
    \A j \in 0..(TreeSize(ms, k) - 1) :
        LET got == FenGet(tree, j)
            S == {F[p + 1] : p \in {x \in 0..(M - 1) : Ended(x) /\ ms[x + 1][2] + k <= j}}
        IN  IF S = {} THEN got = <<0, 0>>
            ELSE /\ got[1] = (CHOOSE v \in S : \A w \in S : w <= v)
                 /\ got[2] \in 0..(M - 1) /\ Ended(got[2]) /\ ms[got[2] + 1][2] + k <= j
                 /\ F[got[2] + 1] = got[1]

BestMeaning == pc \in {"trace", "done"} => Score = LcskOpt(ms, k)

Final == pc = "done" =>
    /\ LcskppOk(ms, k, path, Score)                 \* the trace predicate accepts the machine
    /\ Score = LcskOptDef(ms, k)                    \* ... and means the maximum over all valid chains
    /\ DpVectorOk(ms, k, dp)                        \* the conformance (DRIFT) predicate accepts the machine's dp

OptLemma == ei = 0 => LcskOpt(ms, k) = LcskOptDef(ms, k)

Measure == CASE pc = "sweep" -> 100 + (Len(evs) - ei)
             [] pc = "trace" -> 1 + (IF ptr >= 0 THEN ptr + 2 ELSE 1)
             [] OTHER -> 0
Progress == [][Measure' < Measure]_vars
=============================================================================
