CONSTANTS
  G = 4
  MaxM = 6
  Ks = {1, 2, 3}
SPECIFICATION Spec
INVARIANTS EventsSorted DpMeaning FenMeaning BestMeaning Final OptLemma
PROPERTY Progress
CHECK_DEADLOCK FALSE
