--------------------------- MODULE SparseChainTrace ---------------------------
(* Trace validation for the family "sparse" (C19).                           *)
(*  run.cfg = [x, y, k]; events                                              *)
(*    kmer_matches | kmer_matches_h1 | kmer_matches_h2 -> v (must equal the   *)
(*        sorted set of k-mer matches of x and y)                            *)
(*    lcskpp(m) -> path, score      valid chain over m, score = its LCSk++   *)
(*        score = the optimum                                                *)
(*    sdpkpp(m, ms, go, ge) -> path | union(m, ...) -> path   valid chain,   *)
(*        non-empty when m is non-empty (scores are heuristic: not judged)   *)
(*    expand(m, mm) -> v            strictly sorted superset of m inside     *)
(*        both sequences                                                     *)
(*  m is always a strictly sorted list of pairs (precondition).              *)
EXTENDS SparseChain, TLC, Json, IOUtils

Rec == ndJsonDeserialize(IOEnv.TRACE)

VARIABLES run, idx, ok
vars == <<run, idx, ok>>

Explains(cfg, e) ==
    LET c == e.c  r == e.r IN
    \* an unsorted list is outside the property (the code documents it by an assertion): whatever
    \* happens, as long as the call returns
    IF c.op \in {"lcskpp_unsorted", "sdpkpp_unsorted"} THEN r.st \in {"ok", "panic"} ELSE
    /\ r.st = "ok"
    /\ CASE c.op \in {"kmer_matches", "kmer_matches_h1", "kmer_matches_h2"} ->
              r.v = KmerMatches(cfg.x, cfg.y, cfg.k)
         [] c.op = "lcskpp" -> LcskppOk(c.a.m, cfg.k, r.path, r.score)
         [] c.op \in {"sdpkpp", "union"} -> ChainOk(c.a.m, cfg.k, r.path)
         [] c.op = "expand" -> ExpandOk(cfg.x, cfg.y, cfg.k, c.a.m, r.v)
         [] OTHER -> FALSE

\* conformance with the code as it is, beyond the property: the exposed dp vector of lcskpp, the refusal
\* of unsorted lists
Exact(cfg, e) ==
    CASE e.c.op = "lcskpp" -> ("dp" \in DOMAIN e.r) => DpVectorOk(e.c.a.m, cfg.k, e.r.dp)
      [] e.c.op \in {"lcskpp_unsorted", "sdpkpp_unsorted"} -> e.r.st = "panic"
      [] OTHER -> TRUE

Init == run \in 1..Len(Rec) /\ idx = 0 /\ ok = TRUE
Next ==
    /\ ok /\ idx < Len(Rec[run].ev)
    /\ LET good == Explains(Rec[run].cfg, Rec[run].ev[idx + 1])
       IN  /\ ok' = good
           /\ IF good
              THEN (IF Exact(Rec[run].cfg, Rec[run].ev[idx + 1]) THEN TRUE ELSE PrintT(<<"DRIFT", run, idx + 1>>))
              ELSE PrintT(<<"REJECT", run, idx + 1>>)
    /\ idx' = idx + 1
    /\ UNCHANGED run
Spec == Init /\ [][Next]_vars
=============================================================================
