------------------------------- MODULE Succinct -------------------------------
(***************************************************************************)
(* C17 -- rank/select (src/data_structures/rank_select.rs) and the wavelet *)
(* matrix over the DNA alphabet (src/data_structures/wavelet_matrix.rs).   *)
(*                                                                         *)
(* Definition layer: naive counting.                                       *)
(*   Rank(bits,x,i)   number of bits equal to x at positions 0..i          *)
(*                    (None when i is beyond the end)                      *)
(*   Select(bits,x,j) position of the j-th bit equal to x (None for j = 0  *)
(*                    and for j larger than the number of such bits)       *)
(*   WRank(text,c,p)  number of occurrences of c in text[0..p]             *)
(*                                                                         *)
(* Machine layer (pure step operators here; the state machines over them   *)
(* are SuccinctMC.tla -- superblock construction, rank loop, binary search *)
(* over First/Some markers, block scan, bit scan ignoring the padding of   *)
(* the last block -- and SuccinctWMMC.tla -- level construction by stable  *)
(* partition and the per-level [spos,epos) walk).  The block width (8 in   *)
(* the code) and the number of blocks per unit of k (4 in the code: a      *)
(* superblock has k*32 bits) are parameters so that TLC can put several    *)
(* superblocks and a padded last block into a 10-bit vector.               *)
(*                                                                         *)
(* Bit vectors are sequences over {0,1}; position i (0-based, as in the    *)
(* code) is bits[i+1].                                                     *)
(***************************************************************************)
EXTENDS Naturals, Integers, Sequences, FiniteSets

None == -1            \* Option::None in the recorded traces

Min2(a, b) == IF a <= b THEN a ELSE b
Max2(a, b) == IF a >= b THEN a ELSE b
CeilDiv(a, b) == (a + b - 1) \div b

\* ------------------------------------------------------------ definition
\* number of positions p in lo..hi (0-based, inclusive, clipped to the vector) with bit x
CountIn(bits, x, lo, hi) ==
    Cardinality({p \in lo..hi : p >= 0 /\ p < Len(bits) /\ bits[p + 1] = x})

Total(bits, x) == CountIn(bits, x, 0, Len(bits) - 1)

Rank(bits, x, i) ==
    IF i < 0 \/ i >= Len(bits) THEN None ELSE CountIn(bits, x, 0, i)

Select(bits, x, j) ==
    IF j <= 0 \/ j > Total(bits, x) THEN None
    ELSE CHOOSE p \in 0..(Len(bits) - 1) : bits[p + 1] = x /\ CountIn(bits, x, 0, p) = j

\* rank and select are mutually inverse (a lemma about the definitions; checked in SuccinctMC)
MutuallyInverse(bits, x) ==
    /\ \A j \in 0..(Len(bits) + 1) :
          LET p == Select(bits, x, j) IN
          p # None => /\ bits[p + 1] = x
                      /\ Rank(bits, x, p) = j
                      /\ (p > 0 => Rank(bits, x, p - 1) = j - 1)
    /\ \A i \in 0..(Len(bits) - 1) :
          bits[i + 1] = x => Select(bits, x, Rank(bits, x, i)) = i

\* ----------------------------------------- linear-time form used on traces
\* RankTab(bits,x)[i+1] = Rank(bits,x,i); one pass (lemma TableLemma in SuccinctMC)
RECURSIVE RankTabAcc(_, _, _, _)
RankTabAcc(bits, x, i, acc) ==
    IF i = Len(bits) THEN acc
    ELSE RankTabAcc(bits, x, i + 1,
                    Append(acc, (IF i = 0 THEN 0 ELSE acc[i]) + (IF bits[i + 1] = x THEN 1 ELSE 0)))
RankTab(bits, x) == RankTabAcc(bits, x, 0, << >>)

\* answers for i = 0 .. n+1 (the last two are beyond the end)
RankAnswers(bits, x) ==
    LET tab == RankTab(bits, x)
        n   == Len(bits)
    IN  [i \in 1..(n + 2) |-> IF i <= n THEN tab[i] ELSE None]

\* is v the answer of select_x(j)?  (total in v)
SelectAnswerOk(bits, tab, x, j, v) ==
    LET n == Len(bits)
        total == IF n = 0 THEN 0 ELSE tab[n]
    IN  IF j <= 0 \/ j > total THEN v = None
        ELSE /\ v \in 0..(n - 1)
             /\ bits[v + 1] = x
             /\ tab[v + 1] = j

SelectAnswersOk(bits, x, vs) ==
    LET tab == RankTab(bits, x)
        n   == Len(bits)
    IN  /\ Len(vs) = n + 2
        /\ \A j \in 0..(n + 1) : SelectAnswerOk(bits, tab, x, j, vs[j + 1])

\* ------------------------------------------- structured vectors (closed form)
\* Huge vectors are never written out. A structured vector is given by parameters
\*   n, P, R, X :  bit i (0 <= i < n) is 1  iff  (i % P \in R)  differs from  (i \in X)
\* i.e. a periodic pattern with residue set R \subseteq 0..P-1, flipped at the few explicit positions X
\* (sparse vector: P = 1, R = {}, X = the ones; its complement: P = 1, R = {0}, X = the zeros).
\* Rank has a closed form; a select answer is verified through rank (the answer is unique).
\* StructLemma in SuccinctMC: closed form = naive definition for all small parameters.
SBase(P, R, i) == (i % P) \in R
SBit(P, R, X, i) == IF SBase(P, R, i) # (i \in X) THEN 1 ELSE 0
SBits(n, P, R, X) == [i \in 1..n |-> SBit(P, R, X, i - 1)]
\* ones among positions 0..i of the periodic part
SPerOnes(P, R, i) == ((i + 1) \div P) * Cardinality(R) + Cardinality({r \in R : r < (i + 1) % P})
SRank1(P, R, X, i) ==
    SPerOnes(P, R, i) + Cardinality({x \in X : x <= i /\ ~SBase(P, R, x)})
                      - Cardinality({x \in X : x <= i /\ SBase(P, R, x)})
SRank(n, P, R, X, x, i) ==
    IF i < 0 \/ i >= n THEN None
    ELSE IF x = 1 THEN SRank1(P, R, X, i) ELSE (i + 1) - SRank1(P, R, X, i)
SSelectOk(n, P, R, X, x, j, v) ==
    IF j <= 0 \/ j > SRank(n, P, R, X, x, n - 1) THEN v = None
    ELSE /\ v \in 0..(n - 1)
         /\ SBit(P, R, X, v) = x
         /\ SRank(n, P, R, X, x, v) = j

\* -------------------------------------------------- machine: blocks, words
\* BB = bits per block (u8: 8), the last block is padded with zero bits
NBlocks(bits, BB) == CeilDiv(Len(bits), BB)
BitAt(bits, p) == IF p < Len(bits) THEN bits[p + 1] ELSE 0           \* padding reads as 0
BlockOnes(bits, BB, b) == Cardinality({o \in 0..(BB - 1) : BitAt(bits, b * BB + o) = 1})
\* count_ones / count_zeros of the whole block: zeros include the padding
BlockCount(bits, BB, b, x) == IF x = 1 THEN BlockOnes(bits, BB, b) ELSE BB - BlockOnes(bits, BB, b)
\* popcount of (block & ((2 << j) - 1)): bits 0..j of block b
MaskedOnes(bits, BB, b, j) == Cardinality({o \in 0..j : BitAt(bits, b * BB + o) = 1})

\* SuperblockRank: <<tag, rank>>, tag "F" = First (first superblock with this rank), "S" = Some
\* three-way comparison of an entry with the search key First(j): -1 less, 0 equal, 1 greater
SbCmpKey(e, j) ==
    IF e[2] < j THEN -1
    ELSE IF e[2] > j THEN 1
    ELSE IF e[1] = "F" THEN 0 ELSE 1

\* the entry pushed at a superblock start
SbEntry(rank, lastRank) == IF rank # lastRank THEN <<"F", rank>> ELSE <<"S", rank>>

\* --------------------------------------------------------- wavelet matrix
\* DNA2INT of the code: A C G T N $ -> 0..5 (every other byte reads as 0)
WCode(c) == CASE c = 65 -> 0 [] c = 67 -> 1 [] c = 71 -> 2 [] c = 84 -> 3 [] c = 78 -> 4
              [] c = 36 -> 5 [] OTHER -> 0
WSyms == {65, 67, 71, 84, 78, 36}
Height == 3
Pow2(e) == IF e = 0 THEN 1 ELSE IF e = 1 THEN 2 ELSE IF e = 2 THEN 4 ELSE 8
WBit(c, level) == (WCode(c) \div Pow2(Height - level - 1)) % 2        \* level 0 = most significant bit

WRank(text, c, p) == Cardinality({i \in 0..p : i < Len(text) /\ text[i + 1] = c})

\* linear-time form for traces: answers for p = 0..n-1
RECURSIVE WRankTabAcc(_, _, _, _)
WRankTabAcc(text, c, i, acc) ==
    IF i = Len(text) THEN acc
    ELSE WRankTabAcc(text, c, i + 1,
                     Append(acc, (IF i = 0 THEN 0 ELSE acc[i]) + (IF text[i + 1] = c THEN 1 ELSE 0)))
WRankTab(text, c) == WRankTabAcc(text, c, 0, << >>)

\* one level of the matrix: `order` = symbols in the order of this level (zeros part then ones part
\* of the previous level); the level's bit vector, and the order of the next level (stable partition)
LevelBits(order, level) == [i \in 1..Len(order) |-> WBit(order[i], level)]
NextOrder(order, level) ==
    SelectSeq(order, LAMBDA c : WBit(c, level) = 0) \o SelectSeq(order, LAMBDA c : WBit(c, level) = 1)
\* prank(level, p, val): number of bits = val among the first p bits of the level
PRank(lbits, p, val) == IF p = 0 THEN 0 ELSE Rank(lbits, val, p - 1)

=============================================================================
