CONSTANTS
  BB = 2
  WB = 1
  MaxN = 9
  LemmaP = 3
  LemmaN = 7
  MaxK = 2
SPECIFICATION Spec
INVARIANTS Built Sorted Building RankLoopInv BSearchInv ScanInv Result DefLemmas MeasureNat NotStuck
PROPERTY Progress
CHECK_DEADLOCK FALSE
