----------------------------- MODULE SuccinctMC -----------------------------
(***************************************************************************)
(* The RankSelect machine of rank_select.rs, explored for every bit vector *)
(* of length 1..MaxN, every k in 1..MaxK and every query.                  *)
(*   build     superblocks(): one step per block, pushes First/Some(rank)  *)
(*             at every superblock start (for ones and for zeros)          *)
(*   rank      rank_1 / rank_0: superblock rank + masked popcount of the   *)
(*             block of i + one step per block between superblock start    *)
(*             and that block                                              *)
(*   select    select_x: binary search for First(j) in the superblock      *)
(*             vector, saturating step back, block scan with count_all     *)
(*             (zeros of the padded last block include the padding), bit   *)
(*             scan limited to the used bits; the fall-through `rank += p` *)
(*             after an unsuccessful bit scan is modelled as in the code   *)
(* A superblock has k*WB blocks of BB bits (code: WB = 4, BB = 8).         *)
(***************************************************************************)
EXTENDS Succinct, TLC
CONSTANTS BB, WB, MaxN, MaxK, LemmaP, LemmaN

\* the closed forms used for huge structured vectors equal the naive definitions (all periods <= LemmaP,
\* all residue sets, n <= LemmaN, up to two flipped positions, every query)
StructLemma ==
    \A P \in 1..LemmaP : \A R \in SUBSET (0..(P - 1)) : \A n \in 1..LemmaN :
      \A X \in {Y \in SUBSET (0..(n - 1)) : Cardinality(Y) <= 2} :
        LET b == SBits(n, P, R, X) IN
        \A x \in {0, 1} :
          /\ \A i \in 0..(n + 1) : SRank(n, P, R, X, x, i) = Rank(b, x, i)
          /\ \A j \in 0..(n + 1) : \A v \in -1..n : SSelectOk(n, P, R, X, x, j, v) <=> v = Select(b, x, j)
ASSUME StructLemma

VARIABLES bits, k, pc, sb1, sb0, cur, acc1, acc0, last1, last0,
          op, arg, lo, hi, blk, endb, rank, bit, res
vars == <<bits, k, pc, sb1, sb0, cur, acc1, acc0, last1, last0, op, arg, lo, hi, blk, endb, rank, bit, res>>

N  == Len(bits)
S  == k * WB * BB            \* superblock size in bits
SBlocks == k * WB            \* superblock size in blocks
NB == NBlocks(bits, BB)
X  == IF op \in {"rank1", "sel1"} THEN 1 ELSE 0
Sb == IF X = 1 THEN sb1 ELSE sb0

BitVectors == UNION {[1..n -> {0, 1}] : n \in 1..MaxN}

Init ==
    /\ bits \in BitVectors
    /\ k \in 1..MaxK
    /\ pc = "build"
    /\ sb1 = << >> /\ sb0 = << >>
    /\ cur = 0 /\ acc1 = 0 /\ acc0 = 0 /\ last1 = None /\ last0 = None
    /\ op = "none" /\ arg = 0 /\ lo = 0 /\ hi = 0 /\ blk = 0 /\ endb = 0 /\ rank = 0 /\ bit = 0
    /\ res = None

qvars == <<op, arg, lo, hi, blk, endb, rank, bit, res>>
bvars == <<sb1, sb0, cur, acc1, acc0, last1, last0>>

\* ------------------------------------------------------------------ build
BuildStep ==
    /\ pc = "build" /\ cur < NB
    /\ LET start == (cur * BB) % S = 0 IN
       /\ sb1' = IF start THEN Append(sb1, SbEntry(acc1, last1)) ELSE sb1
       /\ sb0' = IF start THEN Append(sb0, SbEntry(acc0, last0)) ELSE sb0
       /\ last1' = IF start THEN acc1 ELSE last1
       /\ last0' = IF start THEN acc0 ELSE last0
    /\ acc1' = acc1 + BlockCount(bits, BB, cur, 1)
    /\ acc0' = acc0 + BlockCount(bits, BB, cur, 0)
    /\ cur' = cur + 1
    /\ UNCHANGED <<bits, k, pc>> /\ UNCHANGED qvars

BuildDone ==
    /\ pc = "build" /\ cur = NB
    /\ pc' = "idle"
    /\ UNCHANGED <<bits, k>> /\ UNCHANGED bvars /\ UNCHANGED qvars

\* ------------------------------------------------------------------- rank
StartRank(o, i) ==
    /\ pc = "idle"
    /\ op' = o /\ arg' = i
    /\ IF i >= N
       THEN /\ pc' = "done" /\ res' = None
            /\ UNCHANGED <<lo, hi, blk, endb, rank, bit>>
       ELSE LET s == i \div S
                b == i \div BB
                j == i % BB
            IN  /\ rank' = sb1[s + 1][2] + MaskedOnes(bits, BB, b, j)
                /\ blk' = (s * S) \div BB
                /\ endb' = b
                /\ pc' = "rank_loop"
                /\ UNCHANGED <<lo, hi, bit, res>>
    /\ UNCHANGED <<bits, k>> /\ UNCHANGED bvars

RankLoopStep ==
    /\ pc = "rank_loop" /\ blk < endb
    /\ rank' = rank + BlockOnes(bits, BB, blk)
    /\ blk' = blk + 1
    /\ UNCHANGED <<bits, k, pc, op, arg, lo, hi, endb, bit, res>> /\ UNCHANGED bvars

RankFinish ==
    /\ pc = "rank_loop" /\ blk = endb
    /\ res' = IF op = "rank1" THEN rank ELSE (arg + 1) - rank
    /\ pc' = "done"
    /\ UNCHANGED <<bits, k, op, arg, lo, hi, blk, endb, rank, bit>> /\ UNCHANGED bvars

\* ----------------------------------------------------------------- select
StartSelect(o, j) ==
    /\ pc = "idle"
    /\ op' = o /\ arg' = j
    /\ IF j = 0
       THEN /\ pc' = "done" /\ res' = None /\ UNCHANGED <<lo, hi>>
       ELSE /\ pc' = "bsearch" /\ lo' = 0 /\ hi' = Len(IF o = "sel1" THEN sb1 ELSE sb0) /\ UNCHANGED res
    /\ UNCHANGED <<bits, k, blk, endb, rank, bit>> /\ UNCHANGED bvars

\* leave the binary search with result index idx (Ok(idx) or Err(idx))
EnterScan(idx) ==
    LET sbi == IF idx = 0 THEN 0 ELSE idx - 1          \* saturating_sub(1)
        first == (sbi * S) \div BB
    IN  /\ rank' = Sb[sbi + 1][2]
        /\ blk' = first
        /\ endb' = Min2(first + S \div BB, NB)
        /\ pc' = "sel_block"

BSearchStep ==
    /\ pc = "bsearch"
    /\ IF lo < hi
       THEN LET mid == (lo + hi) \div 2
                c   == SbCmpKey(Sb[mid + 1], arg)
            IN  IF c = -1 THEN lo' = mid + 1 /\ UNCHANGED <<hi, pc, rank, blk, endb>>
                ELSE IF c = 1 THEN hi' = mid /\ UNCHANGED <<lo, pc, rank, blk, endb>>
                ELSE EnterScan(mid) /\ UNCHANGED <<lo, hi>>
       ELSE EnterScan(lo) /\ UNCHANGED <<lo, hi>>
    /\ UNCHANGED <<bits, k, op, arg, bit, res>> /\ UNCHANGED bvars

SelBlockStep ==
    /\ pc = "sel_block"
    /\ IF blk >= endb
       THEN /\ res' = None /\ pc' = "done" /\ UNCHANGED <<blk, rank, bit>>
       ELSE LET p == BlockCount(bits, BB, blk, X) IN
            IF rank + p >= arg
            THEN /\ pc' = "sel_bit" /\ bit' = 0 /\ UNCHANGED <<blk, rank, res>>
            ELSE /\ rank' = rank + p /\ blk' = blk + 1 /\ UNCHANGED <<pc, bit, res>>
    /\ UNCHANGED <<bits, k, op, arg, lo, hi, endb>> /\ UNCHANGED bvars

SelBitStep ==
    /\ pc = "sel_bit"
    /\ LET maxbit == Min2(BB, N - blk * BB) IN
       IF bit < maxbit
       THEN LET r2 == rank + (IF BitAt(bits, blk * BB + bit) = X THEN 1 ELSE 0) IN
            /\ rank' = r2
            /\ IF r2 = arg
               THEN /\ res' = blk * BB + bit /\ pc' = "done" /\ UNCHANGED <<bit, blk>>
               ELSE /\ bit' = bit + 1 /\ UNCHANGED <<res, pc, blk>>
       ELSE \* the bit loop found nothing (padding was counted): `rank += p` and the next block
            /\ rank' = rank + BlockCount(bits, BB, blk, X)
            /\ blk' = blk + 1
            /\ pc' = "sel_block"
            /\ UNCHANGED <<bit, res>>
    /\ UNCHANGED <<bits, k, op, arg, lo, hi, endb>> /\ UNCHANGED bvars

Next ==
    \/ BuildStep \/ BuildDone
    \/ \E i \in 0..(N + 1) : StartRank("rank1", i) \/ StartRank("rank0", i)
    \/ \E j \in 0..(N + 1) : StartSelect("sel1", j) \/ StartSelect("sel0", j)
    \/ RankLoopStep \/ RankFinish \/ BSearchStep \/ SelBlockStep \/ SelBitStep

Spec == Init /\ [][Next]_vars

\* ------------------------------------------------------------- invariants
\* what the superblock vectors mean once built: entry t = number of x-bits before superblock t,
\* tagged First iff it differs from the entry before
SbMeaning(sb, x) ==
    /\ Len(sb) = CeilDiv(NB, SBlocks)
    /\ \A t \in 1..Len(sb) :
          /\ sb[t][2] = CountIn(bits, x, 0, (t - 1) * S - 1)
          /\ sb[t][1] = (IF t = 1 \/ sb[t - 1][2] # sb[t][2] THEN "F" ELSE "S")
Built == pc # "build" => SbMeaning(sb1, 1) /\ SbMeaning(sb0, 0)

\* sorted under the derived ordering, at most one First per rank: what binary_search relies on
SbSorted(sb) ==
    \A t \in 1..(Len(sb) - 1) :
        \/ sb[t][2] < sb[t + 1][2] /\ sb[t + 1][1] = "F"
        \/ sb[t][2] = sb[t + 1][2] /\ sb[t + 1][1] = "S"
Sorted == pc # "build" => SbSorted(sb1) /\ SbSorted(sb0)

Building == pc = "build" =>
    /\ acc1 = CountIn(bits, 1, 0, cur * BB - 1)
    /\ acc0 = cur * BB - acc1                     \* count_zeros: the padding of the last block counts
    /\ Len(sb1) = CeilDiv(cur, SBlocks) /\ Len(sb0) = Len(sb1)

RankLoopInv == pc = "rank_loop" =>
    rank = CountIn(bits, 1, 0, blk * BB - 1) + CountIn(bits, 1, endb * BB, arg)

BSearchInv == pc = "bsearch" =>
    /\ 0 <= lo /\ lo <= hi /\ hi <= Len(Sb)
    /\ \A t \in 1..lo : SbCmpKey(Sb[t], arg) = -1
    /\ \A t \in (hi + 1)..Len(Sb) : SbCmpKey(Sb[t], arg) = 1

\* while scanning: everything before the current block is counted and the j-th bit is not behind us
ScanInv == (pc \in {"sel_block", "sel_bit"} /\ blk < endb) =>
    /\ rank < arg
    /\ rank = CountIn(bits, X, 0, blk * BB - 1) + (IF pc = "sel_bit" THEN CountIn(bits, X, blk * BB, blk * BB + bit - 1) ELSE 0)
    \* the answer, if any, lies in this superblock
    /\ (Select(bits, X, arg) # None => Select(bits, X, arg) \in (blk * BB)..(endb * BB - 1))

Result == pc = "done" =>
    CASE op = "rank1" -> res = Rank(bits, 1, arg)
      [] op = "rank0" -> res = Rank(bits, 0, arg)
      [] op = "sel1"  -> res = Select(bits, 1, arg)
      [] op = "sel0"  -> res = Select(bits, 0, arg)
      [] OTHER -> FALSE

\* lemmas about the definition layer (evaluated once per bit vector: in the idle state)
DefLemmas == pc = "idle" =>
    /\ MutuallyInverse(bits, 1) /\ MutuallyInverse(bits, 0)
    /\ \A x \in {0, 1} : \A i \in 0..(N - 1) : RankTab(bits, x)[i + 1] = Rank(bits, x, i)
    /\ \A x \in {0, 1} : RankAnswers(bits, x) = [i \in 1..(N + 2) |-> Rank(bits, x, i - 1)]
    /\ \A x \in {0, 1} : SelectAnswersOk(bits, x, [j \in 1..(N + 2) |-> Select(bits, x, j - 1)])
    \* ... and the trace predicate accepts nothing else
    /\ \A x \in {0, 1} : \A j \in 0..(N + 1) : \A v \in -1..N :
          SelectAnswerOk(bits, RankTab(bits, x), x, j, v) <=> v = Select(bits, x, j)

\* termination: every step strictly decreases a natural-number measure
Big == 4 * (MaxN + 4) * (BB + 4)
Measure ==
    CASE pc = "build"     -> 6 * Big + (NB - cur) + 1
      [] pc = "idle"      -> 5 * Big
      [] pc = "bsearch"   -> 3 * Big + (hi - lo) + 1
      [] pc = "rank_loop" -> Big + (endb - blk) + 1
      [] pc = "sel_block" -> Big + (endb + 1 - blk) * (BB + 2) + BB + 1
      [] pc = "sel_bit"   -> Big + (endb + 1 - blk) * (BB + 2) + (BB - bit)
      [] OTHER            -> 0
Progress == [][Measure' < Measure]_vars
MeasureNat == Measure >= 0
NotStuck == pc # "done" => ENABLED Next
=============================================================================
