CONSTANTS
  BB = 2
  WB = 1
  MaxN = 11
  LemmaP = 4
  LemmaN = 9
  MaxK = 3
SPECIFICATION Spec
INVARIANTS Built Sorted Building RankLoopInv BSearchInv ScanInv Result DefLemmas MeasureNat NotStuck
PROPERTY Progress
CHECK_DEADLOCK FALSE
