CONSTANTS
  BB = 3
  WB = 1
  MaxN = 10
  LemmaP = 2
  LemmaN = 4
  MaxK = 2
SPECIFICATION Spec
INVARIANTS Built Sorted Building RankLoopInv BSearchInv ScanInv Result DefLemmas MeasureNat NotStuck
PROPERTY Progress
CHECK_DEADLOCK FALSE
