---------------------------- MODULE SuccinctTrace ----------------------------
(* Trace validation for the families "rs" and "wm" (C17).                    *)
(*  rs: run.cfg = [n, k, ctor, bits]; one RankSelect object; events           *)
(*      new | get | rank_1 | rank_0 (answers for every i in 0..n+1, None=-1)  *)
(*      | select_1 | select_0 (answers for every j in 0..n+1).                *)
(*  wm: run.cfg = [text]; one WaveletMatrix; events new | rank(c) (answers    *)
(*      for every p in 0..n-1).                                               *)
(* Every answer must equal the naive count of the definition layer.          *)
EXTENDS Succinct, TLC, Json, IOUtils

Rec == ndJsonDeserialize(IOEnv.TRACE)

VARIABLES run, idx, ok
vars == <<run, idx, ok>>

IsBits(b) == \A i \in 1..Len(b) : b[i] \in {0, 1}

ExplainsRS(cfg, c, r) ==
    /\ r.st = "ok"
    /\ IsBits(cfg.bits) /\ Len(cfg.bits) = cfg.n
    /\ CASE c.op = "new"      -> TRUE
         [] c.op = "get"      -> r.v = cfg.bits
         [] c.op = "rank_1"   -> r.v = RankAnswers(cfg.bits, 1)
         [] c.op = "rank_0"   -> r.v = RankAnswers(cfg.bits, 0)
         [] c.op = "select_1" -> SelectAnswersOk(cfg.bits, 1, r.v)
         [] c.op = "select_0" -> SelectAnswersOk(cfg.bits, 0, r.v)
         [] OTHER -> FALSE

ExplainsWM(cfg, c, r) ==
    /\ r.st = "ok"
    /\ CASE c.op = "new"  -> TRUE
         [] c.op = "rank" -> r.v = WRankTab(cfg.text, c.a.c)
         [] OTHER -> FALSE

Explains(fam, cfg, e) ==
    CASE fam = "rs" -> ExplainsRS(cfg, e.c, e.r)
      [] fam = "wm" -> ExplainsWM(cfg, e.c, e.r)
      [] OTHER -> FALSE

Init == run \in 1..Len(Rec) /\ idx = 0 /\ ok = TRUE
Next ==
    /\ ok /\ idx < Len(Rec[run].ev)
    /\ LET good == Explains(Rec[run].fam, Rec[run].cfg, Rec[run].ev[idx + 1])
       IN  /\ ok' = good
           /\ IF good THEN TRUE ELSE PrintT(<<"REJECT", run, idx + 1>>)
    /\ idx' = idx + 1
    /\ UNCHANGED run
Spec == Init /\ [][Next]_vars
=============================================================================
