---------------------------- MODULE SuccinctTrace ----------------------------
(* Trace validation for the families "rs" and "wm" (C17).                    *)
(*  rs: run.cfg = [n, k, ctor, bits]; one RankSelect object; events           *)
(*      new | get | rank_1 | rank_0 (answers for every i in 0..n+1, None=-1)  *)
(*      | select_1 | select_0 (answers for every j in 0..n+1).                *)
(*  wm: run.cfg = [text]; one WaveletMatrix; events new | rank(c) (answers    *)
(*      for every p in 0..n-1).                                               *)
(* Every answer must equal the naive count of the definition layer.          *)
EXTENDS Succinct, TLC, Json, IOUtils

Rec == ndJsonDeserialize(IOEnv.TRACE)

VARIABLES run, idx, ok
vars == <<run, idx, ok>>

IsBits(b) == \A i \in 1..Len(b) : b[i] \in {0, 1}

ExplainsRS(cfg, c, r) ==
    /\ r.st = "ok"
    /\ IsBits(cfg.bits) /\ Len(cfg.bits) = cfg.n
    /\ CASE c.op \in {"new", "clone", "serde", "clone_from"} -> TRUE     \* later queries go to the copy or the original
         [] c.op = "get"      -> r.v = cfg.bits
         [] c.op = "rank_1"   -> r.v = RankAnswers(cfg.bits, 1)
         [] c.op = "rank_0"   -> r.v = RankAnswers(cfg.bits, 0)
         [] c.op = "select_1" -> SelectAnswersOk(cfg.bits, 1, r.v)
         [] c.op = "select_0" -> SelectAnswersOk(cfg.bits, 0, r.v)
         [] OTHER -> FALSE

ExplainsWM(cfg, c, r) ==
    /\ r.st = "ok"
    /\ CASE c.op \in {"new", "clone", "serde", "clone_from"} -> TRUE
         [] c.op = "rank" -> r.v = WRankTab(cfg.text, c.a.c)
         [] OTHER -> FALSE

\* rsbig: run.cfg = [n, k, P, R, X] = a structured vector (Succinct.tla, closed form), n up to 10^6;
\* events new | rank(is) -> v1, v0 (rank_1 / rank_0 at the listed positions) | select(js) -> s1, s0
\* | get(is) -> v
ExplainsBig(cfg, c, r) ==
    LET R == {cfg.R[i] : i \in 1..Len(cfg.R)}
        X == {cfg.X[i] : i \in 1..Len(cfg.X)}
        n == cfg.n  P == cfg.P
    IN
    /\ r.st = "ok"
    /\ P >= 1 /\ n >= 1
    /\ CASE c.op = "new" -> TRUE
         [] c.op = "get" ->
              /\ Len(r.v) = Len(c.a.is)
              /\ \A q \in 1..Len(c.a.is) : r.v[q] = SBit(P, R, X, c.a.is[q])
         [] c.op = "rank" ->
              /\ Len(r.v1) = Len(c.a.is) /\ Len(r.v0) = Len(c.a.is)
              /\ \A q \in 1..Len(c.a.is) :
                    /\ r.v1[q] = SRank(n, P, R, X, 1, c.a.is[q])
                    /\ r.v0[q] = SRank(n, P, R, X, 0, c.a.is[q])
         \* (thorough tier) an all-ones vector of 2^32 + n bits: positions and rank_1 answers are logged
         \* minus 2^32 (cfg.base): rank_1(2^32 + d) = 2^32 + d + 1, rank_0 = 0, None from d = n on
         [] c.op = "rank_hi" ->
              /\ P = 1 /\ R = {0} /\ X = {}
              /\ Len(r.none) = Len(c.a.ds) /\ Len(r.v1d) = Len(c.a.ds) /\ Len(r.v0) = Len(c.a.ds)
              /\ \A q \in 1..Len(c.a.ds) :
                    IF c.a.ds[q] >= n THEN r.none[q] = 1
                    ELSE r.none[q] = 0 /\ r.v1d[q] = c.a.ds[q] + 1 /\ r.v0[q] = 0
         [] c.op = "select" ->
              /\ Len(r.s1) = Len(c.a.js) /\ Len(r.s0) = Len(c.a.js)
              /\ \A q \in 1..Len(c.a.js) :
                    /\ SSelectOk(n, P, R, X, 1, c.a.js[q], r.s1[q])
                    /\ SSelectOk(n, P, R, X, 0, c.a.js[q], r.s0[q])
         [] OTHER -> FALSE

Explains(fam, cfg, e) ==
    CASE fam = "rs" -> ExplainsRS(cfg, e.c, e.r)
      [] fam = "wm" -> ExplainsWM(cfg, e.c, e.r)
      [] fam = "rsbig" -> ExplainsBig(cfg, e.c, e.r)
      [] OTHER -> FALSE

Init == run \in 1..Len(Rec) /\ idx = 0 /\ ok = TRUE
Next ==
    /\ ok /\ idx < Len(Rec[run].ev)
    /\ LET good == Explains(Rec[run].fam, Rec[run].cfg, Rec[run].ev[idx + 1])
       IN  /\ ok' = good
           /\ IF good THEN TRUE ELSE PrintT(<<"REJECT", run, idx + 1>>)
    /\ idx' = idx + 1
    /\ UNCHANGED run
Spec == Init /\ [][Next]_vars
=============================================================================
