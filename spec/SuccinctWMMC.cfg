CONSTANTS
  MaxLen = 4
SPECIFICATION Spec
INVARIANTS Levels Segment Result DefLemmas CodesDistinct
PROPERTY Progress
CHECK_DEADLOCK FALSE
