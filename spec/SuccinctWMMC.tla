---------------------------- MODULE SuccinctWMMC ----------------------------
(***************************************************************************)
(* The wavelet-matrix machine of wavelet_matrix.rs for every text over     *)
(* {A,C,G,T,N,$} of length 1..MaxLen, every symbol c and every p < |text|. *)
(*   build   one step per level: the level's bit vector over the current   *)
(*           order (zeros part, then ones part of the level before),       *)
(*           zeros[level] = number of 0 bits, stable partition             *)
(*   rank    spos = 0, epos = p+1; per level both ends are mapped through  *)
(*           prank (rank_0 / rank_1 of the level; the RankSelect structure *)
(*           itself is the machine of SuccinctMC) plus zeros[level] for a  *)
(*           1 bit; the answer is epos - spos                              *)
(***************************************************************************)
EXTENDS Succinct, TLC
CONSTANTS MaxLen

VARIABLES text, pc, level, order, lv, zeros, c, p, spos, epos, res
vars == <<text, pc, level, order, lv, zeros, c, p, spos, epos, res>>

Texts == UNION {[1..n -> WSyms] : n \in 1..MaxLen}
N == Len(text)

Init ==
    /\ text \in Texts
    /\ pc = "build" /\ level = 0 /\ order = text /\ lv = << >> /\ zeros = << >>
    /\ c = 0 /\ p = 0 /\ spos = 0 /\ epos = 0 /\ res = None

BuildLevel ==
    /\ pc = "build" /\ level < Height
    /\ LET lb == LevelBits(order, level)
           nx == NextOrder(order, level)
       IN  /\ lv' = Append(lv, lb)
           /\ order' = nx
           /\ zeros' = Append(zeros, Len(SelectSeq(order, LAMBDA s : WBit(s, level) = 0)))   \* curr_zeros.len()
    /\ level' = level + 1
    /\ UNCHANGED <<text, pc, c, p, spos, epos, res>>

BuildDone ==
    /\ pc = "build" /\ level = Height
    /\ pc' = "idle" /\ level' = 0
    /\ UNCHANGED <<text, order, lv, zeros, c, p, spos, epos, res>>

StartRank(sym, pos) ==
    /\ pc = "idle"
    /\ c' = sym /\ p' = pos /\ spos' = 0 /\ epos' = pos + 1 /\ level' = 0 /\ pc' = "query"
    /\ UNCHANGED <<text, order, lv, zeros, res>>

QueryStep ==
    /\ pc = "query" /\ level < Height
    /\ LET b == WBit(c, level)
           off == IF b = 1 THEN zeros[level + 1] ELSE 0
       IN  /\ spos' = PRank(lv[level + 1], spos, b) + off
           /\ epos' = PRank(lv[level + 1], epos, b) + off
    /\ level' = level + 1
    /\ UNCHANGED <<text, pc, order, lv, zeros, c, p, res>>

QueryDone ==
    /\ pc = "query" /\ level = Height
    /\ res' = epos - spos /\ pc' = "done"
    /\ UNCHANGED <<text, level, order, lv, zeros, c, p, spos, epos>>

Next ==
    \/ BuildLevel \/ BuildDone \/ QueryStep \/ QueryDone
    \/ \E sym \in WSyms : \E pos \in 0..(N - 1) : StartRank(sym, pos)
Spec == Init /\ [][Next]_vars

\* ------------------------------------------------------------- invariants
\* an independent description of the order at level l: the text stably sorted by the REVERSED
\* string of its top l bits (the defining property of the wavelet matrix)
RECURSIVE RevKey(_, _)
RevKey(s, l) == IF l = 0 THEN 0 ELSE WBit(s, l - 1) * Pow2(l - 1) + RevKey(s, l - 1)
IsStablySortedBy(o, l) ==
    /\ \A i \in 1..(Len(o) - 1) : RevKey(o[i], l) <= RevKey(o[i + 1], l)
    /\ \A key \in 0..(Pow2(l) - 1) :
          SelectSeq(o, LAMBDA s : RevKey(s, l) = key) = SelectSeq(text, LAMBDA s : RevKey(s, l) = key)

RECURSIVE OrderAt(_)
OrderAt(l) == IF l = 0 THEN text ELSE NextOrder(OrderAt(l - 1), l - 1)

Levels == pc \in {"build", "idle"} =>        \* (unchanged by the query steps)
    LET built == IF pc = "build" THEN level ELSE Height IN
    /\ Len(lv) = built /\ Len(zeros) = built
    /\ order = OrderAt(built)
    /\ IsStablySortedBy(order, built)
    /\ \A l \in 1..built :
          /\ lv[l] = LevelBits(OrderAt(l - 1), l - 1)
          /\ zeros[l] = Cardinality({i \in 1..N : WBit(text[i], l - 1) = 0})

\* top l bits of s agree with those of c
Agree(s, l) == \A l2 \in 0..(l - 1) : WBit(s, l2) = WBit(c, l2)
\* during a query: [spos,epos) of the level's order holds exactly the symbols of text[0..p] that
\* agree with c on the levels passed, in text order
Segment == pc = "query" =>
    /\ spos <= epos /\ epos <= N
    /\ SubSeq(OrderAt(level), spos + 1, epos) = SelectSeq(SubSeq(text, 1, p + 1), LAMBDA s : Agree(s, level))

Result == pc = "done" => res = WRank(text, c, p)

DefLemmas == pc = "idle" =>
    \A sym \in WSyms : \A pos \in 0..(N - 1) : WRankTab(text, sym)[pos + 1] = WRank(text, sym, pos)

\* the six symbols have distinct codes (otherwise Agree on all levels would not mean equality)
CodesDistinct == \A a \in WSyms : \A b \in WSyms : WCode(a) = WCode(b) => a = b

Measure == CASE pc = "build" -> 30 + (Height - level) [] pc = "idle" -> 20
             [] pc = "query" -> 10 + (Height - level) [] OTHER -> 0
Progress == [][Measure' < Measure]_vars
=============================================================================
