CONSTANTS
  MaxLen = 5
SPECIFICATION Spec
INVARIANTS Levels Segment Result DefLemmas CodesDistinct
PROPERTY Progress
CHECK_DEADLOCK FALSE
