----------------------------- MODULE SuffixIndex -----------------------------
(***************************************************************************)
(* C03-C06 -- suffix array / LCP / SUS / sampled SA, BWT / less / Occ,      *)
(* FM-index backward search, FMD index (SMEMs, bi-interval extension) of    *)
(* rust-bio (src/data_structures/{suffix_array,bwt,fmindex,smallints}.rs).  *)
(*                                                                         *)
(* Conventions: a text is a sequence (1-based) of naturals (bytes, or the   *)
(* integers of suffix_array_int); positions, rows and intervals reported by *)
(* the code are 0-based and are kept 0-based here (text position p is       *)
(* t[p+1], row r of a table is tab[r+1]).  "None" is -1.                    *)
(*                                                                         *)
(* DEFINITION LAYER (the oracle): TransformWith / IsValidSA (any admissible *)
(*   sentinel order; Transform / IsSortedSA = the code's concrete order,    *)
(*   used for machine-layer conformance only), LcpDef, SusDef,              *)
(*   BwtDef, LessDef, OccDef, OccPos, LongestSuffixLen, IsMEM/Smems,        *)
(*   RevComp/FmdText, BiDef.  No algorithm: counting and quantifiers only.  *)
(* MACHINE LAYER (shaped like the code; the state variables and actions     *)
(*   that step these operators are in SuffixIndexMC_C03..C06):              *)
(*   SA-IS phases (types, LMS, induced sort, naming, recursion), Kasai LCP  *)
(*   loop, SUS formula, sampled-SA construction and LF walk,                *)
(*   Occ checkpoints + Occ::get with both branches and the scaled           *)
(*   look-ahead threshold T, backward-search LF loop, FMD backward_ext /    *)
(*   forward_ext / init_interval_with and the two sweeps of smems.          *)
(***************************************************************************)
EXTENDS Integers, Sequences, FiniteSets, TLC

None == -1
Min2(a, b) == IF a <= b THEN a ELSE b
Max2(a, b) == IF a >= b THEN a ELSE b
SetMax(S) == CHOOSE x \in S : \A y \in S : y <= x      \* S non-empty
SetMin(S) == CHOOSE x \in S : \A y \in S : x <= y
Range(s) == {s[i] : i \in 1..Len(s)}
\* force a lazily evaluated function constructor into an explicit tuple (evaluated once)
Eager(f) == TLCEval(f)

(***************************************************************************)
(*                         DEFINITION LAYER                                *)
(***************************************************************************)

\* ------------------------------------------------------------- sentinels
Sentinel(t) == t[Len(t)]
SentinelOK(t) == Len(t) >= 1 /\ \A i \in 1..Len(t) : t[i] >= Sentinel(t)
SentCount(t) == Cardinality({i \in 1..Len(t) : t[i] = Sentinel(t)})
SingleSentinel(t) == SentinelOK(t) /\ SentCount(t) = 1
\* integer texts of suffix_array_int: every value of 0..=max is used, unique minimum 0 at the end
DenseInt(t) == /\ Len(t) >= 1 /\ t[Len(t)] = 0
               /\ \A i \in 1..(Len(t) - 1) : t[i] > 0
               /\ LET mx == SetMax(Range(t)) IN \A v \in 0..mx : v \in Range(t)

(* C03 demands: a permutation of all positions, sorted under ONE consistent comparison in which   *)
(* every sentinel occurrence is below all other symbols, the final sentinel is the smallest, and  *)
(* the sentinel occurrences are ordered among themselves by some fixed total order -- ANY such     *)
(* order.  An admissible order is a bijection `ord` from the sentinel positions (0-based) to       *)
(* 0..cnt-1 with ord[n-1] = 0.  TransformWith(t, ord) is the comparison it induces: sentinel at    *)
(* position p gets ord[p], every other symbol (rank among the distinct text symbols) + cnt - 1.    *)
SentPositions(t) == {i - 1 : i \in {j \in 1..Len(t) : t[j] = Sentinel(t)}}
SentOrders(t) ==
    LET sp == SentPositions(t)  cnt == Cardinality(SentPositions(t)) IN
    {o \in [sp -> 0..(cnt - 1)] : o[Len(t) - 1] = 0 /\ \A p, q \in sp : o[p] = o[q] => p = q}
TransformWith(t, ord) ==
    LET n    == Len(t)
        s    == Sentinel(t)
        cnt  == SentCount(t)
        syms == Range(t)
        rank == [c \in syms |-> Cardinality({d \in syms : d < c})]     \* sentinel: rank 0
    IN  [i \in 1..n |-> IF t[i] = s THEN ord[i - 1] ELSE rank[t[i]] + cnt - 1]
(* The order the CODE uses (machine layer, transform_text): sentinel occurrences get the ranks     *)
(* cnt-1, ..., 0 from left to right.  It is one admissible order; conformance with it is checked   *)
(* as machine-layer conformance (DRIFT), never as the property.                                    *)
CodeSentOrder(t) ==
    LET sp == SentPositions(t) IN [p \in sp |-> Cardinality({q \in sp : q > p})]
Transform(t) == TransformWith(t, CodeSentOrder(t))

\* lexicographic order of suffixes i, j (0-based starts) of the transformed text X
RECURSIVE SufLessAt(_, _, _, _)
SufLessAt(X, i, j, k) ==
    IF j + k >= Len(X) THEN FALSE            \* j ran out: j is a prefix of i (impossible for a valid X)
    ELSE IF i + k >= Len(X) THEN TRUE
    ELSE IF X[i + k + 1] # X[j + k + 1] THEN X[i + k + 1] < X[j + k + 1]
    ELSE SufLessAt(X, i, j, k + 1)
SufLess(X, i, j) == i # j /\ SufLessAt(X, i, j, 0)

IsPerm(sa, n) ==
    /\ Len(sa) = n
    /\ \A r \in 1..n : sa[r] \in 0..(n - 1)
    /\ Cardinality(Range(sa)) = n

\* MACHINE-LAYER CONFORMANCE: sa is the suffix array under the code's concrete sentinel order
\* (Transform): a permutation, strictly increasing (adjacent pairs suffice: the order is total)
IsSortedSA(sa, t) ==
    LET n == Len(t)
        X == Eager(Transform(t))
    IN  /\ IsPerm(sa, n)
        /\ \A r \in 1..(n - 1) : SufLess(X, sa[r], sa[r + 1])

\* the suffix array by definition: row r holds the position with exactly r smaller suffixes
\* (cubic; used by the MC modules only)
SortedSA(t) ==
    LET n == Len(t)
        X == Eager(Transform(t))
    IN  Eager([r \in 1..n |-> CHOOSE p \in 0..(n - 1) :
                   Cardinality({q \in 0..(n - 1) : SufLess(X, q, p)}) = r - 1])

\* THE PROPERTY (C03, first clause): sa is a permutation, the final sentinel is first, the first cnt
\* entries are exactly the sentinel positions, and sa is strictly sorted under the comparison whose
\* sentinel order is READ OFF sa itself (row of a sentinel suffix = its rank).  Such an order exists
\* iff sa is sorted under some admissible order, and then it is that order (MC lemma OrderLemma).
ReadOffOrder(sa, t) == [p \in SentPositions(t) |-> (CHOOSE r \in 1..SentCount(t) : sa[r] = p) - 1]
IsValidSA(sa, t) ==
    LET n == Len(t)  cnt == SentCount(t) IN
    /\ IsPerm(sa, n)
    /\ sa[1] = n - 1
    /\ {sa[r] : r \in 1..cnt} = SentPositions(t)
    /\ LET X == Eager(TransformWith(t, ReadOffOrder(sa, t))) IN
       \A r \in 1..(n - 1) : SufLess(X, sa[r], sa[r + 1])
\* IsValidSA with a WITNESS for the read-off order (for texts with ~10^5 sentinels, where looking up
\* the row of every sentinel by search is quadratic): rk has one entry per text position; for a
\* sentinel position p, rk[p+1] must be the row of p in sa -- verified here against sa itself, so the
\* witness carries no authority.  Equivalent to IsValidSA (MC lemma SuffixIndexMC_C03!WitnessLemma).
IsValidSAW(sa, t, rk) ==
    LET n == Len(t)  s == Sentinel(t)  cnt == SentCount(t) IN
    /\ IsPerm(sa, n) /\ Len(rk) = n
    /\ sa[1] = n - 1
    /\ \A r \in 1..cnt : t[sa[r] + 1] = s /\ rk[sa[r] + 1] = r - 1
    /\ LET X == Eager([i \in 1..n |-> IF t[i] = s THEN rk[i] ELSE cnt + t[i]]) IN
       \A r \in 1..(n - 1) : SufLess(X, sa[r], sa[r + 1])
\* closed-form family: the unary text A^(n-1)$ has the suffix array n-1, n-2, ..., 0
\* (MC lemma SuffixIndexMC_C03!UnaryLemma); used for texts too long to log (n > 2^24)
UnaryText(n, a, s) == [i \in 1..n |-> IF i = n THEN s ELSE a]
UnarySA(n) == [r \in 1..n |-> n - r]

\* closed-form family: a text whose symbols are pairwise distinct and are exactly 0..n-1 (unique 0 at the
\* end): its suffix array is the inverse permutation -- row v holds the position of value v
\* (MC lemma SuffixIndexMC_C03!PermLemma: the same verdict as IsValidSA)
PermText(t) == /\ Len(t) >= 1 /\ t[Len(t)] = 0
               /\ \A i \in 1..Len(t) : t[i] \in 0..(Len(t) - 1)
               /\ Cardinality(Range(t)) = Len(t)
PermSAOK(sa, t) == IsPerm(sa, Len(t)) /\ \A r \in 1..Len(t) : t[sa[r] + 1] = r - 1

\* closed-form family: the zigzag integer text 2m, 1, 2m-1, 2, ..., m+1, m, 0 (2m+1 pairwise distinct
\* symbols): its suffix array is the inverse permutation -- row v holds the position of value v
\* (MC lemma SuffixIndexMC_C03!ZigzagLemma)
ZigzagText(m) == [i \in 1..(2 * m + 1) |-> IF i = 2 * m + 1 THEN 0
                                            ELSE IF i % 2 = 1 THEN 2 * m - (i - 1) \div 2 ELSE i \div 2]
ZigzagSAat(m, v) == IF v = 0 THEN 2 * m ELSE IF v <= m THEN 2 * v - 1 ELSE 4 * m - 2 * v
ZigzagSA(m) == [r \in 1..(2 * m + 1) |-> ZigzagSAat(m, r - 1)]

\* the sorted permutation for an admissible order (cubic; MC modules only)
SortedSAWith(t, ord) ==
    LET n == Len(t)
        X == Eager(TransformWith(t, ord))
    IN  Eager([r \in 1..n |-> CHOOSE p \in 0..(n - 1) :
                   Cardinality({q \in 0..(n - 1) : SufLess(X, q, p)}) = r - 1])
AdmissibleSAs(t) == {SortedSAWith(t, o) : o \in SentOrders(t)}

\* ------------------------------------------------------------- LCP / SUS
RECURSIVE LcpAt(_, _, _, _)
LcpAt(t, i, j, k) ==
    IF i + k < Len(t) /\ j + k < Len(t) /\ t[i + k + 1] = t[j + k + 1]
    THEN LcpAt(t, i, j, k + 1) ELSE k
LcpLen(t, i, j) == LcpAt(t, i, j, 0)        \* on the raw text, 0-based starts

\* n+1 entries; -1 at both ends; entry of row r (1 <= r < n) = lcp(suffix sa[r-1], suffix sa[r])
LcpDef(t, sa) ==
    LET n == Len(t)
    IN  [r \in 1..(n + 1) |-> IF r = 1 \/ r = n + 1 THEN -1 ELSE LcpLen(t, sa[r - 1], sa[r])]

OccursAt(p, t, i) == i + Len(p) <= Len(t) /\ \A j \in 1..Len(p) : t[i + j] = p[j]     \* i 0-based
OccPos(p, t) == {i \in 0..(Len(t) - Len(p)) : OccursAt(p, t, i)}
Occurs(p, t) == \E i \in 0..(Len(t) - Len(p)) : OccursAt(p, t, i)

\* shortest unique substring starting at p: least L >= 1 with p+L <= n and exactly one occurrence
SusDef(t) ==
    LET n == Len(t)
    IN  [p1 \in 1..n |->
            LET p  == p1 - 1
                Ls == {L \in 1..(n - p) : Cardinality(OccPos(SubSeq(t, p + 1, p + L), t)) = 1}
            IN  IF Ls = {} THEN None ELSE SetMin(Ls)]
\* the same value through pairwise lcps (quadratic instead of quartic; equality is an MC lemma)
SusPairs(t) ==
    LET n == Len(t)
    IN  [p1 \in 1..n |->
            LET p == p1 - 1
                m == SetMax({0} \cup {LcpLen(t, p, q) : q \in (0..(n - 1)) \ {p}})
            IN  IF p + m + 1 <= n THEN m + 1 ELSE None]

\* --------------------------------------------------------- BWT, less, Occ
\* symbol cyclically preceding the suffix of row r
BwtDef(t, sa) == LET n == Len(t) IN [r \in 1..n |-> IF sa[r] > 0 THEN t[sa[r]] ELSE t[n]]
\* number of text symbols strictly smaller than c
LessDef(t, c) == Cardinality({i \in 1..Len(t) : t[i] < c})
\* occurrences of c in bwt[0..=r]
OccDef(bwt, r, c) == Cardinality({x \in 1..(r + 1) : bwt[x] = c})
\* row = <<OccDef(bwt, 0, c), ..., OccDef(bwt, n-1, c)>> stated as the recurrence it satisfies (linear to
\* evaluate; the equivalence with OccDef on every row is an MC lemma, SuffixIndexMC_C04!OccRowLemma)
OccRowRec(bwt, c, row) ==
    /\ Len(row) = Len(bwt)
    /\ \A r \in 1..Len(bwt) :
          row[r] = (IF r = 1 THEN 0 ELSE row[r - 1]) + (IF bwt[r] = c THEN 1 ELSE 0)
OccRowDef(bwt, c, row) ==
    /\ Len(row) = Len(bwt)
    /\ \A r \in 1..Len(bwt) : row[r] = OccDef(bwt, r - 1, c)
CountIn(s, lo, hi, c) == Cardinality({x \in lo..hi : s[x] = c})          \* 1-based inclusive slice

\* -------------------------------------------------- FM backward search
Suffix(p, l) == SubSeq(p, Len(p) - l + 1, Len(p))
LongestSuffixLen(p, t) == SetMax({0} \cup {l \in 1..Len(p) : Occurs(Suffix(p, l), t)})
Absent == 0
Partial == 1
Complete == 2
\* res = [kind, lower, upper, len, pos]; pos = the interval mapped through the suffix array
BackwardSearchOK(p, t, res) ==
    LET L == LongestSuffixLen(p, t)
    IN  IF L = 0 THEN res.kind = Absent
        ELSE /\ res.kind = (IF L = Len(p) THEN Complete ELSE Partial)
             /\ res.kind = Partial => res.len = L
             /\ 0 <= res.lower /\ res.lower <= res.upper /\ res.upper <= Len(t)
             /\ Len(res.pos) = res.upper - res.lower
             /\ Range(res.pos) = OccPos(Suffix(p, L), t)
             /\ Cardinality(Range(res.pos)) = Len(res.pos)

\* closed form for the unary family A^(n-1)$ (suffix array n-1..0): searching A^m
UnaryBS(n, m) ==
    IF m <= n - 1 THEN [kind |-> Complete, lower |-> m, upper |-> n, len |-> m]
    ELSE IF n >= 2 THEN [kind |-> Partial, lower |-> n - 1, upper |-> n, len |-> n - 1]
    ELSE [kind |-> Absent, lower |-> 0, upper |-> 0, len |-> 0]

\* ------------------------------------------------------------ FMD / SMEM
Dollar == 36
Comp(c) == CASE c = 65 -> 84 [] c = 84 -> 65 [] c = 67 -> 71 [] c = 71 -> 67        \* A T C G
             [] c = 97 -> 116 [] c = 116 -> 97 [] c = 99 -> 103 [] c = 103 -> 99     \* a t c g
             [] OTHER -> c                                                           \* N, n, $ ...
RevComp(s) == [i \in 1..Len(s) |-> Comp(s[Len(s) + 1 - i])]
DnaN == {65, 67, 71, 84, 78, 97, 99, 103, 116, 110}
RECURSIVE FmdText(_)
FmdText(seqs) == IF seqs = << >> THEN << >>
                 ELSE Head(seqs) \o << Dollar >> \o RevComp(Head(seqs)) \o << Dollar >> \o FmdText(Tail(seqs))

Sub(P, a, b) == SubSeq(P, a + 1, b)               \* P[a..b), 0-based half-open
\* P[a..b) occurs in the text and can be extended neither to the left nor to the right
IsMEM(P, a, b, t) ==
    /\ 0 <= a /\ a < b /\ b <= Len(P)
    /\ Occurs(Sub(P, a, b), t)
    /\ (a = 0 \/ ~Occurs(Sub(P, a - 1, b), t))
    /\ (b = Len(P) \/ ~Occurs(Sub(P, a, b + 1), t))
Mems(P, t) == {ab \in (0..Len(P)) \X (0..Len(P)) : IsMEM(P, ab[1], ab[2], t)}
\* as <<start, length>> pairs
MemsMin(P, l, t) == {<<ab[1], ab[2] - ab[1]>> : ab \in {x \in Mems(P, t) : x[2] - x[1] >= l}}
Smems(P, i, l, t) ==
    {<<ab[1], ab[2] - ab[1]>> : ab \in {x \in Mems(P, t) : x[1] <= i /\ i < x[2] /\ x[2] - x[1] >= l}}

\* the serialized private fields <<lower, lower_rev, size, match_size>> agree with forward()/revcomp(),
\* and match_size is the number of symbols of the string the bi-interval stands for
SerOK(iv, msz) ==
    /\ Len(iv.ser) = 4
    /\ iv.ser[1] = iv.f[1] /\ iv.ser[2] = iv.r[1]
    /\ iv.ser[3] = iv.f[2] - iv.f[1] /\ iv.ser[3] = iv.r[2] - iv.r[1]
    /\ iv.ser[4] = msz
\* one reported match m = [f |-> <<lo,up>>, r |-> <<lo,up>>, a, n, fp, rp] (fp/rp: intervals through the SA)
MatchOK(P, m, t) ==
    /\ m.n >= 1 /\ m.a >= 0 /\ m.a + m.n <= Len(P)
    /\ Len(m.f) = 2 /\ Len(m.r) = 2 /\ SerOK(m, m.n)
    /\ LET u == Sub(P, m.a, m.a + m.n) IN
       /\ Len(m.f) = 2 /\ Len(m.r) = 2
       /\ m.f[2] - m.f[1] = Len(m.fp) /\ m.r[2] - m.r[1] = Len(m.rp)
       /\ Len(m.fp) = Len(m.rp)
       /\ Range(m.fp) = OccPos(u, t) /\ Cardinality(Range(m.fp)) = Len(m.fp)
       /\ Range(m.rp) = OccPos(RevComp(u), t) /\ Cardinality(Range(m.rp)) = Len(m.rp)
\* smems(P,i,l): exactly the SMEMs covering i with length >= l, each once.  M = Mems(P, t).
Pairs(ms) == {<<ms[x].a, ms[x].n>> : x \in 1..Len(ms)}
SmemsOKin(M, P, i, l, ms, t) ==
    /\ \A x \in 1..Len(ms) : MatchOK(P, ms[x], t)
    /\ Pairs(ms) = {<<ab[1], ab[2] - ab[1]>> : ab \in {x \in M : x[1] <= i /\ i < x[2] /\ x[2] - x[1] >= l}}
    /\ Cardinality(Pairs(ms)) = Len(ms)
SmemsOK(P, i, l, ms, t) == SmemsOKin(Mems(P, t), P, i, l, ms, t)
\* all_smems(P,l): every SMEM of length >= l at least once and nothing else
AllSmemsOKin(M, P, l, ms, t) ==
    /\ \A x \in 1..Len(ms) : MatchOK(P, ms[x], t)
    /\ Pairs(ms) = {<<ab[1], ab[2] - ab[1]>> : ab \in {x \in M : x[2] - x[1] >= l}}
AllSmemsOK(P, l, ms, t) == AllSmemsOKin(Mems(P, t), P, l, ms, t)

(* The same set through the "longest occurring extension" table (occurrence of a substring is   *)
(* monotone under shortening): MaxEnd[a] = largest b with P[a..b) occurring (a if none).          *)
(* Equality with Mems is an MC lemma (SuffixIndexMC_C06!MemsFastLemma); used for long patterns.   *)
MaxEnd(P, t) == [a1 \in 1..Len(P) |->
                   LET a == a1 - 1 IN SetMax({a} \cup {b \in (a + 1)..Len(P) : Occurs(Sub(P, a, b), t)})]
MemsFast(P, t) ==
    LET me == Eager(MaxEnd(P, t)) IN
    {ab \in (0..Len(P)) \X (0..Len(P)) :
        /\ ab[1] < ab[2] /\ ab[1] < Len(P) /\ me[ab[1] + 1] = ab[2]
        /\ (ab[1] = 0 \/ me[ab[1]] < ab[2])}

\* an observed bi-interval iv = [f |-> <<lo,up>>, r |-> <<lo,up>>, fp, rp] is the bi-interval of w:
\* both intervals have the size of the occurrence set of w and map (through the suffix array) to
\* exactly the occurrences of w / of revcomp(w); size 0 iff w does not occur
BiObservedOK(w, iv, t) ==
    /\ Len(iv.f) = 2 /\ Len(iv.r) = 2
    /\ SerOK(iv, Len(w))
    /\ LET size == iv.f[2] - iv.f[1] IN
       /\ size >= 0 /\ iv.r[2] - iv.r[1] = size
       /\ IF size = 0 THEN ~Occurs(w, t)
          ELSE /\ Len(iv.fp) = size /\ Len(iv.rp) = size
               /\ Range(iv.fp) = OccPos(w, t) /\ Cardinality(Range(iv.fp)) = size
               /\ Range(iv.rp) = OccPos(RevComp(w), t) /\ Cardinality(Range(iv.rp)) = size

\* rows (0-based) of the suffix array whose suffix starts with w
RowsOf(w, t, sa) == {r \in 0..(Len(t) - 1) : OccursAt(w, t, sa[r + 1])}
\* bi-interval of w by definition (size 0: bounds meaningless, fixed to 0)
BiDef(w, t, sa) ==
    LET F == RowsOf(w, t, sa)
        R == RowsOf(RevComp(w), t, sa)
    IN  IF F = {} THEN [lower |-> 0, lower_rev |-> 0, size |-> 0]
        ELSE [lower |-> SetMin(F), lower_rev |-> IF R = {} THEN 0 ELSE SetMin(R), size |-> Cardinality(F)]
BiSame(x, y) == x.size = y.size /\ (x.size > 0 => x.lower = y.lower /\ x.lower_rev = y.lower_rev)

(***************************************************************************)
(*                           MACHINE LAYER                                 *)
(***************************************************************************)

\* ------------------------------------------------------- Occ (bwt.rs)
(* Occ::new: one step per BWT symbol; st = [i, curr, cps]; curr[c] = running *)
(* count, cps[c] = checkpoints pushed so far (every k-th row, row 0 first).  *)
OccNewInit(syms) == [i |-> 0, curr |-> [c \in syms |-> 0], cps |-> [c \in syms |-> << >>]]
OccNewStep(st, bwt, k, syms) ==
    LET c    == bwt[st.i + 1]
        cur2 == [st.curr EXCEPT ![c] = @ + 1]
    IN  [i    |-> st.i + 1,
         curr |-> cur2,
         cps  |-> IF st.i % k = 0 THEN [a \in syms |-> Append(st.cps[a], cur2[a])] ELSE st.cps]
\* the finished table by definition
CheckpointsDef(bwt, k, syms) ==
    [c \in syms |-> [j \in 1..((Len(bwt) - 1) \div k + 1) |-> OccDef(bwt, (j - 1) * k, c)]]

(* Occ::get(r, a): cp = checkpoints of symbol a, T = look-ahead threshold   *)
(* (64 in the code).  Returns <<branch, value>>.                            *)
OccGetB(cp, bwt, k, T, r, a) ==
    LET lo     == r \div k
        lo_occ == cp[lo + 1]
        hi     == lo + 1
        hi_idx == hi * k
    IN  IF k > T /\ hi + 1 <= Len(cp) /\ lo_occ = cp[hi + 1]
        THEN <<"early", lo_occ>>
        ELSE IF k > T /\ hi + 1 <= Len(cp) /\ hi_idx - r < k \div 2
        THEN <<"back", cp[hi + 1] - CountIn(bwt, r + 2, hi_idx + 1, a)>>       \* bwt[r+1 ..= hi_idx]
        ELSE <<"fwd", CountIn(bwt, lo * k + 2, r + 1, a) + lo_occ>>            \* bwt[lo_idx+1 ..= r]
OccGet(cp, bwt, k, T, r, a) == OccGetB(cp, bwt, k, T, r, a)[2]

\* ------------------------------------- invert_bwt / bwtfind (bwt.rs)
(* bwtfind: fs = [r, less, bf]; one step per BWT row: bf[less[c]] = r; less[c] += 1              *)
BwtFindInit(bwt) == [r |-> 0, less |-> [c \in Range(bwt) |-> LessDef(bwt, c)], bf |-> [i \in 1..Len(bwt) |-> 0]]
BwtFindStep(fs, bwt) ==
    LET c == bwt[fs.r + 1] IN
    [r |-> fs.r + 1, less |-> [fs.less EXCEPT ![c] = @ + 1], bf |-> [fs.bf EXCEPT ![fs.less[c] + 1] = fs.r]]
(* invert_bwt: ws = [r, out]; r starts at bwtfind[0]; each step r = bwtfind[r]; out.push(bwt[r])   *)
InvInit(bf) == [r |-> bf[1], out |-> << >>]
InvStep(ws, bwt, bf) == LET r2 == bf[ws.r + 1] IN [r |-> r2, out |-> Append(ws.out, bwt[r2 + 1])]

(* An index as the FM/FMD code sees it: ix = [bwt, less, k, T, cps].  k = 0 means "Occ by       *)
(* definition"; otherwise occ goes through the checkpoint table cps and Occ::get.                *)
MkIndex(t, sa, k, T, syms) ==
    LET b == Eager(BwtDef(t, sa)) IN
    [bwt |-> b, less |-> Eager([c \in 0..(SetMax(syms) + 1) |-> LessDef(t, c)]), k |-> k, T |-> T,
     cps |-> IF k = 0 THEN << >> ELSE Eager([c \in syms |-> Eager(CheckpointsDef(b, k, syms)[c])])]
\* the same with `less` tabulated only on the symbols in lessDom (large byte alphabets in traces)
MkIndexOn(t, sa, k, T, syms, lessDom) ==
    LET b == Eager(BwtDef(t, sa)) IN
    [bwt |-> b, less |-> Eager([c \in lessDom |-> LessDef(t, c)]), k |-> k, T |-> T,
     cps |-> IF k = 0 THEN << >> ELSE Eager([c \in syms |-> Eager(CheckpointsDef(b, k, syms)[c])])]
IxOcc(ix, r, a) == IF ix.k = 0 THEN OccDef(ix.bwt, r, a) ELSE OccGet(ix.cps[a], ix.bwt, ix.k, ix.T, r, a)

\* ----------------------------------------- Kasai LCP loop (suffix_array.rs: lcp)
RankOf(sa) == [p1 \in 1..Len(sa) |-> CHOOSE r \in 0..(Len(sa) - 1) : sa[r + 1] = p1 - 1]
(* st = [p, l, lcp]: one step per text position p < n-1 *)
KasaiInit(n) == [p |-> 0, l |-> 0, lcp |-> [r \in 1..(n + 1) |-> -1]]
KasaiStep(st, t, sa, rank) ==
    LET r    == rank[st.p + 1]
        pred == sa[r]                                  \* pos[r - 1]
        l2   == LcpAt(t, st.p, pred, st.l)             \* the while loop, continuing from l
    IN  [p |-> st.p + 1, l |-> IF l2 > 0 THEN l2 - 1 ELSE 0, lcp |-> [st.lcp EXCEPT ![r + 1] = l2]]
\* SmallInts<i8,isize>: values >= Esc (127 in the code) go to the overflow map
SmallIntsSet(small, big, i, v, Esc) ==
    IF v < Esc THEN <<[small EXCEPT ![i] = v], big>>
    ELSE <<[small EXCEPT ![i] = Esc], (i :> v) @@ big>>
SmallIntsGet(small, big, i, Esc) ==
    IF small[i] < Esc THEN small[i] ELSE IF i \in DOMAIN big THEN big[i] ELSE None

\* shortest_unique_substrings: the implementation's formula
SusViaLcp(sa, lcp) ==
    LET n == Len(sa)
    IN  [p1 \in 1..n |->
            LET i   == CHOOSE x \in 1..n : sa[x] = p1 - 1
                len == 1 + Max2(lcp[i], IF i + 1 <= Len(lcp) THEN lcp[i + 1] ELSE 0)
            IN  IF n - (p1 - 1) >= len THEN len ELSE None]

\* ------------------------- SA-IS (suffix_array.rs: Sais, PosTypes)
(* X = integer text (what transform_text hands to Sais::construct, or the text of                 *)
(* suffix_array_int): dense over 0..max, unique minimum at the end.  Positions 0-based; `n` in a  *)
(* slot of pos means "unknown" as in the code.                                                    *)
RECURSIVE SaisTypesR(_, _, _)
SaisTypesR(X, p, ty) ==        \* p = 1-based position still to type, from the right; TRUE = S-type
    IF p = 0 THEN ty
    ELSE SaisTypesR(X, p - 1, [ty EXCEPT ![p] = IF X[p] = X[p + 1] THEN ty[p + 1] ELSE X[p] < X[p + 1]])
SaisTypes(X) == SaisTypesR(X, Len(X) - 1, [i \in 1..Len(X) |-> TRUE])
IsS(ty, p) == ty[p + 1]
IsL(ty, p) == ~ty[p + 1]
IsLms(ty, p) == p # 0 /\ ty[p + 1] /\ ~ty[p]
LmsInOrder(ty) == SelectSeq([i \in 1..Len(ty) |-> i - 1], LAMBDA p : IsLms(ty, p))
\* buckets (indexed by symbol; the code indexes by rank among the present symbols, the same thing
\* for a dense alphabet -- that is the documented precondition)
BucketStart(X) == [c \in 0..SetMax(Range(X)) |-> Cardinality({i \in 1..Len(X) : X[i] < c})]
BucketEnd(X) == [c \in 0..SetMax(Range(X)) |-> Cardinality({i \in 1..Len(X) : X[i] <= c}) - 1]
\* insert LMS positions at the ends of their buckets, last one first
RECURSIVE SaisPlace(_, _, _, _, _)
SaisPlace(X, lms, j, pos, bend) ==
    IF j = 0 THEN pos
    ELSE LET p == lms[j]  c == X[p + 1] IN
         SaisPlace(X, lms, j - 1, [pos EXCEPT ![bend[c] + 1] = p], [bend EXCEPT ![c] = @ - 1])
\* L pass, r = 0 .. n-1
RECURSIVE SaisPassL(_, _, _, _, _)
SaisPassL(X, ty, r, pos, bstart) ==
    IF r = Len(X) THEN pos
    ELSE LET p == pos[r + 1] IN
         IF p = Len(X) \/ p = 0 \/ ~IsL(ty, p - 1) THEN SaisPassL(X, ty, r + 1, pos, bstart)
         ELSE LET c == X[p] IN          \* text[pred], pred = p - 1
              SaisPassL(X, ty, r + 1, [pos EXCEPT ![bstart[c] + 1] = p - 1], [bstart EXCEPT ![c] = @ + 1])
\* S pass, r = n-1 .. 0.  As in the code an unknown slot (p = n) is not skipped: its "predecessor" is
\* n - 1, the sentinel, which is S-type -- this is what places the sentinel when there is no LMS
\* position at all (n = 1).
RECURSIVE SaisPassS(_, _, _, _, _)
SaisPassS(X, ty, r, pos, bend) ==
    IF r < 0 THEN pos
    ELSE LET p == pos[r + 1] IN
         IF p = 0 \/ ~IsS(ty, p - 1) THEN SaisPassS(X, ty, r - 1, pos, bend)
         ELSE LET c == X[p] IN
              SaisPassS(X, ty, r - 1, [pos EXCEPT ![bend[c] + 1] = p - 1], [bend EXCEPT ![c] = @ - 1])
\* calc_pos: step 2 of SA-IS from the LMS positions in `lms` (sorted or not)
SaisCalcPos(X, ty, lms) ==
    LET n  == Len(X)
        p0 == SaisPlace(X, lms, Len(lms), [r \in 1..n |-> n], BucketEnd(X))
        p1 == SaisPassL(X, ty, 0, p0, BucketStart(X))
    IN  SaisPassS(X, ty, n - 1, p1, BucketEnd(X))
\* lms_substring_eq
RECURSIVE SaisLmsEq(_, _, _, _, _)
SaisLmsEq(X, ty, i, j, k) ==
    IF i + k >= Len(X) \/ j + k >= Len(X) THEN FALSE          \* (the code would index out of bounds)
    ELSE LET li == IsLms(ty, i + k)  lj == IsLms(ty, j + k) IN
         IF X[i + k + 1] # X[j + k + 1] THEN FALSE
         ELSE IF li # lj THEN FALSE
         ELSE IF k > 0 /\ li /\ lj THEN TRUE
         ELSE SaisLmsEq(X, ty, i, j, k + 1)
\* naming loop of sort_lms_suffixes over pos; nm = [red, label, prev]
RECURSIVE SaisName(_, _, _, _, _, _)
SaisName(X, ty, pos, rtp, x, nm) ==
    IF x > Len(pos) THEN nm
    ELSE LET p == pos[x] IN
         IF ~IsLms(ty, p) THEN SaisName(X, ty, pos, rtp, x + 1, nm)
         ELSE LET lab == IF nm.prev # None /\ ~SaisLmsEq(X, ty, nm.prev, p, 0) THEN nm.label + 1 ELSE nm.label
              IN  SaisName(X, ty, pos, rtp, x + 1,
                           [red |-> [nm.red EXCEPT ![rtp[p + 1] + 1] = lab], label |-> lab, prev |-> p])
SaisNaming(X, ty, pos, rtp, count) ==
    SaisName(X, ty, pos, rtp, 1, [red |-> [i \in 1..count |-> 0], label |-> 0, prev |-> None])

\* ------------------------------- sampled suffix array (sample / get)
SampleOf(sa, s) == [j \in 1..((Len(sa) - 1) \div s + 1) |-> sa[(j - 1) * s + 1]]
ExtraRows(sa, bwt, s, sent) == {i \in 0..(Len(sa) - 1) : i % s # 0 /\ bwt[i + 1] = sent}
(* get(index): st = [pos, off, done, val]; one LF step per action *)
SGetInit(index) == [pos |-> index, off |-> 0, done |-> FALSE, val |-> None]
SGetStep(st, sa, ix, s, sent) ==
    IF st.pos % s = 0 THEN [st EXCEPT !.done = TRUE, !.val = SampleOf(sa, s)[st.pos \div s + 1] + st.off]
    ELSE LET c == ix.bwt[st.pos + 1] IN
         IF c = sent
         THEN [st EXCEPT !.done = TRUE,
                         !.val = IF st.pos \in ExtraRows(sa, ix.bwt, s, sent) THEN sa[st.pos + 1] + st.off ELSE None]
         ELSE [st EXCEPT !.pos = ix.less[c] + IxOcc(ix, st.pos - 1, c), !.off = st.off + 1]

\* ----------------------------- backward search (fmindex.rs: backward_search)
(* st = [l, r, pl, pr, m, j, brk]: j = pattern symbols still to read, brk = loop left early *)
BSInit(n, plen) == [l |-> 0, r |-> n - 1, pl |-> 0, pr |-> n - 1, m |-> 0, j |-> plen, brk |-> FALSE]
BSStep(st, p, ix) ==
    LET a  == p[st.j]
        l2 == ix.less[a] + (IF st.l > 0 THEN IxOcc(ix, st.l - 1, a) ELSE 0)
        r2 == ix.less[a] + IxOcc(ix, st.r, a) - 1
    IN  IF l2 > r2
        THEN [st EXCEPT !.pl = st.l, !.pr = st.r, !.l = l2, !.r = r2, !.brk = TRUE]
        ELSE [st EXCEPT !.pl = st.l, !.pr = st.r, !.l = l2, !.r = r2, !.m = st.m + 1, !.j = st.j - 1]
BSResult(st) ==
    IF st.m > 0
    THEN IF ~st.brk THEN [kind |-> Complete, lower |-> st.l, upper |-> st.r + 1, len |-> st.m]
         ELSE [kind |-> Partial, lower |-> st.pl, upper |-> st.pr + 1, len |-> st.m]
    ELSE [kind |-> Absent, lower |-> 0, upper |-> 0, len |-> 0]

\* ------------------------------------------ FMD index (fmindex.rs: FMDIndex)
CompOrder == <<36, 84, 71, 67, 78, 65, 116, 103, 99, 110, 97>>       \* b"$TGCNAtgcna"
Swapped(iv) == [lower |-> iv.lower_rev, lower_rev |-> iv.lower, size |-> iv.size]
\* the loop over CompOrder with its break; acc = <<l, s, o>>
RECURSIVE BwdExtLoop(_, _, _, _, _, _, _)
BwdExtLoop(iv, a, x, l, s, o, ix) ==
    IF x > Len(CompOrder) THEN <<l, s, o>>
    ELSE LET b  == CompOrder[x]
             l2 == l + s
             o2 == IF iv.lower = 0 THEN 0 ELSE IxOcc(ix, iv.lower - 1, b)
             s2 == IxOcc(ix, iv.lower + iv.size - 1, b) - o2
         IN  IF b = a THEN <<l2, s2, o2>> ELSE BwdExtLoop(iv, a, x + 1, l2, s2, o2, ix)
BackwardExt(iv, a, ix) ==
    LET z == BwdExtLoop(iv, a, 1, iv.lower_rev, 0, 0, ix)
    IN  [lower |-> ix.less[a] + z[3], lower_rev |-> z[1], size |-> z[2]]
ForwardExt(iv, a, ix) == Swapped(BackwardExt(Swapped(iv), Comp(a), ix))
InitIntervalWith(a, less) == [lower |-> less[a], lower_rev |-> less[Comp(a)], size |-> less[a + 1] - less[a]]
InitInterval(n) == [lower |-> 0, lower_rev |-> 0, size |-> n]

(* smems, forward sweep: fs = [iv, mlen, x, curr, stop]; x = 0-based index of the next symbol *)
FwdInit(P, i, less) ==
    LET iv == InitIntervalWith(P[i + 1], less)
    IN  [iv |-> iv, mlen |-> IF iv.size # 0 THEN 1 ELSE 0, x |-> i + 1, curr |-> << >>, stop |-> FALSE]
FwdStep(fs, P, ix) ==
    LET f  == ForwardExt(fs.iv, P[fs.x + 1], ix)
        c2 == IF fs.iv.size # f.size THEN Append(fs.curr, <<fs.iv, fs.mlen>>) ELSE fs.curr
    IN  IF f.size = 0 THEN [fs EXCEPT !.curr = c2, !.stop = TRUE]
        ELSE [fs EXCEPT !.curr = c2, !.iv = f, !.mlen = fs.mlen + 1, !.x = fs.x + 1]
Reverse(s) == [x \in 1..Len(s) |-> s[Len(s) + 1 - x]]
FwdFinish(fs) == Reverse(Append(fs.curr, <<fs.iv, fs.mlen>>))         \* becomes `prev`
(* backward sweep, one outer iteration (one k); inner loop over prev.        *)
(* acc = [curr, matches, j, last]                                           *)
RECURSIVE BwdInner(_, _, _, _, _, _, _)
BwdInner(prev, x, k, a, l, acc, ix) ==
    IF x > Len(prev) THEN acc
    ELSE LET iv   == prev[x][1]
             mlen == prev[x][2]
             f    == BackwardExt(iv, a, ix)
             rep  == (f.size = 0 \/ k = -1) /\ acc.curr = << >> /\ k < acc.j /\ mlen >= l
             a1   == IF rep THEN [acc EXCEPT !.j = k, !.matches = Append(@, <<iv, k + 1, mlen>>)] ELSE acc
             a2   == IF f.size # 0 /\ f.size # a1.last
                     THEN [a1 EXCEPT !.last = f.size, !.curr = Append(@, <<f, mlen + 1>>)] ELSE a1
         IN  BwdInner(prev, x + 1, k, a, l, a2, ix)
\* bs = [prev, k, j, matches, done]
BwdInit(prev, P, i) == [prev |-> prev, k |-> i - 1, j |-> Len(P), matches |-> << >>, done |-> FALSE]
BwdStep(bs, P, l, ix) ==
    LET a   == IF bs.k = -1 THEN Dollar ELSE P[bs.k + 1]
        acc == BwdInner(bs.prev, 1, bs.k, a, l,
                        [curr |-> << >>, matches |-> bs.matches, j |-> bs.j, last |-> -1], ix)
    IN  [prev |-> IF acc.curr = << >> THEN bs.prev ELSE acc.curr,
         k |-> bs.k - 1, j |-> acc.j, matches |-> acc.matches,
         done |-> acc.curr = << >> \/ bs.k = -1]
=============================================================================
