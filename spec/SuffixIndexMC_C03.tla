-------------------------- MODULE SuffixIndexMC_C03 --------------------------
(* C03 -- definition layer cross-checks and the two loops of suffix_array.rs *)
(* that have state worth a machine, for every text over Sym with up to       *)
(* MaxSent sentinel occurrences and 1 <= n <= MaxN:                          *)
(*   order   lemmas about the oracle itself, for EVERY admissible order of   *)
(*           the sentinel occurrences (final sentinel smallest): the induced *)
(*           comparison is a strict total order in which every sentinel      *)
(*           suffix precedes every other suffix and the final sentinel is the*)
(*           minimum; its sorted permutation satisfies IsValidSA, its        *)
(*           read-off order is that order, and the permutations accepted by  *)
(*           IsValidSA are exactly these (n <= MaxPermN): existence of an    *)
(*           order <=> IsValidSA, uniqueness per order.  The code's order    *)
(*           (Transform / IsSortedSA) is one of them.                        *)
(*   kasai   lcp(): one KasaiStep per text position, the carried l-1, the    *)
(*           SmallInts escape value Esc (127 in the code) with overflow map; *)
(*           then shortest_unique_substrings' formula against the brute force*)
(*   sget    SampledSuffixArray::get: LF walk to the next sampled row or to  *)
(*           a cached extra row (BWT symbol = sentinel), for every sampling  *)
(*           rate s in 1..n+1, Occ rate k in OccRates (Occ machine of C04    *)
(*           plugged in), every index -- on the suffix array of every        *)
(*           admissible sentinel order, not only the code's                  *)
EXTENDS SuffixIndex
CONSTANTS Sym, Sent, MaxN, MaxSent, MaxPermN, Esc, OccRates, T

VARIABLES t, sa, mode, st, sm, aux
vars == <<t, sa, mode, st, sm, aux>>

Bodies == UNION {[1..n -> Sym \cup {Sent}] : n \in 0..(MaxN - 1)}
Texts == {b \o <<Sent>> : b \in {x \in Bodies : Cardinality({i \in 1..Len(x) : x[i] = Sent}) < MaxSent}}
N == Len(t)
Perms(n) == {f \in [1..n -> 0..(n - 1)] : \A i, j \in 1..n : f[i] = f[j] => i = j}

Init ==
    /\ t \in Texts
    /\ sa \in AdmissibleSAs(t)
    /\ \/ /\ mode = "order" /\ sa = SortedSA(t) /\ st = 0 /\ sm = 0 /\ aux = 0
       \/ /\ mode = "kasai" /\ SingleSentinel(t) /\ Len(t) >= 2
          /\ st = KasaiInit(Len(t))
          /\ sm = <<[r \in 1..(Len(t) + 1) |-> -1], << >> >>
          /\ aux = Eager(RankOf(sa))
       \/ /\ mode = "sampled"
          /\ \E k \in OccRates : aux = [s |-> 0, index |-> 0, ix |-> MkIndex(t, sa, k, T, Sym \cup {Sent})]
          /\ st = 0 /\ sm = 0

\* ---------------------------------------------------------------- kasai
KasaiAdvance ==
    /\ mode = "kasai" /\ st.p < N - 1
    /\ LET nx == KasaiStep(st, t, sa, aux)
           r  == aux[st.p + 1]
       IN  /\ st' = nx
           /\ sm' = SmallIntsSet(sm[1], sm[2], r + 1, nx.lcp[r + 1], Esc)
    /\ UNCHANGED <<t, sa, mode, aux>>
KasaiDone ==
    /\ mode = "kasai" /\ st.p = N - 1
    /\ mode' = "kasai_done"
    /\ UNCHANGED <<t, sa, st, sm, aux>>

\* ----------------------------------------------------------------- sget
\* sample(.., s) then get(index)
SGetStart ==
    /\ mode = "sampled"
    /\ \E s \in 1..(N + 1), index \in 0..(N - 1) :
          /\ aux' = [aux EXCEPT !.s = s, !.index = index]
          /\ st' = SGetInit(index)
    /\ mode' = "sget"
    /\ UNCHANGED <<t, sa, sm>>
SGetWalk ==
    /\ mode = "sget" /\ ~st.done
    /\ st' = SGetStep(st, sa, aux.ix, aux.s, Sent)
    /\ UNCHANGED <<t, sa, mode, sm, aux>>

Next == KasaiAdvance \/ KasaiDone \/ SGetStart \/ SGetWalk
Spec == Init /\ [][Next]_vars

\* ------------------------------------------------------------ invariants
OrderLemma ==
    mode = "order" =>
        /\ \A ord \in SentOrders(t) :
              LET X == Eager(TransformWith(t, ord))
                  f == SortedSAWith(t, ord)
              IN
              /\ \A i, j \in 0..(N - 1) : i # j => (SufLess(X, i, j) <=> ~SufLess(X, j, i))        \* total, antisymmetric
              /\ \A i, j, m \in 0..(N - 1) : SufLess(X, i, j) /\ SufLess(X, j, m) => SufLess(X, i, m)
              /\ \A i, j \in 0..(N - 1) : t[i + 1] = Sent /\ t[j + 1] # Sent => SufLess(X, i, j)     \* sentinels first
              /\ \A i \in 0..(N - 2) : SufLess(X, N - 1, i)                                            \* last sentinel smallest
              /\ \A i, j \in SentPositions(t) : ord[i] < ord[j] => SufLess(X, i, j)                    \* the fixed order of sentinels
              \* below the first sentinel the order is the plain lexicographic one
              /\ \A i, j \in 0..(N - 1) :
                    LET l == LcpLen(t, i, j) IN
                    (i # j /\ i + l < N /\ j + l < N /\ t[i + l + 1] # t[j + l + 1] /\ \A x \in 1..l : t[i + x] # Sent)
                       => (SufLess(X, i, j) <=> t[i + l + 1] < t[j + l + 1])
              \* the sorted permutation of this order is accepted, and its order can be read off it
              /\ IsValidSA(f, t) /\ ReadOffOrder(f, t) = ord
              \* ... and nothing next to it (one transposition away) is sorted under the same order
              /\ \A g \in {[f EXCEPT ![a] = f[b], ![b] = f[a]] : a, b \in 1..N} :
                    (IsValidSA(g, t) /\ ReadOffOrder(g, t) = ord) => g = f
        \* IsValidSA accepts exactly the sorted permutations of the admissible orders
        /\ N <= MaxPermN => \A g \in Perms(N) : IsValidSA(g, t) <=> g \in AdmissibleSAs(t)
        /\ Cardinality(AdmissibleSAs(t)) = Cardinality(SentOrders(t))          \* one per order
        \* the code's order is admissible; IsSortedSA singles out its array
        /\ CodeSentOrder(t) \in SentOrders(t) /\ sa = SortedSAWith(t, CodeSentOrder(t)) /\ IsSortedSA(sa, t)
        /\ \A g \in AdmissibleSAs(t) : IsSortedSA(g, t) <=> g = sa

\* the witness form of IsValidSA used for texts with very many sentinels is the same predicate:
\* with the true witness it agrees with IsValidSA on every permutation, a wrong witness is refused
RowWitness(g) == [i \in 1..N |-> IF t[i] = Sent /\ \E r \in 1..N : g[r] = i - 1
                                  THEN (CHOOSE r \in 1..N : g[r] = i - 1) - 1 ELSE -1]
WitnessLemma ==
    (mode = "order" /\ N <= MaxPermN) =>
        \A g \in Perms(N) :
            /\ IsValidSAW(g, t, RowWitness(g)) <=> IsValidSA(g, t)
            /\ \A i \in 1..N : t[i] = Sent => ~IsValidSAW(g, t, [RowWitness(g) EXCEPT ![i] = @ + 1])
\* closed-form family of the long-text driver class: the suffix array of A^(n-1)$ is n-1, ..., 0
UnaryLemma ==
    mode = "order" =>
        \A a \in Sym : t = UnaryText(N, a, Sent) =>
            /\ \A r \in 1..N : sa[r] = UnarySA(N)[r]
            /\ IsValidSA(UnarySA(N), t) /\ AdmissibleSAs(t) = {sa}

\* closed-form family of the "many distinct LMS names" driver class (checked once, in the state of the
\* one-symbol text): the zigzag text is a legal suffix_array_int input and ZigzagSA is its suffix array
ZigzagLemma ==
    (mode = "order" /\ N = 1) =>
        \A zm \in 1..6 :
            LET z == ZigzagText(zm) IN
            /\ DenseInt(z)
            /\ \A r \in 1..Len(z) : SortedSA(z)[r] = ZigzagSA(zm)[r]
            /\ IsValidSA(ZigzagSA(zm), z)

\* closed form for texts with pairwise distinct symbols 0..n-1 (checked once): same verdict as IsValidSA
PermLemma ==
    (mode = "order" /\ N = 1) =>
        \A pn \in 2..5 : \A z \in {f \in [1..pn -> 0..(pn - 1)] : PermText(f)} :
            /\ DenseInt(z)
            /\ \A g \in {f \in [1..pn -> 0..(pn - 1)] : \A i, j \in 1..pn : f[i] = f[j] => i = j} :
                  PermSAOK(g, z) <=> IsValidSA(g, z)

\* the carried l never overshoots: the loop may skip the first l comparisons
KasaiCarry ==
    (mode = "kasai" /\ st.p < N - 1) => LcpLen(t, st.p, sa[aux[st.p + 1]]) >= st.l
KasaiPartial ==
    mode = "kasai" =>
        \A r \in 1..(N + 1) :
            st.lcp[r] = IF r >= 2 /\ r <= N /\ sa[r] < st.p THEN LcpDef(t, sa)[r] ELSE -1
Decompress(small, big) == [i \in 1..Len(small) |-> SmallIntsGet(small, big, i, Esc)]
KasaiFinal ==
    mode = "kasai_done" =>
        /\ \A r \in 1..(N + 1) : st.lcp[r] = LcpDef(t, sa)[r]
        /\ \A r \in 1..(N + 1) : Decompress(sm[1], sm[2])[r] = st.lcp[r]
        /\ \A p \in 1..N : SusViaLcp(sa, st.lcp)[p] = SusDef(t)[p]
        /\ \A p \in 1..N : SusPairs(t)[p] = SusDef(t)[p]
        /\ \A p \in 1..N : SusDef(t)[p] # None              \* unique sentinel: every position has one

\* the walk stays on the text: row `pos` holds the suffix `off` symbols to the left
SGetWalkInv ==
    (mode = "sget" /\ ~st.done) => st.pos \in 0..(N - 1) /\ sa[aux.index + 1] = sa[st.pos + 1] + st.off
SGetFinal ==
    (mode = "sget" /\ st.done) => st.val = sa[aux.index + 1]
\* every step either finishes or moves one text position to the left (off <= sa[index] bounds the walk)
Progress == [][mode = "sget" => (st'.done \/ st'.off = st.off + 1)]_vars
=============================================================================
