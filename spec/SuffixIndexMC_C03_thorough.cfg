CONSTANTS
  Sym = {97, 98}
  Sent = 36
  MaxN = 7
  MaxSent = 3
  MaxPermN = 6
  Esc = 2
  OccRates = {1, 2, 3}
  T = 1
SPECIFICATION Spec
INVARIANTS OrderLemma WitnessLemma UnaryLemma ZigzagLemma PermLemma KasaiCarry KasaiPartial KasaiFinal SGetWalkInv SGetFinal
PROPERTY Progress
CHECK_DEADLOCK FALSE
