CONSTANTS
  Sym = {97, 98}
  Sent = 36
  MaxN = 8
  MaxSent = 3
  ExtraLens = {21, 34, 40}
  BlockMax = 4
SPECIFICATION Spec
INVARIANTS LevelsWellFormed TypesRight NamesMonotone NamesFaithful LmsSorted LevelSorted Final NoUnknown Shrinks
CHECK_DEADLOCK FALSE
