-------------------------- MODULE SuffixIndexMC_C03s --------------------------
(* C03 -- the SA-IS construction of suffix_array.rs as a machine with one     *)
(* action per phase of Sais::construct and an explicit recursion stack:       *)
(*   Types     PosTypes::new                                                  *)
(*   Collect   calc_lms_pos: LMS positions in text order, reduced_text_pos    *)
(*   Induce1   calc_pos with the unsorted LMS positions (sorts LMS substrings)*)
(*   Name      sort_lms_suffixes: names by lms_substring_eq; either the names *)
(*             are unique (NameUnique: LMS order read off pos), or fewer than *)
(*             two LMS positions exist (NameTrivial), or ...                  *)
(*   Recurse   ... construct(reduced_text) with lms_pos backed up             *)
(*   Induce2   calc_pos with the sorted LMS positions                         *)
(*   Return    lms_pos[i] = backup[pos[i]] in the caller                      *)
(* self.pos / self.lms_pos / self.reduced_text_pos are shared across levels   *)
(* as in the code.  Texts: Transform(t) for every byte text over Sym with up  *)
(* to MaxSent sentinel occurrences and n <= MaxN (u8 path of suffix_array),   *)
(* plus the longer repetitive texts of Extra (recursion depth >= 2).          *)
EXTENDS SuffixIndex
CONSTANTS Sym, Sent, MaxN, MaxSent, ExtraLens, BlockMax

VARIABLES orig, stack, pos, lms, rtp, pc
vars == <<orig, stack, pos, lms, rtp, pc>>

Bodies == UNION {[1..n -> Sym \cup {Sent}] : n \in 0..(MaxN - 1)}
Texts == {b \o <<Sent>> : b \in {x \in Bodies : Cardinality({i \in 1..Len(x) : x[i] = Sent}) < MaxSent}}
\* repetitive texts: Fibonacci words, Thue-Morse words, period-5 words, (ab)^k a
A == CHOOSE x \in Sym : \A y \in Sym : x <= y
B == CHOOSE x \in Sym : x # A
RECURSIVE FibW(_)
FibW(j) == IF j = 0 THEN <<A>> ELSE IF j = 1 THEN <<A, B>> ELSE FibW(j - 1) \o FibW(j - 2)
RECURSIVE Ones(_)
Ones(x) == IF x = 0 THEN 0 ELSE (x % 2) + Ones(x \div 2)
Thue(n) == [i \in 1..n |-> IF Ones(i - 1) % 2 = 0 THEN A ELSE B]
Unit5 == <<A, A, B, A, B>>
Per5(n) == [i \in 1..n |-> Unit5[((i - 1) % 5) + 1]]
AbkA(n) == [i \in 1..n |-> IF i % 2 = 1 THEN A ELSE B]
\* few long repeated monotone blocks: [prefix] (a^i b^j)^r -- LMS substrings longer than the LMS count
Blocks(i, j, r) == [x \in 1..((i + j) * r) |-> IF ((x - 1) % (i + j)) < i THEN A ELSE B]
BlockTexts == {pre \o Blocks(i, j, r) \o <<Sent>> : pre \in {<< >>, <<A>>, <<B>>}, i \in 1..BlockMax, j \in 1..BlockMax, r \in 2..3}
Extra == BlockTexts \cup UNION {{SubSeq(FibW(9), 1, n) \o <<Sent>>, Thue(n) \o <<Sent>>, Per5(n) \o <<Sent>>, AbkA(n) \o <<Sent>>,
                 SubSeq(Thue(n), 1, n \div 2) \o <<Sent>> \o SubSeq(Thue(n), 1, n \div 2) \o <<Sent>>} : n \in ExtraLens}

Top == stack[Len(stack)]
X == Top.text
N == Len(X)

Init ==
    /\ orig \in Texts \cup Extra
    /\ stack = << [text |-> Eager(Transform(orig)), ty |-> << >>, backup |-> << >>] >>
    /\ pos = << >> /\ lms = << >>
    /\ rtp = [i \in 1..Len(orig) |-> 0]
    /\ pc = "types"

SetTop(f) == [stack EXCEPT ![Len(stack)] = f]

Types ==
    /\ pc = "types"
    /\ stack' = SetTop([Top EXCEPT !.ty = SaisTypes(X)])
    /\ pc' = "collect"
    /\ UNCHANGED <<orig, pos, lms, rtp>>

Collect ==
    /\ pc = "collect"
    /\ LET l == LmsInOrder(Top.ty) IN
       /\ lms' = l
       /\ rtp' = [i \in 1..Len(rtp) |-> IF \E x \in 1..Len(l) : l[x] = i - 1
                                        THEN (CHOOSE x \in 1..Len(l) : l[x] = i - 1) - 1 ELSE rtp[i]]
    /\ pc' = "induce1"
    /\ UNCHANGED <<orig, stack, pos>>

Induce1 ==
    /\ pc = "induce1"
    /\ pos' = SaisCalcPos(X, Top.ty, lms)
    /\ pc' = "name"
    /\ UNCHANGED <<orig, stack, lms, rtp>>

Count == Len(lms)
Naming == SaisNaming(X, Top.ty, pos, rtp, Count)

NameTrivial ==          \* fewer than two LMS substrings: nothing to sort
    /\ pc = "name" /\ Count <= 1
    /\ pc' = "induce2"
    /\ UNCHANGED <<orig, stack, pos, lms, rtp>>

NameUnique ==           \* all names differ: the LMS suffixes are sorted, read them off pos
    /\ pc = "name" /\ Count > 1 /\ ~(Naming.label + 1 < Count)
    /\ lms' = SelectSeq(pos, LAMBDA p : IsLms(Top.ty, p))
    /\ pc' = "induce2"
    /\ UNCHANGED <<orig, stack, pos, rtp>>

Recurse ==              \* equal LMS substrings: sort by the suffix array of the reduced text
    /\ pc = "name" /\ Count > 1 /\ Naming.label + 1 < Count
    /\ stack' = Append(stack, [text |-> Naming.red, ty |-> << >>, backup |-> lms])
    /\ pc' = "types"
    /\ UNCHANGED <<orig, pos, lms, rtp>>

Induce2 ==
    /\ pc = "induce2"
    /\ pos' = SaisCalcPos(X, Top.ty, lms)
    /\ pc' = IF Len(stack) = 1 THEN "finished" ELSE "return"
    /\ UNCHANGED <<orig, stack, lms, rtp>>

Return ==
    /\ pc = "return"
    /\ lms' = [x \in 1..Len(pos) |-> Top.backup[pos[x] + 1]]
    /\ stack' = SubSeq(stack, 1, Len(stack) - 1)
    /\ pc' = "induce2"
    /\ UNCHANGED <<orig, pos, rtp>>

Next == Types \/ Collect \/ Induce1 \/ NameTrivial \/ NameUnique \/ Recurse \/ Induce2 \/ Return
Spec == Init /\ [][Next]_vars

\* ------------------------------------------------------------ invariants
\* every level works on a text that satisfies the precondition of the algorithm
LevelsWellFormed == \A d \in 1..Len(stack) : DenseInt(stack[d].text)
\* types by definition: S iff the suffix is smaller than its right neighbour (last position S)
TypesRight ==
    pc \notin {"types"} =>
        \A p \in 0..(N - 1) : IsS(Top.ty, p) <=> (p = N - 1 \/ SufLess(X, p, p + 1))
\* after the first induced sort the LMS positions appear in pos in the order of their LMS substrings
\* (checked through its consequence: equal names are adjacent and names never decrease along pos)
NamesMonotone ==
    pc = "name" /\ Count > 1 =>
        LET red == Naming.red IN
        \A x, y \in 1..Count : SufLess(X, lms[x], lms[y]) /\ red[x] # red[y] => red[x] < red[y]
\* names are equal exactly when the LMS substrings are equal (as strings from one LMS position to the
\* next one inclusive; the last one ends at the sentinel) -- however long they are compared with the
\* number of LMS positions
NextLms(p) == IF \E q \in (p + 1)..(N - 1) : IsLms(Top.ty, q)
              THEN CHOOSE q \in (p + 1)..(N - 1) : IsLms(Top.ty, q) /\ \A z \in (p + 1)..(q - 1) : ~IsLms(Top.ty, z)
              ELSE N - 1
LmsSubstring(p) == SubSeq(X, p + 1, NextLms(p) + 1)
NamesFaithful ==
    pc = "name" /\ Count > 1 =>
        LET red == Naming.red IN
        \A x, y \in 1..Count : (red[x] = red[y]) <=> (LmsSubstring(lms[x]) = LmsSubstring(lms[y]))
\* the sorted LMS list handed to the second induced sort is in suffix order
LmsSorted ==
    pc = "induce2" =>
        /\ Range(lms) = Range(LmsInOrder(Top.ty)) /\ Len(lms) = Len(LmsInOrder(Top.ty))
        /\ \A x \in 1..(Len(lms) - 1) : SufLess(X, lms[x], lms[x + 1])
\* every level ends with the suffix array of its text
LevelSorted == pc \in {"return", "finished"} => pos = SortedSA(X)
\* ... and the top level with the suffix array of the original byte text under Transform
Final == pc = "finished" => IsSortedSA(pos, orig) /\ Len(stack) = 1
\* the induced sort never meets an unknown slot in its S pass
NoUnknown == pc \in {"name", "return", "finished"} => \A x \in 1..Len(pos) : pos[x] \in 0..(N - 1)
\* recursion halves the text: termination
Shrinks == \A d \in 2..Len(stack) : 2 * Len(stack[d].text) <= Len(stack[d - 1].text)
=============================================================================
