CONSTANTS
  Sym = {97, 98}
  Sent = 36
  MaxN = 10
  MaxSent = 3
  ExtraLens = {21, 34, 40, 55}
  BlockMax = 7
SPECIFICATION Spec
INVARIANTS LevelsWellFormed TypesRight NamesMonotone NamesFaithful LmsSorted LevelSorted Final NoUnknown Shrinks
CHECK_DEADLOCK FALSE
