CONSTANTS
  Sym = {36, 97, 98}
  MaxN = 6
  T = 2
SPECIFICATION Spec
INVARIANTS BuildInv TableExact GetExact AllRowsExact BranchShape OccRowLemma FindInv WalkInv FindIsPsi
PROPERTY Progress
CHECK_DEADLOCK FALSE
