-------------------------- MODULE SuffixIndexMC_C04 --------------------------
(* C04 -- the Occ machine of bwt.rs against OccDef (counting).               *)
(* For every string over Sym with 1 <= n <= MaxN (any string, not only BWTs *)
(* of texts: Occ does not care) and every sampling rate k in 1..2n:          *)
(*   build   Occ::new, one BuildStep per BWT symbol (running counts,         *)
(*           checkpoint pushed when i % k = 0)                               *)
(*   ready   the table is complete                                           *)
(*   Get*    Occ::get(r, c) for every row and symbol, one action per branch  *)
(*           of the code: early exit (both checkpoints equal), counting      *)
(*           backwards from the next checkpoint (k > T, hi - r < k/2),       *)
(*           counting forwards from the low checkpoint                       *)
(* T is the look-ahead threshold (64 in the code), scaled down so that both  *)
(* sides of `k > T` and of `hi_idx - r < k/2` are inside the explored set.   *)
EXTENDS SuffixIndex
CONSTANTS Sym, MaxN, T

VARIABLES bwt, k, phase, st, q, txt
vars == <<bwt, k, phase, st, q, txt>>

Strings(lo, hi) == UNION {[1..n -> Sym] : n \in lo..hi}
N == Len(bwt)
NoQuery == [r |-> -1, c |-> -1, br |-> "none", val |-> -1]

Sent == SetMin(Sym)
SingleTexts == {b \o <<Sent>> : b \in UNION {[1..n -> Sym \ {Sent}] : n \in 0..(MaxN - 1)}}

InitOcc ==
    /\ bwt \in Strings(1, MaxN)
    /\ k \in 1..(2 * MaxN)
    /\ k <= 2 * Len(bwt)
    /\ phase = "build"
    /\ st = OccNewInit(Sym)
    /\ q = NoQuery
    /\ txt = << >>
\* invert_bwt on the BWT of every single-sentinel text: bwtfind loop, then the walk
InitInv ==
    /\ txt \in SingleTexts
    /\ bwt = Eager(BwtDef(txt, SortedSA(txt)))
    /\ k = 1 /\ q = NoQuery
    /\ phase = "find"
    /\ st = BwtFindInit(bwt)
Init == InitOcc \/ InitInv

BuildStep ==
    /\ phase = "build" /\ st.i < N
    /\ st' = OccNewStep(st, bwt, k, Sym)
    /\ UNCHANGED <<bwt, k, phase, q, txt>>

BuildDone ==
    /\ phase = "build" /\ st.i = N
    /\ phase' = "ready"
    /\ UNCHANGED <<bwt, k, st, q, txt>>

Answer(branch) ==
    /\ \E r \in 0..(N - 1), c \in Sym :
          LET g == OccGetB(st.cps[c], bwt, k, T, r, c)
          IN  /\ g[1] = branch
              /\ q' = [r |-> r, c |-> c, br |-> branch, val |-> g[2]]
    /\ phase' = "answered"
    /\ UNCHANGED <<bwt, k, st, txt>>

GetEarly == phase = "ready" /\ Answer("early")      \* lo_occ == hi_occ
GetBack  == phase = "ready" /\ Answer("back")       \* hi_occ - count(bwt[r+1..=hi_idx])
GetFwd   == phase = "ready" /\ Answer("fwd")        \* count(bwt[lo_idx+1..=r]) + lo_occ

FindStep ==
    /\ phase = "find" /\ st.r < N
    /\ st' = BwtFindStep(st, bwt)
    /\ UNCHANGED <<bwt, k, phase, q, txt>>
FindDone ==
    /\ phase = "find" /\ st.r = N
    /\ st' = [bf |-> st.bf, w |-> InvInit(st.bf)]
    /\ phase' = "walk"
    /\ UNCHANGED <<bwt, k, q, txt>>
WalkStep ==
    /\ phase = "walk" /\ Len(st.w.out) < N
    /\ st' = [st EXCEPT !.w = InvStep(st.w, bwt, st.bf)]
    /\ UNCHANGED <<bwt, k, phase, q, txt>>

Next == BuildStep \/ BuildDone \/ GetEarly \/ GetBack \/ GetFwd \/ FindStep \/ FindDone \/ WalkStep
Spec == Init /\ [][Next]_vars

\* ------------------------------------------------------------ invariants
\* while building: running counts and the checkpoints pushed so far are exact
BuildInv ==
    phase = "build" =>
        \A c \in Sym :
            /\ st.curr[c] = (IF st.i = 0 THEN 0 ELSE OccDef(bwt, st.i - 1, c))
            /\ Len(st.cps[c]) = (IF st.i = 0 THEN 0 ELSE (st.i - 1) \div k + 1)
            /\ \A j \in 1..Len(st.cps[c]) : st.cps[c][j] = OccDef(bwt, (j - 1) * k, c)
\* the finished table is the definition's table
TableExact == phase \in {"ready", "answered"} => \A c \in Sym : st.cps[c] = CheckpointsDef(bwt, k, Sym)[c]
\* every answer of every branch is the exact count
GetExact == phase = "answered" => q.val = OccDef(bwt, q.r, q.c)
\* ... and, independent of the action split, for all rows and symbols at once
AllRowsExact ==
    phase = "ready" => \A r \in 0..(N - 1), c \in Sym : OccGet(st.cps[c], bwt, k, T, r, c) = OccDef(bwt, r, c)
\* the linear row check used by the trace spec for long tables accepts exactly the definition's row:
\* the true row passes, and every row that differs from it in one place (+1 / -1) fails
OccRowLemma ==
    phase = "ready" =>
        \A c \in Sym :
            LET row == [r \in 1..N |-> OccDef(bwt, r - 1, c)] IN
            /\ OccRowRec(bwt, c, row) /\ OccRowDef(bwt, c, row)
            /\ \A x \in 1..N, d \in {-1, 1} :
                  LET bad == [row EXCEPT ![x] = @ + d] IN ~OccRowRec(bwt, c, bad) /\ ~OccRowDef(bwt, c, bad)
\* the branch taken is the one the code takes
BranchShape ==
    phase = "answered" =>
        /\ q.br \in {"early", "back"} => k > T /\ (q.r \div k + 1) * k <= N - 1     \* next checkpoint exists
        /\ q.br = "back" => (q.r \div k + 1) * k - q.r < k \div 2
\* bwtfind is the stable counting sort of the BWT: the j-th occurrence of c goes to slot less(c) + j
FindInv ==
    phase = "find" =>
        \A c \in Range(bwt) :
            /\ st.less[c] = LessDef(bwt, c) + (IF st.r = 0 THEN 0 ELSE OccDef(bwt, st.r - 1, c))
            /\ \A r \in 0..(st.r - 1) : bwt[r + 1] = c => st.bf[LessDef(bwt, c) + OccDef(bwt, r, c)] = r
\* the walk spells the text from the left; it ends with the whole text
WalkInv == phase = "walk" => st.w.out = SubSeq(txt, 1, Len(st.w.out))
\* bwtfind is the inverse LF mapping: slot j holds the row whose suffix is one symbol shorter
FindIsPsi ==
    phase = "walk" =>
        LET sa == SortedSA(txt) IN
        \A j \in 1..N : sa[st.bf[j] + 1] = (IF sa[j] = N - 1 THEN 0 ELSE sa[j] + 1)
\* the build loop advances and terminates after exactly n steps
Progress == [][(phase = "build" /\ phase' = "build") => st'.i = st.i + 1]_vars
=============================================================================
