CONSTANTS
  Sym = {36, 97, 98}
  MaxN = 8
  T = 2
SPECIFICATION Spec
INVARIANTS BuildInv TableExact GetExact AllRowsExact BranchShape OccRowLemma FindInv WalkInv FindIsPsi
PROPERTY Progress
CHECK_DEADLOCK FALSE
