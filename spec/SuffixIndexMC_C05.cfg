CONSTANTS
  Sym = {97, 98}
  Sent = 36
  MaxN = 6
  MaxSent = 3
  MaxP = 5
  OccRates = {1, 2, 3}
  T = 1
SPECIFICATION Spec
INVARIANTS StepInv Final OccTransparent UnaryLemma
PROPERTY Progress
CHECK_DEADLOCK FALSE
