-------------------------- MODULE SuffixIndexMC_C05 --------------------------
(* C05 -- the backward-search loop of fmindex.rs against OccPos.             *)
(* For every text over Sym with up to MaxSent sentinel occurrences           *)
(* (n <= MaxN; "a$b$"-style multi-sequence texts included), every Occ rate   *)
(* in OccRates (the Occ machine of C04 with threshold T is what `occ` calls) *)
(* and every non-empty sentinel-free pattern of length <= MaxP, on the       *)
(* suffix array of every admissible order of the sentinel occurrences:       *)
(*   Start(p)  a search on the index (the index is immutable: nothing a      *)
(*             search leaves behind can influence the next one, so searches  *)
(*             start from the idle index only)                               *)
(*   Step      one LF-mapping refinement, from the last pattern symbol       *)
(*   Finish    Complete / Partial(previous interval, matched length) / Absent*)
EXTENDS SuffixIndex
CONSTANTS Sym, Sent, MaxN, MaxSent, MaxP, OccRates, T

VARIABLES t, sa, ix, mode, p, st, res
vars == <<t, sa, ix, mode, p, st, res>>

Bodies == UNION {[1..n -> Sym \cup {Sent}] : n \in 0..(MaxN - 1)}
Texts == {b \o <<Sent>> : b \in {x \in Bodies : Cardinality({i \in 1..Len(x) : x[i] = Sent}) < MaxSent}}
Patterns == UNION {[1..n -> Sym] : n \in 1..MaxP}
N == Len(t)
NoRes == [kind |-> -1, lower |-> 0, upper |-> 0, len |-> 0]

Init ==
    /\ t \in Texts
    /\ sa \in AdmissibleSAs(t)            \* the suffix array of any admissible sentinel order
    /\ \E k \in OccRates : ix = MkIndex(t, sa, k, T, Sym \cup {Sent})
    /\ mode = "idle" /\ p = << >> /\ st = 0 /\ res = NoRes

Start ==
    /\ mode = "idle"
    /\ \E q \in Patterns : p' = q /\ st' = BSInit(N, Len(q))
    /\ mode' = "search" /\ res' = NoRes
    /\ UNCHANGED <<t, sa, ix>>

Step ==
    /\ mode = "search" /\ st.j > 0 /\ ~st.brk
    /\ st' = BSStep(st, p, ix)
    /\ UNCHANGED <<t, sa, ix, mode, p, res>>

Finish ==
    /\ mode = "search" /\ (st.j = 0 \/ st.brk)
    /\ res' = BSResult(st)
    /\ mode' = "done"
    /\ UNCHANGED <<t, sa, ix, p, st>>

Next == Start \/ Step \/ Finish
Spec == Init /\ [][Next]_vars

\* ------------------------------------------------------------ invariants
\* the running interval is exactly the set of rows whose suffix starts with the matched pattern suffix
StepInv ==
    mode = "search" =>
        IF st.brk
        THEN /\ (st.pl)..(st.pr) = RowsOf(Suffix(p, st.m), t, sa)
             /\ RowsOf(Suffix(p, st.m + 1), t, sa) = {}
        ELSE /\ (st.l)..(st.r) = RowsOf(Suffix(p, st.m), t, sa)
             /\ st.l <= st.r                                  \* never continues on an empty interval
             /\ st.m + st.j = Len(p)
Positions(r) == [x \in 1..(r.upper - r.lower) |-> sa[r.lower + x]]
Final ==
    mode = "done" =>
        BackwardSearchOK(p, t, [kind |-> res.kind, lower |-> res.lower, upper |-> res.upper, len |-> res.len,
                                pos |-> Positions(res)])
\* the same answer when `occ` is the counting definition (the Occ machine is transparent)
OccTransparent ==
    mode = "done" => LET ix0 == [ix EXCEPT !.k = 0]
                         RECURSIVE Run(_)
                         Run(s) == IF s.j > 0 /\ ~s.brk THEN Run(BSStep(s, p, ix0)) ELSE s
                     IN  BSResult(Run(BSInit(N, Len(p)))) = res
\* closed-form family of the long-text driver class: on A^(n-1)$ the search for A^m is UnaryBS(n, m),
\* with the rows of the interval mapping to n-1-row
UnaryLemma ==
    (mode = "done" /\ \E a \in Sym : t = UnaryText(N, a, Sent) /\ p = [i \in 1..Len(p) |-> a]) =>
        LET want == UnaryBS(N, Len(p)) IN
        /\ res.kind = want.kind /\ (want.kind # Absent => res.lower = want.lower /\ res.upper = want.upper /\ res.len = want.len)
        /\ \A r \in res.lower..(res.upper - 1) : sa[r + 1] = N - 1 - r
Progress == [][mode = "search" /\ mode' = "search" => (st'.brk \/ st'.j = st.j - 1)]_vars
=============================================================================
