CONSTANTS
  Sym = {97, 98}
  Sent = 36
  MaxN = 7
  MaxSent = 3
  MaxP = 6
  OccRates = {1, 2, 3}
  T = 1
SPECIFICATION Spec
INVARIANTS StepInv Final OccTransparent UnaryLemma
PROPERTY Progress
CHECK_DEADLOCK FALSE
