CONSTANTS
  Alpha = {65, 67, 71, 84}
  MaxLen1 = 3
  MaxTotal2 = 2
  MaxP = 3
  MinLens = {1, 2}
  OccRates = {2}
  AllSentinelOrders = FALSE
  T = 1
SPECIFICATION Spec
INVARIANTS StrandSymmetry ExtensionLemma FwdInv BwdInv Final MemsFastLemma BigMinLenLemma
PROPERTY Progress
CHECK_DEADLOCK FALSE
