-------------------------- MODULE SuffixIndexMC_C06 --------------------------
(* C06 -- FMD index: bi-interval extension and the two sweeps of smems       *)
(* against the MEM definition.  For every set of 1..2 sequences over Alpha   *)
(* (closed under complement) within the length bounds, text =                *)
(* concat(s $ revcomp(s) $), every Occ rate in OccRates (0 = counting        *)
(* definition, else the Occ machine of C04), every pattern over Alpha of     *)
(* length <= MaxP, every position i and every l in MinLens (with            *)
(* AllSentinelOrders: on the suffix array of every admissible order of the   *)
(* sentinel occurrences, not only the code's):                               *)
(*   Start(P,i,l)  init_interval_with(P[i])                                  *)
(*   FwdStep       one forward extension (candidate pushed when size changes)*)
(*   FwdDone       last interval pushed, list reversed, becomes `prev`       *)
(*   BwdStep       one outer iteration k = i-1 .. -1 of the backward sweep   *)
(*                 (inner loop over prev: extension, report, dedup by size)  *)
EXTENDS SuffixIndex
CONSTANTS Alpha, MaxLen1, MaxTotal2, MaxP, MinLens, OccRates, T, AllSentinelOrders

VARIABLES seqs, t, sa, ix, mode, q, fs, bs
vars == <<seqs, t, sa, ix, mode, q, fs, bs>>

Strs(lo, hi) == UNION {[1..n -> Alpha] : n \in lo..hi}
SeqSets == {<<s>> : s \in Strs(1, MaxLen1)}
           \cup {<<s1, s2>> : s1 \in Strs(1, MaxTotal2 - 1), s2 \in Strs(1, MaxTotal2 - 1)}
N == Len(t)
P == q.p
NoQ == [p |-> << >>, i |-> 0, l |-> 0]

Init ==
    /\ seqs \in SeqSets
    /\ Len(seqs) = 2 => Len(seqs[1]) + Len(seqs[2]) <= MaxTotal2
    /\ t = FmdText(seqs)
    \* the suffix array under the code's sentinel order, or under every admissible order of the sentinels
    /\ sa \in (IF AllSentinelOrders THEN AdmissibleSAs(t) ELSE {SortedSA(t)})
    /\ \E k \in OccRates : ix = MkIndex(t, sa, k, T, Range(CompOrder))
    /\ mode = "idle" /\ q = NoQ /\ fs = 0 /\ bs = 0

Start ==
    /\ mode = "idle"
    /\ \E pp \in Strs(1, MaxP), l \in MinLens : \E i \in 0..(Len(pp) - 1) :
          /\ q' = [p |-> pp, i |-> i, l |-> l]
          /\ fs' = FwdInit(pp, i, ix.less)
    /\ mode' = "fwd"
    /\ UNCHANGED <<seqs, t, sa, ix, bs>>

FwdStepA ==
    /\ mode = "fwd" /\ ~fs.stop /\ fs.x < Len(P)
    /\ fs' = FwdStep(fs, P, ix)
    /\ UNCHANGED <<seqs, t, sa, ix, mode, q, bs>>

FwdDone ==
    /\ mode = "fwd" /\ (fs.stop \/ fs.x = Len(P))
    /\ bs' = BwdInit(FwdFinish(fs), P, q.i)
    /\ mode' = "bwd"
    /\ UNCHANGED <<seqs, t, sa, ix, q, fs>>

BwdStepA ==
    /\ mode = "bwd" /\ ~bs.done
    /\ bs' = BwdStep(bs, P, q.l, ix)
    /\ UNCHANGED <<seqs, t, sa, ix, mode, q, fs>>

Finish ==
    /\ mode = "bwd" /\ bs.done
    /\ mode' = "done"
    /\ UNCHANGED <<seqs, t, sa, ix, q, fs, bs>>

Next == Start \/ FwdStepA \/ FwdDone \/ BwdStepA \/ Finish
Spec == Init /\ [][Next]_vars

\* ------------------------------------------------------------ invariants
Bi(w) == BiDef(w, t, sa)
\* sentinel-free substrings of the text, and the empty string
Factors == {<< >>} \cup {w \in {SubSeq(t, a, b) : a \in 1..N, b \in 1..N} : Dollar \notin Range(w)}

\* oracle sanity: both strands are indexed, so w and revcomp(w) have the same number of occurrences
StrandSymmetry ==
    mode = "idle" => \A w \in Factors : Cardinality(RowsOf(w, t, sa)) = Cardinality(RowsOf(RevComp(w), t, sa))
\* extending the bi-interval of w by c gives the bi-interval of cw / wc (size 0 iff it does not occur)
ExtensionLemma ==
    mode = "idle" =>
        \A w \in Factors, c \in Alpha :
            LET b == IF w = << >> THEN InitInterval(N) ELSE Bi(w) IN
            /\ BiSame(BackwardExt(b, c, ix), Bi(<<c>> \o w))
            /\ BiSame(ForwardExt(b, c, ix), Bi(w \o <<c>>))
            /\ (BackwardExt(b, c, ix).size = 0) <=> ~Occurs(<<c>> \o w, t)
            /\ BiSame(InitIntervalWith(c, ix.less), Bi(<<c>>))
\* the extension of an empty bi-interval (of a string that does not occur) is empty again, in both
\* directions, whatever the symbols (the code relies on lower, lower_rev >= 1 there: no underflow)
EmptyStaysEmpty ==
    mode = "idle" =>
        \A w \in Factors, c \in Alpha :
            LET b  == IF w = << >> THEN InitInterval(N) ELSE Bi(w)
                e1 == BackwardExt(b, c, ix)
                e2 == ForwardExt(b, c, ix)
            IN  \A c2 \in Alpha :
                  /\ e1.size = 0 => (/\ e1.lower >= 1 /\ e1.lower_rev >= 1
                                     /\ BackwardExt(e1, c2, ix).size = 0 /\ ForwardExt(e1, c2, ix).size = 0)
                  /\ e2.size = 0 => (/\ e2.lower >= 1 /\ e2.lower_rev >= 1
                                     /\ BackwardExt(e2, c2, ix).size = 0 /\ ForwardExt(e2, c2, ix).size = 0)
\* forward sweep: the running interval and every pushed candidate are bi-intervals of P[i..i+len)
FwdInv ==
    mode = "fwd" =>
        /\ fs.x = q.i + Max2(fs.mlen, 1)
        /\ IF fs.mlen = 0 THEN fs.iv.size = 0 /\ ~Occurs(Sub(P, q.i, q.i + 1), t)
           ELSE BiSame(fs.iv, Bi(Sub(P, q.i, q.i + fs.mlen))) /\ fs.iv.size > 0
        /\ \A x \in 1..Len(fs.curr) :
              BiSame(fs.curr[x][1], Bi(Sub(P, q.i, q.i + fs.curr[x][2])))
\* backward sweep: every candidate is the bi-interval of P[k+1 .. k+1+len), longest first
BwdInv ==
    (mode = "bwd" /\ ~bs.done) =>
        /\ \A x \in 1..Len(bs.prev) :
              LET len == bs.prev[x][2] IN
              len > 0 => /\ BiSame(bs.prev[x][1], Bi(Sub(P, bs.k + 1, bs.k + 1 + len)))
                         /\ bs.k + 1 + len > q.i
        /\ \A x \in 1..(Len(bs.prev) - 1) : bs.prev[x][2] >= bs.prev[x + 1][2]     \* (the last forward interval can be listed twice)
Reported == {<<bs.matches[x][2], bs.matches[x][3]>> : x \in 1..Len(bs.matches)}
Final ==
    mode = "done" =>
        /\ Reported = Smems(P, q.i, q.l, t)
        /\ Cardinality(Reported) = Len(bs.matches)
        /\ \A x \in 1..Len(bs.matches) :
              LET m == bs.matches[x] IN BiSame(m[1], Bi(Sub(P, m[2], m[2] + m[3]))) /\ m[1].size > 0
\* the fast MEM characterisation used for long patterns in trace validation is the definition
\* a minimum length beyond the pattern length leaves nothing (the verdict for l >= 2^32 in the trace spec)
BigMinLenLemma == mode = "done" => Smems(P, q.i, Len(P) + 1, t) = {} /\ MemsMin(P, Len(P) + 1, t) = {}
MemsFastLemma == mode = "done" => MemsFast(P, t) = Mems(P, t)
Progress == [][(mode = "fwd" /\ mode' = "fwd" => fs'.stop \/ fs'.x = fs.x + 1)
               /\ (mode = "bwd" /\ mode' = "bwd" => bs'.k = bs.k - 1)]_vars
=============================================================================
