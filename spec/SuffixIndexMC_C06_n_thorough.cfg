CONSTANTS
  Alpha = {65, 84, 78, 97, 116}
  MaxLen1 = 3
  MaxTotal2 = 2
  MaxP = 3
  MinLens = {1, 2}
  OccRates = {0, 3}
  AllSentinelOrders = TRUE
  T = 2
SPECIFICATION Spec
INVARIANTS StrandSymmetry ExtensionLemma EmptyStaysEmpty FwdInv BwdInv Final MemsFastLemma BigMinLenLemma
PROPERTY Progress
CHECK_DEADLOCK FALSE
