CONSTANTS
  Alpha = {65, 67, 71, 84}
  MaxLen1 = 4
  MaxTotal2 = 3
  MaxP = 3
  MinLens = {1, 2}
  OccRates = {0, 2}
  AllSentinelOrders = TRUE
  T = 1
SPECIFICATION Spec
INVARIANTS StrandSymmetry ExtensionLemma EmptyStaysEmpty FwdInv BwdInv Final MemsFastLemma BigMinLenLemma
PROPERTY Progress
CHECK_DEADLOCK FALSE
