------------------------- MODULE SuffixIndexTraceBwt -------------------------
(* Trace validation for family "bwt" (C04).                                  *)
(* run.cfg = [text, alpha, single]; events (arguments are logged as passed): *)
(*   sa     {}              -> sa     suffix_array(text): IsValidSA (any      *)
(*                                    admissible sentinel order; the code's   *)
(*                                    concrete order is only a DRIFT check)   *)
(*   bwt    {sa}            -> bwt    bwt[r] = symbol cyclically preceding    *)
(*                                    the suffix of row r                     *)
(*   less   {bwt}           -> less   less[c] = #text symbols < c, for every  *)
(*                                    c in 0..max(alpha)+1                    *)
(*   occ    {bwt, k, syms}  -> tab    tab[ci][r] = Occ::get(r, syms[ci]) must *)
(*                                    be OccDef(bwt, r, c) for every row      *)
(*   invert {bwt}           -> text   invert_bwt(bwt) = text (single sentinel)*)
(* C04 is stated relative to the text's suffix array: everything is judged    *)
(* against the array the code returned (validated by IsValidSA), never against*)
(* a spec-computed array.  The chain sa -> bwt -> occ is closed by demanding   *)
(* that the bwt handed to less/occ/invert is the BWT by definition of that     *)
(* array (checked in the `bwt` event; later events repeat the same array).     *)
EXTENDS SuffixIndex, Json, IOUtils

Rec == ndJsonDeserialize(IOEnv.TRACE)
Threshold == 64          \* the code's look-ahead threshold of Occ::get

VARIABLES run, idx, ok
vars == <<run, idx, ok>>

OccTableOK(bwt, syms, tab) ==
    /\ Len(tab) = Len(syms)
    /\ \A ci \in 1..Len(syms) :
          IF Len(bwt) <= 64 THEN OccRowDef(bwt, syms[ci], tab[ci])      \* literally OccDef on every row
          ELSE OccRowRec(bwt, syms[ci], tab[ci])                        \* the same, linear (MC lemma)

Explains(cfg, e) ==
    LET c == e.c  r == e.r  t == cfg.text  n == Len(cfg.text) IN
    /\ r.st = "ok"
    /\ CASE c.op = "sa"   -> IsValidSA(r.sa, t)
         [] c.op = "bwt"  -> /\ IsPerm(c.a.sa, n)
                             /\ Len(r.bwt) = n
                             /\ \A x \in 1..n : r.bwt[x] = BwtDef(t, c.a.sa)[x]
         [] c.op = "less" -> LET m == SetMax(Range(cfg.alpha)) IN
                             /\ Len(r.less) = m + 2
                             /\ \A x \in 0..(m + 1) : r.less[x + 1] = LessDef(t, x)
         [] c.op = "occ"  -> /\ OccTableOK(c.a.bwt, c.a.syms, r.tab)
                             \* clone / clone_from: the original answers like the copy
                             /\ ("tab0" \in DOMAIN r) => r.tab0 = r.tab
         [] c.op = "invert" -> r.text = t
         [] OTHER -> FALSE

\* machine-layer conformance (only evaluated when Explains holds): the code's concrete sentinel order
Exact(cfg, e) ==
    IF e.c.op = "sa" /\ SentCount(cfg.text) >= 3 THEN IsSortedSA(e.r.sa, cfg.text) ELSE TRUE

\* Cross-check of the specification itself at the real constants (T = 64, k up to 2n): the Occ
\* machine fed with the definition's checkpoints answers like the definition.  A violation is an
\* inconsistency of the spec (tool error), never a statement about rust-bio.
MachineAgrees ==
    (idx > 0 /\ Rec[run].ev[idx].c.op = "occ"
       /\ Len(Rec[run].ev[idx].c.a.bwt) <= 450
       /\ (Rec[run].ev[idx].c.a.k >= 63 \/ Len(Rec[run].ev[idx].c.a.bwt) <= 70)) =>     \* (cost: look-ahead rates, small tables)
        LET a    == Rec[run].ev[idx].c.a
            syms == Range(a.syms)
            cps  == CheckpointsDef(a.bwt, a.k, syms)
        IN  \A cc \in syms : LET cp == Eager(cps[cc]) IN
              \A rr \in 0..(Len(a.bwt) - 1) :
                 OccGet(cp, a.bwt, a.k, Threshold, rr, cc) = OccDef(a.bwt, rr, cc)

Init == run \in 1..Len(Rec) /\ idx = 0 /\ ok = TRUE
Next ==
    /\ ok /\ idx < Len(Rec[run].ev)
    /\ LET good == Explains(Rec[run].cfg, Rec[run].ev[idx + 1])
       IN  /\ ok' = good
           /\ IF good
              THEN (IF Exact(Rec[run].cfg, Rec[run].ev[idx + 1]) THEN TRUE ELSE PrintT(<<"DRIFT", run, idx + 1>>))
              ELSE PrintT(<<"REJECT", run, idx + 1>>)
    /\ idx' = idx + 1
    /\ UNCHANGED run
Spec == Init /\ [][Next]_vars
=============================================================================
