-------------------------- MODULE SuffixIndexTraceFm --------------------------
(* Trace validation for family "fm" (C05).                                   *)
(* run.cfg = [text, alpha, k, s, own]: one FM index (Occ rate k; positions   *)
(* resolved through the raw suffix array (s = 0) or a sampled one (rate s);  *)
(* components borrowed / owned / Arc).  Events:                               *)
(*   new    {}  -> n       construction succeeds, n = |bwt| = |text|          *)
(*   search {p} -> kind, lower, upper, len, pos                               *)
(*          kind 2 = Complete exactly when p occurs; 1 = Partial with len =   *)
(*          length of the longest occurring suffix of p; 0 = Absent exactly   *)
(*          when the last symbol does not occur; pos = Interval::occ(sa) must *)
(*          be exactly the occurrence positions (each once) of the matched    *)
(*          suffix.  The same object answers all searches of a run; `it` = kind*)
(*          of iterator the pattern was handed over with (no influence).      *)
(*   clone_from {} -> ok   the index was clone_from()-ed into one built for another text *)
(*   serde  {}  -> ok      owned index + sampled array round-tripped through  *)
(*          serde; the searches after it are judged like the ones before      *)
(* run.cfg = [kind = "unary", n, a, sent, k, s]: closed-form family A^(n-1)$   *)
(* (n > 2^24; suffix array n-1..0 given in closed form, not logged):           *)
(*   new_unary    {}  -> n                                                     *)
(*   search_unary {m} -> kind, lower, upper, len, rows, vals   pattern A^m:    *)
(*          Complete with interval [m, n) when m <= n-1, else Partial with the *)
(*          interval [n-1, n) and len = n-1; vals[j] = rows[j] resolved through*)
(*          the sampled suffix array must be n-1-rows[j] (MC lemma             *)
(*          SuffixIndexMC_C05!UnaryLemma: this is BackwardSearchOK for small n)*)
EXTENDS SuffixIndex, Json, IOUtils

Rec == ndJsonDeserialize(IOEnv.TRACE)

VARIABLES run, idx, ok
vars == <<run, idx, ok>>

Explains(cfg, e) ==
    LET c == e.c  r == e.r  t == cfg.text IN
    /\ r.st = "ok"
    /\ CASE c.op \in {"serde", "clone_from"} -> TRUE      \* the index (and sampled array) went through Serialize/Deserialize
         [] c.op = "new" -> SentinelOK(t) /\ r.n = Len(t)       \* (r.sa is only used by MachineAgrees)
         [] c.op = "search" ->
              LET p == c.a.p IN
              \* the empty pattern is outside the property (non-empty patterns): only "answers" is demanded;
              \* what the code answers today (Absent) is machine-layer conformance, see Exact
              IF Len(p) = 0 THEN TRUE
              ELSE /\ \A i \in 1..Len(p) : p[i] # Sentinel(t) /\ p[i] \in Range(cfg.alpha)
                   /\ r.kind \in {Absent, Partial, Complete}
                   /\ BackwardSearchOK(p, t, r)
         [] c.op = "new_unary" -> cfg.kind = "unary" /\ cfg.n >= 2 /\ cfg.a > cfg.sent /\ r.n = cfg.n
         [] c.op = "search_unary" ->
              LET n == cfg.n  m == c.a.m  want == UnaryBS(n, m) IN
              /\ cfg.kind = "unary" /\ m >= 1
              /\ r.kind = want.kind /\ r.lower = want.lower /\ r.upper = want.upper /\ r.len = want.len
              /\ Len(r.vals) = Len(r.rows)
              /\ \A j \in 1..Len(r.rows) : r.rows[j] \in r.lower..(r.upper - 1) /\ r.vals[j] = n - 1 - r.rows[j]
         [] OTHER -> FALSE

\* machine-layer conformance (DRIFT, never a REJECT): the unchanged code answers the empty pattern with
\* Absent (no symbol matched), and lists the positions of an interval in suffix-array row order
Exact(cfg, e) ==
    IF e.c.op = "search" /\ Len(e.c.a.p) = 0 THEN e.r.kind = Absent
    ELSE IF e.c.op = "search" /\ e.r.kind # Absent /\ Rec[run].ev[1].r.st = "ok" /\ Len(cfg.text) <= 200
    THEN \A x \in 1..Len(e.r.pos) : e.r.pos[x] = Rec[run].ev[1].r.sa[e.r.lower + x]
    ELSE TRUE

\* Cross-check of the specification itself at the real constants (T = 64, the run's Occ rate): the
\* backward-search machine over the Occ machine, run on the suffix array the code built, agrees with
\* the definition.  A violation is an inconsistency of the spec (tool error), not a finding.
RECURSIVE BSRun(_, _, _)
BSRun(st, p, ix) == IF st.j > 0 /\ ~st.brk THEN BSRun(BSStep(st, p, ix), p, ix) ELSE st
MachineAgrees ==
    (idx > 1 /\ Rec[run].ev[idx].c.op = "search" /\ Rec[run].ev[1].r.st = "ok"
       /\ Len(Rec[run].cfg.text) <= 200) =>
        LET cfg == Rec[run].cfg  t == Rec[run].cfg.text  n == Len(Rec[run].cfg.text)
            sa  == Rec[run].ev[1].r.sa
            p   == Rec[run].ev[idx].c.a.p
        IN  (n <= 200 /\ Len(p) <= 40 /\ IsValidSA(sa, t) /\ \A i \in 1..Len(p) : p[i] \in Range(cfg.alpha)) =>
               LET syms == Range(cfg.alpha) \cup {Sentinel(t)}
                   ix   == MkIndexOn(t, sa, cfg.k, 64, syms, syms)
                   res  == BSResult(BSRun(BSInit(n, Len(p)), p, ix))
               IN  BackwardSearchOK(p, t, [kind |-> res.kind, lower |-> res.lower, upper |-> res.upper, len |-> res.len,
                                           pos |-> [x \in 1..(res.upper - res.lower) |-> sa[res.lower + x]]])

Init == run \in 1..Len(Rec) /\ idx = 0 /\ ok = TRUE
Next ==
    /\ ok /\ idx < Len(Rec[run].ev)
    /\ LET good == Explains(Rec[run].cfg, Rec[run].ev[idx + 1])
       IN  /\ ok' = good
           /\ IF good
              THEN (IF Exact(Rec[run].cfg, Rec[run].ev[idx + 1]) THEN TRUE ELSE PrintT(<<"DRIFT", run, idx + 1>>))
              ELSE PrintT(<<"REJECT", run, idx + 1>>)
    /\ idx' = idx + 1
    /\ UNCHANGED run
Spec == Init /\ [][Next]_vars
=============================================================================
