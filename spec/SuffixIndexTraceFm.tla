-------------------------- MODULE SuffixIndexTraceFm --------------------------
(* Trace validation for family "fm" (C05).                                   *)
(* run.cfg = [text, alpha, k, s, own]: one FM index (Occ rate k; positions   *)
(* resolved through the raw suffix array (s = 0) or a sampled one (rate s);  *)
(* components borrowed / owned / Arc).  Events:                               *)
(*   new    {}  -> n       construction succeeds, n = |bwt| = |text|          *)
(*   search {p} -> kind, lower, upper, len, pos                               *)
(*          kind 2 = Complete exactly when p occurs; 1 = Partial with len =   *)
(*          length of the longest occurring suffix of p; 0 = Absent exactly   *)
(*          when the last symbol does not occur; pos = Interval::occ(sa) must *)
(*          be exactly the occurrence positions (each once) of the matched    *)
(*          suffix.  The same object answers all searches of a run.           *)
EXTENDS SuffixIndex, Json, IOUtils

Rec == ndJsonDeserialize(IOEnv.TRACE)

VARIABLES run, idx, ok
vars == <<run, idx, ok>>

Explains(cfg, e) ==
    LET c == e.c  r == e.r  t == cfg.text IN
    /\ r.st = "ok"
    /\ CASE c.op = "new" -> SentinelOK(t) /\ r.n = Len(t)
         [] c.op = "search" ->
              LET p == c.a.p IN
              /\ Len(p) >= 1 /\ \A i \in 1..Len(p) : p[i] # Sentinel(t) /\ p[i] \in Range(cfg.alpha)
              /\ r.kind \in {Absent, Partial, Complete}
              /\ BackwardSearchOK(p, t, r)
         [] OTHER -> FALSE

Init == run \in 1..Len(Rec) /\ idx = 0 /\ ok = TRUE
Next ==
    /\ ok /\ idx < Len(Rec[run].ev)
    /\ LET good == Explains(Rec[run].cfg, Rec[run].ev[idx + 1])
       IN  /\ ok' = good
           /\ IF good THEN TRUE ELSE PrintT(<<"REJECT", run, idx + 1>>)
    /\ idx' = idx + 1
    /\ UNCHANGED run
Spec == Init /\ [][Next]_vars
=============================================================================
