-------------------------- MODULE SuffixIndexTraceFm --------------------------
(* Trace validation for family "fm" (C05).                                   *)
(* run.cfg = [text, alpha, k, s, own]: one FM index (Occ rate k; positions   *)
(* resolved through the raw suffix array (s = 0) or a sampled one (rate s);  *)
(* components borrowed / owned / Arc).  Events:                               *)
(*   new    {}  -> n       construction succeeds, n = |bwt| = |text|          *)
(*   search {p} -> kind, lower, upper, len, pos                               *)
(*          kind 2 = Complete exactly when p occurs; 1 = Partial with len =   *)
(*          length of the longest occurring suffix of p; 0 = Absent exactly   *)
(*          when the last symbol does not occur; pos = Interval::occ(sa) must *)
(*          be exactly the occurrence positions (each once) of the matched    *)
(*          suffix.  The same object answers all searches of a run.           *)
EXTENDS SuffixIndex, Json, IOUtils

Rec == ndJsonDeserialize(IOEnv.TRACE)

VARIABLES run, idx, ok
vars == <<run, idx, ok>>

Explains(cfg, e) ==
    LET c == e.c  r == e.r  t == cfg.text IN
    /\ r.st = "ok"
    /\ CASE c.op = "new" -> SentinelOK(t) /\ r.n = Len(t)       \* (r.sa is only used by MachineAgrees)
         [] c.op = "search" ->
              LET p == c.a.p IN
              /\ Len(p) >= 1 /\ \A i \in 1..Len(p) : p[i] # Sentinel(t) /\ p[i] \in Range(cfg.alpha)
              /\ r.kind \in {Absent, Partial, Complete}
              /\ BackwardSearchOK(p, t, r)
         [] OTHER -> FALSE

\* Cross-check of the specification itself at the real constants (T = 64, the run's Occ rate): the
\* backward-search machine over the Occ machine, run on the suffix array the code built, agrees with
\* the definition.  A violation is an inconsistency of the spec (tool error), not a finding.
RECURSIVE BSRun(_, _, _)
BSRun(st, p, ix) == IF st.j > 0 /\ ~st.brk THEN BSRun(BSStep(st, p, ix), p, ix) ELSE st
MachineAgrees ==
    (idx > 1 /\ Rec[run].ev[idx].c.op = "search" /\ Rec[run].ev[1].r.st = "ok") =>
        LET cfg == Rec[run].cfg  t == Rec[run].cfg.text  n == Len(Rec[run].cfg.text)
            sa  == Rec[run].ev[1].r.sa
            p   == Rec[run].ev[idx].c.a.p
        IN  (n <= 200 /\ Len(p) <= 40 /\ IsValidSA(sa, t) /\ \A i \in 1..Len(p) : p[i] \in Range(cfg.alpha)) =>
               LET syms == Range(cfg.alpha) \cup {Sentinel(t)}
                   ix   == MkIndexOn(t, sa, cfg.k, 64, syms, syms)
                   res  == BSResult(BSRun(BSInit(n, Len(p)), p, ix))
               IN  BackwardSearchOK(p, t, [kind |-> res.kind, lower |-> res.lower, upper |-> res.upper, len |-> res.len,
                                           pos |-> [x \in 1..(res.upper - res.lower) |-> sa[res.lower + x]]])

Init == run \in 1..Len(Rec) /\ idx = 0 /\ ok = TRUE
Next ==
    /\ ok /\ idx < Len(Rec[run].ev)
    /\ LET good == Explains(Rec[run].cfg, Rec[run].ev[idx + 1])
       IN  /\ ok' = good
           /\ IF good THEN TRUE ELSE PrintT(<<"REJECT", run, idx + 1>>)
    /\ idx' = idx + 1
    /\ UNCHANGED run
Spec == Init /\ [][Next]_vars
=============================================================================
