------------------------- MODULE SuffixIndexTraceFmd -------------------------
(* Trace validation for family "fmd" (C06).                                  *)
(* run.cfg = [seqs, k, tab]: one FMD index over text = concat(s $ revcomp(s) $);*)
(* tab = which alphabet less/Occ were built from (0 n_alphabet, 1 "$ACGTN",    *)
(* 2 "ACGTN"; the reduced ones only with upper-case sequences/patterns).       *)
(* Events (intervals are <<lower, upper>>; fp / rp = the forward / revcomp    *)
(* interval mapped through the suffix array by the harness):                  *)
(*   build     {}      -> text          = FmdText(seqs) (the harness used      *)
(*                                        dna::revcomp; the spec its own)      *)
(*   smems     {p, l}  -> res           res[i+1] = smems(p, i, l) for every i: *)
(*                                        exactly the SMEMs covering i with    *)
(*                                        length >= l, each once               *)
(*   all_smems {p, l}  -> ms            every SMEM of length >= l at least     *)
(*                                        once, nothing else                   *)
(*   ext_path  {start, ops} -> ivs      chain of bi-interval extensions from   *)
(*             init_interval() (start = -1) or init_interval_with(start):      *)
(*             ops[j] = <<dir, c>>, dir 0 = backward_ext, 1 = forward_ext;     *)
(*             ivs[j] must be the bi-interval of the string built so far       *)
(*             (size 0 iff it does not occur).  The chain goes on past empty   *)
(*             intervals: the extension of an empty bi-interval is the empty   *)
(*             bi-interval of the extended string -- the property fixes its    *)
(*             size (0), not its bounds.                                       *)
(*   clone     {from}  -> ok            the index was clone()d / clone_from()-ed *)
(*             into a used index of other sequences; copy and original go on   *)
(*   serde     {}      -> ok            owned index round-tripped through serde;*)
(*             the events after it are judged like the ones before            *)
(*   bsearch   {p, it} -> kind, lower, upper, len, pos   backward_search of    *)
(*             the FMD index (iterator kind `it`), judged as in C05            *)
(* Result order is free; only sets are compared.                              *)
EXTENDS SuffixIndex, Json, IOUtils

Rec == ndJsonDeserialize(IOEnv.TRACE)

VARIABLES run, idx, ok
vars == <<run, idx, ok>>

DnaWord(p) == \A i \in 1..Len(p) : p[i] \in DnaN
MemSet(p, t) == IF Len(p) <= 5 THEN Mems(p, t) ELSE MemsFast(p, t)

\* string after applying ops[1..j] to w0
RECURSIVE Built(_, _, _)
Built(w0, ops, j) ==
    IF j = 0 THEN w0
    ELSE LET w == Built(w0, ops, j - 1) IN
         IF ops[j][1] = 0 THEN <<ops[j][2]>> \o w ELSE w \o <<ops[j][2]>>

ExtPathOK(a, ivs, t) ==
    LET w0   == IF a.start = -1 THEN << >> ELSE <<a.start>>
        off  == IF a.start = -1 THEN 0 ELSE 1            \* ivs[1] = init_interval_with(start)
        nops == Len(a.ops)
    IN  /\ a.start = -1 \/ a.start \in DnaN
        /\ \A j \in 1..nops : a.ops[j][1] \in {0, 1} /\ a.ops[j][2] \in DnaN
        /\ Len(ivs) = nops + off
        /\ \A x \in 1..Len(ivs) : BiObservedOK(Built(w0, a.ops, x - off), ivs[x], t)

UpperWord(p) == \A i \in 1..Len(p) : p[i] \in {65, 67, 71, 84, 78}
Explains(cfg, e) ==
    LET c == e.c  r == e.r  t == FmdText(cfg.seqs) IN
    /\ r.st = "ok"
    /\ CASE c.op = "build" -> /\ \A x \in 1..Len(cfg.seqs) : DnaWord(cfg.seqs[x]) /\ Len(cfg.seqs[x]) >= 1
                              /\ cfg.tab \in {0, 1, 2} /\ (cfg.tab # 0 => \A x \in 1..Len(cfg.seqs) : UpperWord(cfg.seqs[x]))
                              /\ r.text = t
         [] c.op = "smems" ->
              LET p == c.a.p  l == c.a.l  M == MemSet(p, t) IN
              /\ Len(p) >= 1 /\ DnaWord(p) /\ l >= 1 /\ (cfg.tab # 0 => UpperWord(p))
              /\ Len(r.res) = Len(p)
              /\ \A i \in 0..(Len(p) - 1) : SmemsOKin(M, p, i, l, r.res[i + 1], t)
         [] c.op = "all_smems" ->
              LET p == c.a.p  l == c.a.l IN
              /\ Len(p) >= 1 /\ DnaWord(p) /\ l >= 1 /\ (cfg.tab # 0 => UpperWord(p))
              /\ AllSmemsOKin(MemSet(p, t), p, l, r.ms, t)
         [] c.op \in {"serde", "clone"} -> TRUE
         [] c.op = "smems_big" ->      \* l >= 2^32 - 1 > |p|: no SMEM is that long (Smems(p,i,l) = {} for l > |p|)
              /\ Len(c.a.p) >= 1 /\ Len(c.a.p) < 1000000
              /\ Len(r.res) = Len(c.a.p) /\ \A i \in 1..Len(r.res) : r.res[i] = << >>
              /\ r.all = << >>     \* the (owned) index went through Serialize/Deserialize
         [] c.op = "bsearch" ->        \* FMIndexable::backward_search of the FMD index (C05 semantics)
              LET p == c.a.p IN
              /\ Len(p) >= 1 /\ DnaWord(p)
              /\ r.kind \in {Absent, Partial, Complete}
              /\ BackwardSearchOK(p, t, r)
         [] c.op = "ext_path" ->
              /\ cfg.tab # 0 => (c.a.start \in {-1, 65, 67, 71, 84, 78} /\ \A j \in 1..Len(c.a.ops) : UpperWord(<<c.a.ops[j][2]>>))
              /\ ExtPathOK(c.a, r.ivs, t)
         [] OTHER -> FALSE

Init == run \in 1..Len(Rec) /\ idx = 0 /\ ok = TRUE
Next ==
    /\ ok /\ idx < Len(Rec[run].ev)
    /\ LET good == Explains(Rec[run].cfg, Rec[run].ev[idx + 1])
       IN  /\ ok' = good
           /\ IF good THEN TRUE ELSE PrintT(<<"REJECT", run, idx + 1>>)
    /\ idx' = idx + 1
    /\ UNCHANGED run
Spec == Init /\ [][Next]_vars
=============================================================================
