SPECIFICATION Spec
INVARIANT MachineAgrees
CHECK_DEADLOCK FALSE
