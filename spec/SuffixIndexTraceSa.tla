-------------------------- MODULE SuffixIndexTraceSa --------------------------
(* Trace validation for family "sa" (C03).                                   *)
(* run.cfg = [kind, text]; events:                                            *)
(*   suffix_array      {}           -> sa    IsValidSA(sa, text): sorted under *)
(*                                           the comparison whose sentinel    *)
(*                                           order is read off sa (any fixed  *)
(*                                           order, final sentinel smallest)  *)
(*   suffix_array_int  {w}          -> sa    the same on a dense integer text *)
(*                                           ending in a unique 0             *)
(*   lcp               {sa}         -> lcp   = LcpDef(text, sa)  (n+1 entries)*)
(*   sus               {sa}         -> sus   = SusDef(text)      (-1 = None)  *)
(*   sample            {sa,s,k,own} -> v,oob v[i] = sa[i] for every i,        *)
(*                                           get(n) = None                    *)
(*   suffix_array_big  {}           -> sa,rk the same verdict for texts with   *)
(*                                           ~10^5 sentinels: rk[p] = row of   *)
(*                                           sentinel p (a re-indexing of sa   *)
(*                                           logged by the harness, verified   *)
(*                                           against sa): IsValidSAW           *)
(* run.cfg = [kind = "unary", n, a, sent] (text A^(n-1)$ too long to log; its  *)
(* suffix array n-1..0 is known in closed form, MC lemma UnaryLemma):          *)
(*   sample_unary      {k,s,rows}   -> len,vals  vals[j] = get(rows[j]) must   *)
(*                                           be n-1-rows[j], len = n           *)
(* run.cfg = [kind = "zigzag", m] (integer text 2m,1,2m-1,2,...,m+1,m,0; all   *)
(* symbols distinct, so the suffix array is the inverse permutation):          *)
(*   suffix_array_zigzag {w}        -> sa    sa[v] = position of value v        *)
(* `sa` arguments are the array returned (and validated) by the first event.  *)
(* Explains = the property (REJECT when false).  Exact = conformance with the *)
(* machine layer: the code's concrete sentinel order (reverse text order,     *)
(* Transform); a failure while the property holds is a DRIFT, not an alarm.   *)
EXTENDS SuffixIndex, Json, IOUtils

Rec == ndJsonDeserialize(IOEnv.TRACE)

VARIABLES run, idx, ok
vars == <<run, idx, ok>>

SeqEq(a, f, n) == Len(a) = n /\ \A i \in 1..n : a[i] = f[i]

Explains(cfg, e) ==
    LET c == e.c  r == e.r  t == cfg.text  n == Len(cfg.text) IN
    /\ r.st = "ok"
    /\ CASE c.op = "suffix_array" -> cfg.kind = "bytes" /\ SentinelOK(t) /\ IsValidSA(r.sa, t)
         [] c.op = "suffix_array_big" -> cfg.kind = "bytes" /\ SentinelOK(t) /\ IsValidSAW(r.sa, t, r.rk)
         [] c.op = "sample_unary" ->
              /\ cfg.kind = "unary" /\ cfg.n >= 2 /\ cfg.a > cfg.sent /\ c.a.s >= 1 /\ c.a.k >= 1
              /\ r.len = cfg.n
              /\ Len(r.vals) = Len(c.a.rows)
              /\ \A j \in 1..Len(c.a.rows) :
                    /\ c.a.rows[j] \in 0..(cfg.n - 1)
                    /\ r.vals[j] = cfg.n - 1 - c.a.rows[j]              \* = UnarySA(n)[row + 1]
         [] c.op = "suffix_array_zigzag" ->           \* closed-form family (MC lemma ZigzagLemma)
              /\ cfg.kind = "zigzag" /\ cfg.m >= 1
              /\ Len(r.sa) = 2 * cfg.m + 1
              /\ \A x \in 1..(2 * cfg.m + 1) : r.sa[x] = ZigzagSAat(cfg.m, x - 1)
         [] c.op = "suffix_array_perm" -> cfg.kind = "int" /\ PermText(t) /\ PermSAOK(r.sa, t)
         [] c.op = "suffix_array_int" -> cfg.kind = "int" /\ DenseInt(t) /\ IsValidSA(r.sa, t)
         [] c.op = "lcp" -> /\ SingleSentinel(t) /\ n >= 2
                            /\ IsPerm(c.a.sa, n)
                            /\ SeqEq(r.lcp, LcpDef(t, c.a.sa), n + 1)
                            \* the same array through iter() and get(i); get(n+1) = None (-99)
                            /\ r.it = r.lcp /\ r.gets = r.lcp /\ r.len = n + 1 /\ r.oob = -99
         [] c.op = "sus" -> /\ SingleSentinel(t) /\ n >= 2
                            /\ SeqEq(r.sus, IF n <= 12 THEN SusDef(t) ELSE SusPairs(t), n)
                            /\ r.sus_s = r.sus          \* the same through a sampled suffix array
         [] c.op = "sample" -> /\ c.a.s >= 1 /\ c.a.k >= 1
                               /\ r.v = c.a.sa
                               /\ r.oob = None
                               \* clone / clone_from events: the original answers like the copy
                               /\ ("v0" \in DOMAIN r) => r.v0 = c.a.sa
         [] OTHER -> FALSE

\* machine-layer conformance (only evaluated when Explains holds): with fewer than three sentinel
\* occurrences there is only one admissible order
Exact(cfg, e) ==
    IF e.c.op = "suffix_array" /\ SentCount(cfg.text) >= 3 THEN IsSortedSA(e.r.sa, cfg.text)
    ELSE IF e.c.op = "suffix_array_big"           \* the code's order: sentinel suffixes in reverse text order
    THEN \A j \in 1..(SentCount(cfg.text) - 1) : e.r.sa[j] > e.r.sa[j + 1]
    ELSE TRUE

\* Cross-checks of the specification itself at the real constants (Esc = 127, T = 64, the logged
\* rates): the machine layer, run on the recorded arguments, must agree with the definition layer.
\* A violation is an inconsistency of the spec (tool error), never a statement about rust-bio.
\* (Guarded by IsValidSA of the logged array: on a wrong array -- mutated code -- nothing is claimed.)
RECURSIVE KasaiRun(_, _, _, _, _)
KasaiRun(st, sm, t, sa, rank) ==
    IF st.p >= Len(t) - 1 THEN <<st, sm>>
    ELSE LET nx == KasaiStep(st, t, sa, rank)
             r  == rank[st.p + 1]
         IN  KasaiRun(nx, SmallIntsSet(sm[1], sm[2], r + 1, nx.lcp[r + 1], 127), t, sa, rank)
RECURSIVE SGetRun(_, _, _, _, _)
SGetRun(st, sa, ix, s, sent) == IF st.done THEN st.val ELSE SGetRun(SGetStep(st, sa, ix, s, sent), sa, ix, s, sent)
MachineAgrees ==
    idx > 0 =>
        LET e == Rec[run].ev[idx]  t == Rec[run].cfg.text  n == Len(Rec[run].cfg.text) IN
        CASE e.c.op = "lcp" /\ n <= 400 /\ n >= 2 /\ SingleSentinel(t) /\ IsValidSA(e.c.a.sa, t) ->
               LET sa  == e.c.a.sa
                   fin == KasaiRun(KasaiInit(n), <<[r \in 1..(n + 1) |-> -1], << >> >>, t, sa, Eager(RankOf(sa)))
               IN  \A r \in 1..(n + 1) :
                      /\ fin[1].lcp[r] = LcpDef(t, sa)[r]
                      /\ SmallIntsGet(fin[2][1], fin[2][2], r, 127) = fin[1].lcp[r]
          [] e.c.op = "sus" /\ n <= 150 /\ n >= 2 /\ SingleSentinel(t) /\ IsValidSA(e.c.a.sa, t) ->
               LET sa == e.c.a.sa  l == Eager(LcpDef(t, sa)) IN
               \A p \in 1..n : SusViaLcp(sa, l)[p] = SusPairs(t)[p]
          [] e.c.op = "sample" /\ n <= 150 /\ SentinelOK(t) /\ IsValidSA(e.c.a.sa, t) /\ e.c.a.s >= 1 /\ e.c.a.k >= 1 ->
               LET sa == e.c.a.sa
                   ix == MkIndex(t, sa, e.c.a.k, 64, Range(t))
               IN  \A i \in 0..(n - 1) : SGetRun(SGetInit(i), sa, ix, e.c.a.s, Sentinel(t)) = sa[i + 1]
          [] OTHER -> TRUE

Init == run \in 1..Len(Rec) /\ idx = 0 /\ ok = TRUE
Next ==
    /\ ok /\ idx < Len(Rec[run].ev)
    /\ LET good == Explains(Rec[run].cfg, Rec[run].ev[idx + 1])
       IN  /\ ok' = good
           /\ IF good
              THEN (IF Exact(Rec[run].cfg, Rec[run].ev[idx + 1]) THEN TRUE ELSE PrintT(<<"DRIFT", run, idx + 1>>))
              ELSE PrintT(<<"REJECT", run, idx + 1>>)
    /\ idx' = idx + 1
    /\ UNCHANGED run
Spec == Init /\ [][Next]_vars
=============================================================================
