-------------------------- MODULE SuffixIndexTraceSa --------------------------
(* Trace validation for family "sa" (C03).                                   *)
(* run.cfg = [kind, text]; events:                                            *)
(*   suffix_array      {}           -> sa    IsSortedSA(sa, text)             *)
(*   suffix_array_int  {w}          -> sa    the same order on a dense integer*)
(*                                           text ending in a unique 0        *)
(*   lcp               {sa}         -> lcp   = LcpDef(text, sa)  (n+1 entries)*)
(*   sus               {sa}         -> sus   = SusDef(text)      (-1 = None)  *)
(*   sample            {sa,s,k,own} -> v,oob v[i] = sa[i] for every i,        *)
(*                                           get(n) = None                    *)
(* `sa` arguments are the array returned (and validated) by the first event.  *)
EXTENDS SuffixIndex, Json, IOUtils

Rec == ndJsonDeserialize(IOEnv.TRACE)

VARIABLES run, idx, ok
vars == <<run, idx, ok>>

SeqEq(a, f, n) == Len(a) = n /\ \A i \in 1..n : a[i] = f[i]

Explains(cfg, e) ==
    LET c == e.c  r == e.r  t == cfg.text  n == Len(cfg.text) IN
    /\ r.st = "ok"
    /\ CASE c.op = "suffix_array" -> cfg.kind = "bytes" /\ SentinelOK(t) /\ IsSortedSA(r.sa, t)
         [] c.op = "suffix_array_int" -> cfg.kind = "int" /\ DenseInt(t) /\ IsSortedSA(r.sa, t)
         [] c.op = "lcp" -> /\ SingleSentinel(t) /\ n >= 2
                            /\ IsPerm(c.a.sa, n)
                            /\ SeqEq(r.lcp, LcpDef(t, c.a.sa), n + 1)
         [] c.op = "sus" -> /\ SingleSentinel(t) /\ n >= 2
                            /\ SeqEq(r.sus, IF n <= 12 THEN SusDef(t) ELSE SusPairs(t), n)
         [] c.op = "sample" -> /\ c.a.s >= 1 /\ c.a.k >= 1
                               /\ r.v = c.a.sa
                               /\ r.oob = None
         [] OTHER -> FALSE

Init == run \in 1..Len(Rec) /\ idx = 0 /\ ok = TRUE
Next ==
    /\ ok /\ idx < Len(Rec[run].ev)
    /\ LET good == Explains(Rec[run].cfg, Rec[run].ev[idx + 1])
       IN  /\ ok' = good
           /\ IF good THEN TRUE ELSE PrintT(<<"REJECT", run, idx + 1>>)
    /\ idx' = idx + 1
    /\ UNCHANGED run
Spec == Init /\ [][Next]_vars
=============================================================================
