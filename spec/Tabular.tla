------------------------------ MODULE Tabular ------------------------------
(***************************************************************************)
(* C13 -- BED and GFF3 / GFF2 / GTF2 records: wire format, write-read      *)
(* round trip, malformed lines (src/io/bed.rs, src/io/gff.rs).             *)
(*                                                                         *)
(* Everything is a sequence of bytes (integers 0..255).  Fields are opaque *)
(* tokens except the coordinates (decimal u64, compared as canonical digit *)
(* strings -- TLC has 32-bit integers), the GFF phase and the GFF          *)
(* attribute column.                                                        *)
(*                                                                         *)
(* Definition layer                                                         *)
(*   * tab-separated lines: Split, record lines of a file (comment lines    *)
(*     and empty lines are no records); a GFF record has exactly 9 columns, *)
(*     the column count of a BED file is the one of its first record (every *)
(*     other count is an error for that record);                            *)
(*   * U64 tokens (what Rust's u64::from_str accepts) and their canonical   *)
(*     form;                                                                *)
(*   * ParseAttrs(dl, col): the meaning of the reader's attribute regular   *)
(*     expression   " *(key)[d](value)[t]?"  with key, value = non-empty    *)
(*     runs of bytes other than d, t, TAB, applied repeatedly (leftmost,    *)
(*     greedy, non-overlapping), values split on the value delimiter,       *)
(*     quotes stripped: a sequence of <<key, value>> insertions = a         *)
(*     multimap with value order per key;                                   *)
(*   * WellFormedAttrs / the round-trip lemma: a column is a serialization  *)
(*     of a multimap iff it consists of entries only and parses back to it; *)
(*   * reference parsers GffLine, BedLine, ParseFile: Ok(record) / Err.     *)
(* Machine layer (TabularMC.tla): the attribute writer (one entry per step, *)
(* any key order) and the byte-by-byte attribute scanner, per dialect.      *)
(***************************************************************************)
EXTENDS Integers, Sequences, FiniteSets

TAB == 9   LF == 10   CR == 13   SP == 32   DQ == 34   HASH == 35   SQ == 39
PLUS == 43  DOT == 46  ZERO == 48  NINE == 57  LOWX == 120

\* (key/value separator, entry terminator, value delimiter or 0)
Dialect(name) ==
    CASE name = "gff3" -> [d |-> 61, t |-> 59, v |-> 44]          \*  =  ;  ,
      [] name = "gff2" -> [d |-> 32, t |-> 59, v |-> 0]           \*  ' ' ;
      [] name = "gtf2" -> [d |-> 32, t |-> 59, v |-> 0]
      [] OTHER         -> [d |-> 61, t |-> 59, v |-> 44]

\* --------------------------------------------------------------- splitting
\* like Rust's str::split: Split(<<>>, c) = << <<>> >>.  (Positions via the built-in
\* SelectSeq: no recursion over the bytes of a whole file.)
SepPositions(s, sep) == SelectSeq([i \in 1..Len(s) |-> i], LAMBDA i : s[i] = sep)
RECURSIVE PiecesAcc(_, _, _, _, _)
PiecesAcc(s, pos, k, start, acc) ==
    IF k > Len(pos) THEN Append(acc, SubSeq(s, start, Len(s)))
    ELSE PiecesAcc(s, pos, k + 1, pos[k] + 1, Append(acc, SubSeq(s, start, pos[k] - 1)))
Split(s, sep) == PiecesAcc(s, SepPositions(s, sep), 1, 1, << >>)
NumPieces(s, sep) == Len(SepPositions(s, sep)) + 1

\* record lines of a file: split at LF; empty lines and comment lines are skipped
IsRecordLine(l) == l # << >> /\ l[1] # HASH
RecordLines(bytes) == SelectSeq(Split(bytes, LF), IsRecordLine)

\* ------------------------------------------------------------------ numbers
IsDigit(c) == c >= ZERO /\ c <= NINE
AllDigits(s) == \A i \in 1..Len(s) : IsDigit(s[i])
U64MAX == <<49,56,52,52,54,55,52,52,48,55,51,55,48,57,53,53,49,54,49,53>>   \* 18446744073709551615

RECURSIVE StripZeros(_)
StripZeros(s) == IF Len(s) > 1 /\ s[1] = ZERO THEN StripZeros(Tail(s)) ELSE s

RECURSIVE LexLe(_, _, _)
LexLe(x, y, i) ==                \* equal lengths
    IF i > Len(x) THEN TRUE
    ELSE IF x[i] < y[i] THEN TRUE
    ELSE IF x[i] > y[i] THEN FALSE
    ELSE LexLe(x, y, i + 1)

Digits(tok) == IF tok # << >> /\ tok[1] = PLUS THEN Tail(tok) ELSE tok   \* from_str accepts one leading '+'
IsU64(tok) ==
    LET ds == Digits(tok) IN
    /\ ds # << >> /\ AllDigits(ds)
    /\ LET c == StripZeros(ds)
       IN  Len(c) < 20 \/ (Len(c) = 20 /\ LexLe(c, U64MAX, 1))
Canon(tok) == StripZeros(Digits(tok))
\* the csv crate additionally reads integers with a "0x" prefix as hexadecimal:
\* outside the property and outside the generators; such lines are left unconstrained
HexLike(tok) == Len(tok) >= 2 /\ tok[1] = ZERO /\ tok[2] = LOWX

\* -------------------------------------------------------- attribute column
InC(dl, c) == c # dl.d /\ c # dl.t /\ c # TAB

RECURSIVE RunEnd(_, _, _)
\* last index of the maximal run of class-C bytes starting at i (i - 1 if none)
RunEnd(dl, s, i) == IF i <= Len(s) /\ InC(dl, s[i]) THEN RunEnd(dl, s, i + 1) ELSE i - 1

RECURSIVE StripLeft(_, _)
StripLeft(s, ch) == IF s # << >> /\ s[1] = ch THEN StripLeft(Tail(s), ch) ELSE s
RECURSIVE StripRight(_, _)
StripRight(s, ch) == IF s # << >> /\ s[Len(s)] = ch THEN StripRight(SubSeq(s, 1, Len(s) - 1), ch) ELSE s
Trim(s, ch) == StripRight(StripLeft(s, ch), ch)
TrimQuotes(s) == Trim(Trim(s, SQ), DQ)           \* trim_matches('\'').trim_matches('"')

\* the key captured from a run: " *" is greedy but must leave one byte to the key
KeyOf(run) == LET k == StripLeft(run, SP) IN IF k = << >> THEN <<SP>> ELSE k

ValuesOf(dl, v) == IF dl.v = 0 THEN <<v>> ELSE Split(v, dl.v)

RECURSIVE PairsOf(_, _, _, _)
PairsOf(key, vals, i, acc) ==
    IF i > Len(vals) THEN acc
    ELSE PairsOf(key, vals, i + 1, Append(acc, <<key, TrimQuotes(vals[i])>>))

RECURSIVE ParseFrom(_, _, _, _)
\* scan from position i; acc = insertions so far
ParseFrom(dl, s, i, acc) ==
    IF i > Len(s) THEN acc
    ELSE IF ~InC(dl, s[i]) THEN ParseFrom(dl, s, i + 1, acc)
    ELSE LET j == RunEnd(dl, s, i) IN        \* s[i..j] = maximal run (i is its first byte)
         IF j + 2 <= Len(s) /\ s[j + 1] = dl.d /\ InC(dl, s[j + 2])
         THEN LET k    == RunEnd(dl, s, j + 2)
                  key  == TrimQuotes(KeyOf(SubSeq(s, i, j)))
                  nxt  == IF k + 1 <= Len(s) /\ s[k + 1] = dl.t THEN k + 2 ELSE k + 1
              IN  ParseFrom(dl, s, nxt, PairsOf(key, ValuesOf(dl, SubSeq(s, j + 2, k)), 1, acc))
         ELSE ParseFrom(dl, s, j + 1, acc)
ParseAttrs(dl, col) == ParseFrom(dl, col, 1, << >>)
\* Note for d = SP (GFF2/GTF2): spaces are not in class C, so a run never starts
\* with a space and the scan skips them, which is what " *" does.

\* multimap view of a sequence of insertions <<key, value>>
Keys(pairs) == {pairs[i][1] : i \in 1..Len(pairs)}
RECURSIVE ValuesAcc(_, _, _, _)
ValuesAcc(pairs, key, i, acc) ==
    IF i > Len(pairs) THEN acc
    ELSE ValuesAcc(pairs, key, i + 1, IF pairs[i][1] = key THEN Append(acc, pairs[i][2]) ELSE acc)
ValuesFor(pairs, key) == ValuesAcc(pairs, key, 1, << >>)
MM(pairs) == [k \in Keys(pairs) |-> ValuesFor(pairs, k)]

\* a logged multimap: sequence of <<key, <<v1, v2, ..>> >>, keys distinct
RECURSIVE PairsRaw(_, _, _, _)
PairsRaw(key, vals, i, acc) ==
    IF i > Len(vals) THEN acc ELSE PairsRaw(key, vals, i + 1, Append(acc, <<key, vals[i]>>))
RECURSIVE FlattenAcc(_, _, _)
FlattenAcc(attrs, i, acc) ==
    IF i > Len(attrs) THEN acc
    ELSE FlattenAcc(attrs, i + 1, PairsRaw(attrs[i][1], attrs[i][2], 1, acc))
Flatten(attrs) == FlattenAcc(attrs, 1, << >>)
DistinctKeys(attrs) == \A i, j \in 1..Len(attrs) : i # j => attrs[i][1] # attrs[j][1]
NoEmptyKey(attrs)   == \A i \in 1..Len(attrs) : Len(attrs[i][2]) >= 1
SameMultimap(attrs, pairs) == DistinctKeys(attrs) /\ NoEmptyKey(attrs) /\ MM(Flatten(attrs)) = MM(pairs)

\* validity of generated keys / values (the precondition of the round trip)
ValidAtom(dl, a) ==
    /\ a # << >>
    /\ \A i \in 1..Len(a) : InC(dl, a[i]) /\ a[i] # dl.v /\ a[i] # LF /\ a[i] # CR /\ a[i] # DQ
    /\ a[1] # SP /\ a[1] # SQ /\ a[Len(a)] # SQ
ValidAttrs(dl, attrs) ==
    /\ DistinctKeys(attrs) /\ NoEmptyKey(attrs)
    /\ \A i \in 1..Len(attrs) : ValidAtom(dl, attrs[i][1]) /\ \A j \in 1..Len(attrs[i][2]) : ValidAtom(dl, attrs[i][2][j])

\* wire form: entries `key d value` joined by t (one optional space after t, optional
\* trailing t); with a value delimiter an entry may carry several values
EntryOK(dl, e) ==
    LET b == StripLeft(e, SP)
        j == RunEnd(dl, b, 1)
    IN  /\ j >= 1 /\ j + 2 <= Len(b) /\ b[j + 1] = dl.d
        /\ RunEnd(dl, b, j + 2) = Len(b)
        /\ Len(e) - Len(b) <= 1
WellFormedAttrs(dl, col) ==
    \/ col = << >>
    \/ LET es  == Split(col, dl.t)
           es2 == IF es[Len(es)] = << >> THEN SubSeq(es, 1, Len(es) - 1) ELSE es
       IN  es2 # << >> /\ \A i \in 1..Len(es2) : EntryOK(dl, es2[i])
\* col serializes the multimap `attrs`
SerializesAttrs(dl, col, attrs) == WellFormedAttrs(dl, col) /\ SameMultimap(attrs, ParseAttrs(dl, col))

\* the canonical serializations (used by the writer machine and the lemma)
RECURSIVE Join(_, _, _, _)
Join(parts, sep, i, acc) ==
    IF i > Len(parts) THEN acc
    ELSE Join(parts, sep, i + 1, IF i = 1 THEN parts[1] ELSE acc \o <<sep>> \o parts[i])
\* one key: "k=v1,v2" with a value delimiter, "k v1;k v2" without
EntryText(dl, key, vals) ==
    IF dl.v # 0 THEN key \o <<dl.d>> \o Join(vals, dl.v, 1, << >>)
    ELSE Join([i \in 1..Len(vals) |-> key \o <<dl.d>> \o vals[i]], dl.t, 1, << >>)
\* the writer before the repair of D6: MultiMap::iter() yields the first value only
EntryTextFirstOnly(dl, key, vals) == key \o <<dl.d>> \o vals[1]

\* ---------------------------------------------------------- line parsers
\* "." or a number 0..2 (parsed with u8::from_str: "+1", "01" are the number 1);
\* -1 = ".", -2 = invalid (anything else, in particular 3, 10, x, the empty token)
PhaseNum(tok) ==
    IF tok = <<DOT>> THEN -1
    ELSE IF IsU64(tok) /\ Canon(tok) \in {<<48>>, <<49>>, <<50>>} THEN Canon(tok)[1] - 48
    ELSE -2

Err == [ok |-> 0]
GffLine(dl, f) ==
    IF Len(f) # 9 THEN Err
    ELSE IF ~IsU64(f[4]) \/ ~IsU64(f[5]) \/ PhaseNum(f[8]) = -2 THEN Err
    ELSE [ok |-> 1, seqname |-> f[1], source |-> f[2], ftype |-> f[3], start |-> Canon(f[4]),
          end |-> Canon(f[5]), score |-> f[6], strand |-> f[7], phase |-> PhaseNum(f[8]),
          pairs |-> ParseAttrs(dl, f[9])]
BedLine(f) ==
    IF Len(f) < 3 THEN Err
    ELSE IF ~IsU64(f[2]) \/ ~IsU64(f[3]) THEN Err
    ELSE [ok |-> 1, chrom |-> f[1], start |-> Canon(f[2]), end |-> Canon(f[3]), aux |-> SubSeq(f, 4, Len(f))]

\* records of a file.  BED: the number of columns is a property of the file ("uniform
\* column count"): the count of the first record is binding, every other count is an error.
\* GFF: a record has exactly 9 columns; a line with any other count is an error for that
\* record only (GffLine), whatever the other lines look like.
ExpectedCols(ls) == IF ls = << >> THEN 0 ELSE NumPieces(ls[1], TAB)
GffRecordOf(dl, line) == GffLine(dl, Split(line, TAB))
BedRecordOf(line, ncols) ==
    LET f == Split(line, TAB) IN IF Len(f) # ncols THEN Err ELSE BedLine(f)
ParseGff(dl, bytes) ==
    LET ls == RecordLines(bytes) IN [i \in 1..Len(ls) |-> GffRecordOf(dl, ls[i])]
ParseBed(bytes) ==
    LET ls == RecordLines(bytes) IN [i \in 1..Len(ls) |-> BedRecordOf(ls[i], ExpectedCols(ls))]
\* lines on which the model is deliberately silent (hexadecimal integers)
GffUnconstrained(f) == Len(f) >= 8 /\ (HexLike(f[4]) \/ HexLike(f[5]) \/ HexLike(f[8]))
BedUnconstrained(f) == Len(f) >= 3 /\ (HexLike(f[2]) \/ HexLike(f[3]))

\* ------------------------------------------------- what a writer must emit
PhaseTok(p) == IF p = -1 THEN <<DOT>> ELSE <<48 + p>>
\* tokens the round trip is claimed for: no TAB / LF / CR / double quote
ValidTok(t) == \A i \in 1..Len(t) : t[i] \notin {TAB, LF, CR, DQ}
\* tokens with double quotes: the csv layer quotes / unquotes them; their round trip is part of
\* the property, their byte-level wire form (csv quoting) is not modelled
ValidTokQ(t) == \A i \in 1..Len(t) : t[i] \notin {TAB, LF, CR}
ValidNum(t) == IsU64(t) /\ Canon(t) = t
GffLineOf(dl, line, r) ==
    LET f == Split(line, TAB) IN
    /\ Len(f) = 9
    /\ f[1] = r.seqname /\ f[2] = r.source /\ f[3] = r.ftype /\ f[4] = r.start /\ f[5] = r.end
    /\ f[6] = r.score /\ f[7] = r.strand /\ f[8] = PhaseTok(r.phase)
    /\ SerializesAttrs(dl, f[9], r.attrs)
BedLineOf(line, r) ==
    Split(line, TAB) = <<r.chrom, r.start, r.end>> \o r.aux
=============================================================================
