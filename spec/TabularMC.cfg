CONSTANTS
  Atoms <- AtomsABSp
  MaxKeys = 2
  MaxVals = 2
  Sigma = {97, 39, 61, 59, 44, 32, 9}
  MaxLen = 4
  DialectNames = {"gff3", "gff2", "gtf2"}
SPECIFICATION Spec
INVARIANTS TypeOK ScannerMeaning RoundTrip WriterMeaning NoStall
PROPERTY Progress
CHECK_DEADLOCK FALSE
