----------------------------- MODULE TabularMC -----------------------------
(***************************************************************************)
(* Machine layer of C13: the GFF attribute column, per dialect.             *)
(*                                                                         *)
(* Two kinds of behaviours:                                                 *)
(*  kind = "rt"   writer machine, then scanner machine, on a multimap:      *)
(*     WriteEntry(i)  append the text of one not-yet-written key (ANY key   *)
(*                    order -- hash-map iteration), entries joined by the   *)
(*                    terminator;  variant "all": all values of the key     *)
(*                    (`k=v1,v2` / repeated `k v`), variant "first": only   *)
(*                    the first value (the writer before the repair of D6)  *)
(*     WriteDone      hand the column to the scanner                        *)
(*     ScanByte       the reader's regular expression as a byte-by-byte     *)
(*                    automaton (modes skip / key / sep / val), inserting   *)
(*                    into the multimap when a value run ends               *)
(*     ScanEnd        end of input                                          *)
(*  kind = "junk" the scanner alone on EVERY string over Sigma up to MaxLen *)
(*                                                                         *)
(* Invariants: the scanner agrees with the definition ParseAttrs on every   *)
(* prefix it has decided and at the end (both kinds); for the writer "all"  *)
(* the column is a well-formed serialization and the scan returns exactly   *)
(* the multimap (round-trip lemma); for the writer "first" the round trip   *)
(* holds iff no key has more than one value -- the design-level statement   *)
(* of D6: multi-valued attributes need a value delimiter or repeated keys.  *)
(***************************************************************************)
EXTENDS Tabular, TLC
CONSTANTS Atoms,        \* byte sequences used as keys and values
          MaxKeys, MaxVals,
          Sigma, MaxLen, \* alphabet and length bound of the junk strings
          DialectNames

\* instantiation used by the .cfg files: "a", "b", "a b" (the last one is not a valid atom of GFF2/GTF2)
AtomsABSp == {<<97>>, <<98>>, <<97, 32, 98>>}

AtomsFor(dl) == {a \in Atoms : ValidAtom(dl, a)}
ValueLists(dl) == UNION {[1..n -> AtomsFor(dl)] : n \in 1..MaxVals}
\* multimaps in insertion order of the keys: sequences of <<key, values>> with distinct keys
RECURSIVE AttrLists(_, _)
AttrLists(dl, n) ==
    IF n = 0 THEN {<< >>}
    ELSE LET shorter == AttrLists(dl, n - 1) IN
         shorter \cup {Append(l, <<k, vs>>) : l \in {x \in shorter : Len(x) = n - 1},
                                             k \in AtomsFor(dl), vs \in ValueLists(dl)}
Multimaps(dl) == {l \in AttrLists(dl, MaxKeys) : DistinctKeys(l)}
JunkStrings == UNION {[1..n -> Sigma] : n \in 0..MaxLen}

VARIABLES kind, dn, variant, mm, todo, col, pc, pos, mode, mark, key, out
vars == <<kind, dn, variant, mm, todo, col, pc, pos, mode, mark, key, out>>
dl == Dialect(dn)

Init ==
    /\ dn \in DialectNames
    /\ \/ /\ kind = "rt" /\ variant \in {"all", "first"}
          /\ mm \in Multimaps(Dialect(dn)) /\ todo = 1..Len(mm) /\ col = << >> /\ pc = "write"
       \/ /\ kind = "junk" /\ variant = "none"
          /\ mm = << >> /\ todo = {} /\ col \in JunkStrings /\ pc = "scan"
    /\ pos = 1 /\ mode = "skip" /\ mark = 0 /\ key = << >> /\ out = << >>

\* ----------------------------------------------------------------- writer
WriteEntry(i) ==
    /\ pc = "write" /\ i \in todo
    /\ LET txt == IF variant = "all" THEN EntryText(dl, mm[i][1], mm[i][2])
                  ELSE EntryTextFirstOnly(dl, mm[i][1], mm[i][2])
       IN  col' = IF col = << >> THEN txt ELSE col \o <<dl.t>> \o txt
    /\ todo' = todo \ {i}
    /\ UNCHANGED <<kind, dn, variant, mm, pc, pos, mode, mark, key, out>>
WriteDone ==
    /\ pc = "write" /\ todo = {}
    /\ pc' = "scan"
    /\ UNCHANGED <<kind, dn, variant, mm, todo, col, pos, mode, mark, key, out>>

\* ---------------------------------------------------------------- scanner
\* a byte outside class C never starts anything, so one pass suffices
Emit(v) == PairsOf(TrimQuotes(KeyOf(key)), ValuesOf(dl, v), 1, out)
ScanByte ==
    /\ pc = "scan" /\ pos <= Len(col)
    /\ LET c == col[pos] IN
       CASE mode = "skip" ->
              IF InC(dl, c) THEN mode' = "key" /\ mark' = pos /\ UNCHANGED <<key, out>>
              ELSE UNCHANGED <<mode, mark, key, out>>
         [] mode = "key" ->
              IF InC(dl, c) THEN UNCHANGED <<mode, mark, key, out>>
              ELSE IF c = dl.d THEN mode' = "sep" /\ key' = SubSeq(col, mark, pos - 1) /\ UNCHANGED <<mark, out>>
              ELSE mode' = "skip" /\ UNCHANGED <<mark, key, out>>
         [] mode = "sep" ->
              IF InC(dl, c) THEN mode' = "val" /\ mark' = pos /\ UNCHANGED <<key, out>>
              ELSE mode' = "skip" /\ UNCHANGED <<mark, key, out>>
         [] mode = "val" ->
              IF InC(dl, c) THEN UNCHANGED <<mode, mark, key, out>>
              ELSE mode' = "skip" /\ out' = Emit(SubSeq(col, mark, pos - 1)) /\ UNCHANGED <<mark, key>>
    /\ pos' = pos + 1
    /\ UNCHANGED <<kind, dn, variant, mm, todo, col, pc>>
ScanEnd ==
    /\ pc = "scan" /\ pos > Len(col)
    /\ out' = IF mode = "val" THEN Emit(SubSeq(col, mark, Len(col))) ELSE out
    /\ pc' = "done"
    /\ UNCHANGED <<kind, dn, variant, mm, todo, col, pos, mode, mark, key>>

Next == (\E i \in 1..MaxKeys : WriteEntry(i)) \/ WriteDone \/ ScanByte \/ ScanEnd
Spec == Init /\ [][Next]_vars

\* ------------------------------------------------------------ invariants
TypeOK ==
    /\ pc \in {"write", "scan", "done"} /\ mode \in {"skip", "key", "sep", "val"}
    /\ pos \in 1..(Len(col) + 1)

\* scanner = definition, on the decided prefix and at the end
ScannerMeaning ==
    /\ (pc = "scan" /\ mode = "skip") => out = ParseAttrs(dl, SubSeq(col, 1, pos - 1))
    /\ pc = "done" => out = ParseAttrs(dl, col)

Single == \A i \in 1..Len(mm) : Len(mm[i][2]) = 1
FirstOnly == [i \in 1..Len(mm) |-> <<mm[i][1], <<mm[i][2][1]>> >>]

RoundTrip ==
    (kind = "rt" /\ pc = "done") =>
        /\ WellFormedAttrs(dl, col)
        /\ variant = "all"   => SameMultimap(mm, out) /\ SerializesAttrs(dl, col, mm)
        /\ variant = "first" => /\ SameMultimap(FirstOnly, out)
                                /\ SameMultimap(mm, out) <=> Single      \* D6 at the design level
\* what has been written so far is a serialization of the keys written so far
WriterMeaning ==
    (kind = "rt" /\ pc = "write" /\ variant = "all") =>
        SerializesAttrs(dl, col, SelectSeq([i \in 1..Len(mm) |-> IF i \in todo THEN << >> ELSE mm[i]],
                                           LAMBDA x : x # << >>))

\* progress: every step consumes a key or a byte; nothing stalls before "done"
Rank == (IF pc = "write" THEN 0 ELSE IF pc = "scan" THEN 1 ELSE 2) * (1000) + (MaxKeys - Cardinality(todo)) + pos
Progress == [][Rank' > Rank]_vars
NoStall  == pc # "done" => ENABLED Next
=============================================================================
