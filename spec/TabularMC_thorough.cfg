CONSTANTS
  Atoms <- AtomsABSp
  MaxKeys = 2
  MaxVals = 3
  Sigma = {97, 39, 61, 59, 44, 32, 9}
  MaxLen = 6
  DialectNames = {"gff3", "gff2", "gtf2"}
SPECIFICATION Spec
INVARIANTS TypeOK ScannerMeaning RoundTrip WriterMeaning NoStall
PROPERTY Progress
CHECK_DEADLOCK FALSE
