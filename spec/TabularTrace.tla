---------------------------- MODULE TabularTrace ----------------------------
(* Trace validation for the families "gff" and "bed" (C13).                  *)
(* gff: run.cfg = [dialect]; bed: run.cfg = [k].  Events:                    *)
(*   write(recs) -> bytes, errs     the real writer on a list of records     *)
(*   read(bytes, mode) -> recs      the real reader; every item Ok(fields) / *)
(*                                  Err                                      *)
(*   write_file(recs, pid) -> bytes, errs   Writer::to_file on path pid; bytes = *)
(*                                  content of the file afterwards             *)
(*   read_file(pid) -> recs         Reader::from_file on path pid              *)
(* The abstract state of a path is the list of records last written to it:    *)
(* read_file must return exactly the records of the latest write_file to the  *)
(* same path (nothing of an earlier, longer file may survive).                *)
(* mode "exact": bytes are those of an earlier write of this run: the parsed *)
(*               records must equal the written ones field for field (all    *)
(*               attribute values, value order per key), and the reference   *)
(*               parser of Tabular.tla;                                      *)
(* mode "rt"   : like "exact" but for records whose tokens contain double      *)
(*               quotes (csv quoting is not part of the wire model): only     *)
(*               parsed = written is demanded;                                *)
(* mode "rtc"  : a.base are the bytes of an earlier write, a.bytes the same    *)
(*               with COMMENT LINES inserted (first byte '#', arbitrary       *)
(*               content incl. TAB and unbalanced double quotes): the spec    *)
(*               checks that the two differ by comment lines only and demands *)
(*               parsed = written ("comment lines are skipped");              *)
(* mode "safe" : bytes were corrupted / hand-made inside the modelled        *)
(*               alphabet (no double quote, no CR): the result must equal    *)
(*               the reference parser line by line (Ok with these fields /   *)
(*               Err), so malformed lines are errors for that record only;   *)
(* mode "wild" : arbitrary bytes: totality only (the call returns, every     *)
(*               item is Ok or Err).                                          *)
(* A panic or a dangling call is never explained.                            *)
(*                                                                           *)
(* REJECT vs DRIFT.  The property promises the round trip and the treatment  *)
(* of malformed lines, not a wire format: that the written bytes follow the  *)
(* token-level wire model (GffLineOf / BedLineOf), and what the attribute    *)
(* regular expression makes of a column that is NOT a well-formed entry list *)
(* (ParseAttrs on junk), are machine-layer facts: a deviation there is       *)
(* printed as DRIFT (exit 0), everything else as REJECT.                     *)
EXTENDS Tabular, TLC, Json, IOUtils

Rec == ndJsonDeserialize(IOEnv.TRACE)

VARIABLES run, idx, ok
vars == <<run, idx, ok>>

\* ----------------------------------------------------------------- gff
Tok(t, q) == IF q = 1 THEN ValidTokQ(t) ELSE ValidTok(t)
ValidGffRec(dl, r, q) ==
    /\ Tok(r.seqname, q) /\ Tok(r.source, q) /\ Tok(r.ftype, q) /\ Tok(r.score, q) /\ Tok(r.strand, q)
    /\ (r.seqname = << >> \/ r.seqname[1] # HASH)
    /\ ValidNum(r.start) /\ ValidNum(r.end)
    /\ r.phase \in -1..2
    /\ ValidAttrs(dl, r.attrs)

GffWritten(dl, recs, bytes) ==
    LET ls == Split(bytes, LF) IN
    /\ Len(ls) = Len(recs) + 1 /\ ls[Len(ls)] = << >>
    /\ \A i \in 1..Len(recs) : GffLineOf(dl, ls[i], recs[i])

\* parsed item p (from the code) against reference item q; the attribute multimap is
\* compared only when `attrs` is set
GffSame(p, q, attrs) ==
    /\ p.ok = q.ok
    /\ q.ok = 1 => /\ p.seqname = q.seqname /\ p.source = q.source /\ p.ftype = q.ftype
                   /\ p.start = q.start /\ p.end = q.end /\ p.score = q.score /\ p.strand = q.strand
                   /\ p.phase = q.phase
                   /\ attrs => SameMultimap(p.attrs, q.pairs)
\* parsed item p against the record w that was written
GffRoundTrip(p, w) ==
    /\ p.ok = 1
    /\ p.seqname = w.seqname /\ p.source = w.source /\ p.ftype = w.ftype
    /\ p.start = w.start /\ p.end = w.end /\ p.score = w.score /\ p.strand = w.strand
    /\ p.phase = w.phase
    /\ SameMultimap(p.attrs, Flatten(w.attrs))

\* ----------------------------------------------------------------- bed
ValidBedRec(r, q) ==
    /\ Tok(r.chrom, q) /\ (r.chrom = << >> \/ r.chrom[1] # HASH)
    /\ ValidNum(r.start) /\ ValidNum(r.end)
    /\ \A i \in 1..Len(r.aux) : Tok(r.aux[i], q)
BedWritten(recs, bytes) ==
    LET ls == Split(bytes, LF) IN
    /\ Len(ls) = Len(recs) + 1 /\ ls[Len(ls)] = << >>
    /\ \A i \in 1..Len(recs) : BedLineOf(ls[i], recs[i])
BedSame(p, q) ==
    /\ p.ok = q.ok
    /\ q.ok = 1 => p.chrom = q.chrom /\ p.start = q.start /\ p.end = q.end /\ p.aux = q.aux
BedRoundTrip(p, w) ==
    p.ok = 1 /\ p.chrom = w.chrom /\ p.start = w.start /\ p.end = w.end /\ p.aux = w.aux

\* ---- the Record API (values, not files): every accessor of a record that was built through
\* setters (called twice: last wins), push_aux (order), clone / clone_from / serde round trip /
\* Default must show the intended record w
OptIs(o, present, v) == IF present THEN o.some = 1 /\ o.v = v ELSE o.some = 0
BedAccessors(r, w) ==
    /\ r.chrom = w.chrom /\ r.start = w.start /\ r.end = w.end /\ r.aux = w.aux
    /\ OptIs(r.name, Len(w.aux) >= 1, IF Len(w.aux) >= 1 THEN w.aux[1] ELSE << >>)
    /\ OptIs(r.score, Len(w.aux) >= 2, IF Len(w.aux) >= 2 THEN w.aux[2] ELSE << >>)
    /\ r.strand = (IF Len(w.aux) >= 3 /\ w.aux[3] = <<43>> THEN 1 ELSE IF Len(w.aux) >= 3 /\ w.aux[3] = <<45>> THEN -1 ELSE 0)
    /\ r.eq_rebuilt = 1
\* gff: score() is the number if the score token is one, strand() only knows + and -
GffAccessors(r, w) ==
    /\ r.seqname = w.seqname /\ r.source = w.source /\ r.ftype = w.ftype /\ r.start = w.start /\ r.end = w.end
    /\ r.rawscore = w.score /\ r.rawstrand = w.strand /\ r.phase = w.phase
    /\ OptIs(r.score, w.score # <<DOT>> /\ IsU64(w.score), IF IsU64(w.score) THEN Canon(w.score) ELSE << >>)
    /\ r.strand = (IF w.strand = <<43>> THEN 1 ELSE IF w.strand = <<45>> THEN -1 ELSE 0)
    /\ SameMultimap(r.attrs, Flatten(w.attrs))
    /\ \A i \in 1..Len(w.attrs) :            \* get(key) is the FIRST value of the key
          \E j \in 1..Len(r.first) : r.first[j][1] = w.attrs[i][1] /\ r.first[j][2] = w.attrs[i][2][1]
    /\ r.eq_rebuilt = 1

\* latest earlier write_file to this path (0 = none)
PrevWriteFile(evs, k, pid) ==
    LET c == {j \in 1..(k - 1) : evs[j].c.op = "write_file" /\ evs[j].c.a.pid = pid}
    IN  IF c = {} THEN 0 ELSE CHOOSE j \in c : \A j2 \in c : j2 <= j

\* latest earlier successful write of exactly these bytes (0 = none)
PrevWrite(evs, k, bytes) ==
    LET c == {j \in 1..(k - 1) : evs[j].c.op = "write" /\ evs[j].r.st = "ok" /\ evs[j].r.bytes = bytes}
    IN  IF c = {} THEN 0 ELSE CHOOSE j \in c : \A j2 \in c : j2 <= j

\* reference item of one record line (f = its fields, nc = column count of the file)
RefGff(dl, f, nc) == GffLine(dl, f)          \* nc is irrelevant: exactly 9 columns, line by line
RefBed(f, nc)     == IF Len(f) # nc THEN Err ELSE BedLine(f)
\* the attribute column of this line is a well-formed entry list (then its meaning is promised)
StrictAttrs(dl, f) == Len(f) # 9 \/ WellFormedAttrs(dl, f[9])

Explains(fam, cfg, evs, k) ==
    LET e == evs[k]  c == e.c  r == e.r
        dl == IF fam = "gff" THEN Dialect(cfg.dialect) ELSE Dialect("gff3")
    IN
    CASE c.op \in {"write", "write_file"} ->
           /\ r.st = "ok" /\ r.errs = 0
           /\ c.a.q \in {0, 1}
           /\ IF fam = "gff" THEN \A i \in 1..Len(c.a.recs) : ValidGffRec(dl, c.a.recs[i], c.a.q)
                              ELSE \A i \in 1..Len(c.a.recs) : ValidBedRec(c.a.recs[i], c.a.q)
      [] c.op = "accessors" ->
           /\ r.st = "ok"
           /\ IF fam = "gff" THEN GffAccessors(r, c.a.rec) ELSE BedAccessors(r, c.a.rec)
      [] c.op = "read_via" ->          \* records() consumed through count / last / nth(j) / skip(j)
           LET w == PrevWrite(evs, k, c.a.bytes)
               recs == evs[w].c.a.recs
               n == Len(recs)
               Same(p, x) == IF fam = "gff" THEN GffRoundTrip(p, x) ELSE BedRoundTrip(p, x)
           IN  /\ r.st = "ok" /\ w # 0 /\ c.a.j >= 0
               /\ CASE c.a.via = "count" -> r.n = n
                    [] c.a.via = "last"  -> IF n = 0 THEN r.n = 0 ELSE r.n = 1 /\ Len(r.recs) = 1 /\ Same(r.recs[1], recs[n])
                    [] c.a.via = "nth"   -> IF c.a.j >= n THEN r.n = 0
                                            ELSE r.n = 1 /\ Len(r.recs) = 1 /\ Same(r.recs[1], recs[c.a.j + 1])
                    [] c.a.via = "skip"  -> /\ r.n = (IF c.a.j >= n THEN 0 ELSE n - c.a.j) /\ Len(r.recs) = r.n
                                            /\ \A i \in 1..Len(r.recs) : Same(r.recs[i], recs[c.a.j + i])
                    [] OTHER -> FALSE
      [] c.op = "read_file" ->
           LET w == PrevWriteFile(evs, k, c.a.pid) IN
           /\ r.st = "ok" /\ r.open = 1
           /\ w # 0 /\ evs[w].r.st = "ok"
           /\ Len(r.recs) = Len(evs[w].c.a.recs)
           /\ \A i \in 1..Len(r.recs) :
                /\ r.recs[i].ok \in {0, 1}
                /\ IF fam = "gff" THEN GffRoundTrip(r.recs[i], evs[w].c.a.recs[i])
                                  ELSE BedRoundTrip(r.recs[i], evs[w].c.a.recs[i])
      [] c.op = "read" ->
           /\ r.st = "ok"
           /\ \A i \in 1..Len(r.recs) : r.recs[i].ok \in {0, 1}
           /\ CASE c.a.mode = "wild" -> TRUE
                [] c.a.mode = "rt" ->
                     LET w == PrevWrite(evs, k, c.a.bytes) IN
                     /\ w # 0
                     /\ Len(r.recs) = Len(evs[w].c.a.recs)
                     /\ \A i \in 1..Len(r.recs) :
                          IF fam = "gff" THEN GffRoundTrip(r.recs[i], evs[w].c.a.recs[i])
                                         ELSE BedRoundTrip(r.recs[i], evs[w].c.a.recs[i])
                [] c.a.mode = "rtc" ->
                     LET w == PrevWrite(evs, k, c.a.base) IN
                     /\ w # 0
                     /\ RecordLines(c.a.bytes) = RecordLines(c.a.base)        \* only comment lines were added
                     /\ Len(r.recs) = Len(evs[w].c.a.recs)
                     /\ \A i \in 1..Len(r.recs) :
                          IF fam = "gff" THEN GffRoundTrip(r.recs[i], evs[w].c.a.recs[i])
                                         ELSE BedRoundTrip(r.recs[i], evs[w].c.a.recs[i])
                [] c.a.mode \in {"exact", "safe"} ->
                     LET ls == RecordLines(c.a.bytes)
                         nc == ExpectedCols(ls)
                         w  == IF c.a.mode = "exact" THEN PrevWrite(evs, k, c.a.bytes) ELSE 0
                     IN  /\ Len(r.recs) = Len(ls)
                         /\ \A i \in 1..Len(ls) :
                              LET f == Split(ls[i], TAB) IN
                              IF fam = "gff"
                              THEN GffUnconstrained(f) \/ GffSame(r.recs[i], RefGff(dl, f, nc), StrictAttrs(dl, f))
                              ELSE BedUnconstrained(f) \/ BedSame(r.recs[i], RefBed(f, nc))
                         /\ c.a.mode = "exact" =>
                              /\ w # 0
                              /\ Len(r.recs) = Len(evs[w].c.a.recs)
                              /\ \A i \in 1..Len(r.recs) :
                                   IF fam = "gff" THEN GffRoundTrip(r.recs[i], evs[w].c.a.recs[i])
                                                  ELSE BedRoundTrip(r.recs[i], evs[w].c.a.recs[i])
                [] OTHER -> FALSE
      [] OTHER -> FALSE

\* machine-layer conformance of an event that the property accepts
Exact(fam, cfg, evs, k) ==
    LET e == evs[k]  c == e.c  r == e.r
        dl == IF fam = "gff" THEN Dialect(cfg.dialect) ELSE Dialect("gff3")
    IN
    CASE c.op \in {"write", "write_file"} ->
           IF c.a.q = 1 THEN TRUE                      \* csv-quoted fields: no wire model
           ELSE IF fam = "gff" THEN GffWritten(dl, c.a.recs, r.bytes) ELSE BedWritten(c.a.recs, r.bytes)
      [] c.op = "read" /\ fam = "gff" /\ c.a.mode \in {"exact", "safe"} ->
           LET ls == RecordLines(c.a.bytes)
               nc == ExpectedCols(ls)
           IN  \A i \in 1..Len(ls) :
                  LET f == Split(ls[i], TAB) IN       \* (lines with a well-formed column were compared by Explains)
                  StrictAttrs(dl, f) \/ GffUnconstrained(f) \/ GffSame(r.recs[i], RefGff(dl, f, nc), TRUE)
      [] OTHER -> TRUE

Init == run \in 1..Len(Rec) /\ idx = 0 /\ ok = TRUE
Next ==
    /\ ok /\ idx < Len(Rec[run].ev)
    /\ LET good == Explains(Rec[run].fam, Rec[run].cfg, Rec[run].ev, idx + 1)
       IN  /\ ok' = good
           /\ IF good
              THEN IF Exact(Rec[run].fam, Rec[run].cfg, Rec[run].ev, idx + 1) THEN TRUE
                   ELSE PrintT(<<"DRIFT", run, idx + 1>>)
              ELSE PrintT(<<"REJECT", run, idx + 1>>)
    /\ idx' = idx + 1
    /\ UNCHANGED run
Spec == Init /\ [][Next]_vars
=============================================================================
