-------------------------------- MODULE Utils --------------------------------
(***************************************************************************)
(* X03 -- small utilities of rust-bio                                      *)
(*   utils::scan / utils::prescan            (src/utils/mod.rs)            *)
(*   stats::combinatorics::{combinations, scaled_combinations,             *)
(*                          combinations_with_repl}                        *)
(*   data_structures::interpolation_table::InterpolationTable              *)
(*   utils::trim_newline, utils::Interval                                  *)
(*                                                                         *)
(* Definition layer: running folds over every prefix; Pascal's triangle    *)
(* (exact, as decimal big numbers: little-endian limbs base 10^4, since    *)
(* TLC's integers are 32 bit); the tabulated function itself and the       *)
(* documented error of linear interpolation; the textual definitions.      *)
(* Machine layer: the in-place loops with their accumulator register; the  *)
(* multiplicative loop comb_{j+1} = comb_j / (j+1) * (n-j); the table      *)
(* (offset, sample loop, index, fraction, interpolate) on an integer grid. *)
(***************************************************************************)
EXTENDS Integers, Sequences, FiniteSets, FiniteSetsExt, TLC

Min2(x, y) == IF x <= y THEN x ELSE y
Max2(x, y) == IF x >= y THEN x ELSE y
Abs(x) == IF x < 0 THEN -x ELSE x

\* =========================================================== scan / prescan
\* the binary operators the drivers pass (by name)
Apply(op, a, b) ==
    CASE op = "add"    -> a + b
      [] op = "max"    -> Max2(a, b)
      [] op = "min"    -> Min2(a, b)
      [] op = "sub"    -> a - b                      \* not associative, not commutative: fixes the fold order
      [] op = "left"   -> a
      [] op = "right"  -> b
      [] op = "affine" -> (3 * a + b) % 11
      [] OTHER -> 0
Ops == {"add", "max", "min", "sub", "left", "right", "affine"}

\* left fold of a[lo..hi] starting from acc
RECURSIVE FoldL(_, _, _, _, _)
FoldL(op, a, lo, hi, acc) == IF lo > hi THEN acc ELSE FoldL(op, a, lo + 1, hi, Apply(op, acc, a[lo]))

\* scan: element i becomes the fold of a[1..i] (no neutral element: starts from a[1])
ScanDef(op, a)       == [i \in 1..Len(a) |-> FoldL(op, a, 2, i, a[1])]
\* prescan: element i becomes the fold of a[1..i-1] starting from the neutral element
PrescanDef(op, a, z) == [i \in 1..Len(a) |-> FoldL(op, a, 1, i - 1, z)]

\* machine: one step of the in-place loop; st = [a, s, i] (i = next index to visit)
ScanInit(a)         == [a |-> a, s |-> IF Len(a) = 0 THEN 0 ELSE a[1], i |-> 2]
ScanStep(op, st)    == LET s2 == Apply(op, st.s, st.a[st.i])
                       IN  [a |-> [st.a EXCEPT ![st.i] = s2], s |-> s2, i |-> st.i + 1]
PrescanInit(a, z)   == [a |-> a, s |-> z, i |-> 1]
PrescanStep(op, st) == [a |-> [st.a EXCEPT ![st.i] = st.s], s |-> Apply(op, st.s, st.a[st.i]), i |-> st.i + 1]

\* ============================================================ combinatorics
\* ---- decimal big numbers: little-endian limbs, base 10^4, no leading zero limbs (zero = << >>)
B == 10000
RECURSIVE BigNorm(_)
BigNorm(x) == IF Len(x) > 0 /\ x[Len(x)] = 0 THEN BigNorm(SubSeq(x, 1, Len(x) - 1)) ELSE x
BigOfInt(n) == IF n = 0 THEN << >> ELSE IF n < B THEN <<n>> ELSE IF n < B * B THEN <<n % B, n \div B>>
               ELSE <<n % B, (n \div B) % B, n \div (B * B)>>
Limb(x, i) == IF i <= Len(x) THEN x[i] ELSE 0
RECURSIVE BigAddFrom(_, _, _, _, _)
BigAddFrom(x, y, i, carry, acc) ==
    IF i > Max2(Len(x), Len(y)) THEN (IF carry = 0 THEN acc ELSE Append(acc, carry))
    ELSE LET t == Limb(x, i) + Limb(y, i) + carry
         IN  BigAddFrom(x, y, i + 1, t \div B, Append(acc, t % B))
BigAdd(x, y) == BigAddFrom(x, y, 1, 0, << >>)
RECURSIVE BigMulSmallFrom(_, _, _, _, _)
BigMulSmallFrom(x, f, i, carry, acc) ==            \* f < 10^4
    IF i > Len(x) THEN (IF carry = 0 THEN acc ELSE Append(acc, carry))
    ELSE LET t == x[i] * f + carry IN BigMulSmallFrom(x, f, i + 1, t \div B, Append(acc, t % B))
BigMulSmall(x, f) == IF f = 0 THEN << >> ELSE BigMulSmallFrom(x, f, 1, 0, << >>)
\* exact division by a small number (used by the machine, where the division is exact); most significant first
RECURSIVE BigDivSmallFrom(_, _, _, _, _)
BigDivSmallFrom(x, d, i, rem, acc) ==              \* acc = quotient limbs, big-endian
    IF i = 0 THEN [q |-> acc, r |-> rem]
    ELSE LET t == rem * B + x[i] IN BigDivSmallFrom(x, d, i - 1, t % d, Append(acc, t \div d))
Reverse(s) == [i \in 1..Len(s) |-> s[Len(s) + 1 - i]]
BigDivSmall(x, d) == LET r == BigDivSmallFrom(x, d, Len(x), 0, << >>)
                     IN  [q |-> BigNorm(Reverse(r.q)), r |-> r.r]
\* decimal digits
DigitsOfLimb(v) == IF v >= 1000 THEN 4 ELSE IF v >= 100 THEN 3 ELSE IF v >= 10 THEN 2 ELSE 1
BigDigits(x) == IF Len(x) = 0 THEN 1 ELSE 4 * (Len(x) - 1) + DigitsOfLimb(x[Len(x)])
Pow10(e) == CASE e <= 0 -> 1 [] e = 1 -> 10 [] e = 2 -> 100 [] e = 3 -> 1000 [] OTHER -> 10000
\* the value as an integer if it has at most 9 digits, else its leading 9 digits (truncated)
BigTop9(x) ==
    LET n == Len(x) IN
    IF n = 0 THEN 0
    ELSE IF n = 1 THEN x[1]
    ELSE IF n = 2 THEN x[2] * B + x[1]
    ELSE LET d == DigitsOfLimb(x[n])       \* the two top limbs give d+4 digits, the third one 5-d more
         IN  (x[n] * B + x[n - 1]) * Pow10(5 - d) + (x[n - 2] \div Pow10(d - 1))

\* ---- Pascal's triangle: row n restricted to entries 0..w (w <= n)
RECURSIVE PascalRowFrom(_, _, _, _)
PascalRowFrom(n, w, r, row) ==                         \* row = entries 0..min(w, r) of row r
    IF r = n THEN row
    ELSE LET m == Min2(w, r + 1)
             \* (TLCEval: a lazily evaluated row would be recomputed at every access: 2^n)
             nxt == TLCEval([k \in 1..(m + 1) |->
                        IF k = 1 THEN <<1>>
                        ELSE BigAdd(row[k - 1], IF k <= Len(row) THEN row[k] ELSE << >>)])
         IN  PascalRowFrom(n, w, r + 1, nxt)
\* C(n, k) as a big number (0 for k > n)
Binom(n, k) == IF k > n THEN << >> ELSE PascalRowFrom(n, k, 0, <<<<1>>>>)[k + 1]
\* combinations with replacement: C(n + k - 1, k); the empty multiset from nothing counts once
BinomRepl(n, k) == IF k = 0 THEN <<1>> ELSE Binom(n + k - 1, k)

\* a reported value [digits, top] (the harness: number of decimal digits of round(v) and the integer
\* itself if it has <= 9 digits, else its leading 9 digits) against an exact big number
BigNear(r, x) ==
    IF BigDigits(x) <= 9 THEN r.digits = BigDigits(x) /\ r.top = BigTop9(x)
    ELSE r.digits = BigDigits(x) /\ Abs(r.top - BigTop9(x)) <= 2

\* machine: comb_0 = scale numerator m; comb_{j+1} = comb_j / (j+1) * (n-j), j < min(k, n-k).
\* On exact numbers the division leaves no remainder when the multiplication is done first; the code
\* divides first (in floating point).  The machine keeps the pair (value, j).
CombSteps(n, k) == Min2(k, n - k)
CombInit(mult)  == [v |-> BigOfInt(mult), j |-> 0]
CombStep(n, st) == [v |-> BigDivSmall(BigMulSmall(st.v, n - st.j), st.j + 1).q, j |-> st.j + 1]
CombStepExact(n, st) == BigDivSmall(BigMulSmall(st.v, n - st.j), st.j + 1).r = 0

\* ======================================================= interpolation table
\* Grid arithmetic.  sh = 10^frac_digits grid cells per unit, D sub-cells per grid cell, q = sh * D.
\* An argument is x = pos / q (pos an integer number of sub-cells); the table covers
\* [mnp / q, mxp / q).  The tabulated functions are polynomials, exact on these rationals:
\*   "lin": 3x + 1     "sq": x^2     "cube": x^3
\* f(p / u) = FNum(f, p, u) / u^deg.
Deg(f) == CASE f = "lin" -> 1 [] f = "sq" -> 2 [] OTHER -> 3
RECURSIVE IPow(_, _)
IPow(x, e) == IF e = 0 THEN 1 ELSE x * IPow(x, e - 1)
FNum(f, p, u) == CASE f = "lin" -> 3 * p + u [] f = "sq" -> p * p [] OTHER -> p * p * p
\* the function itself at pos, over q^deg
FAt(f, q, pos) == FNum(f, pos, q)
\* the chord between the samples at the two grid points around pos, over q^deg
ChordAt(f, q, D, pos) ==
    LET g == pos \div D  r == pos % D  sh == q \div D
    IN  (FNum(f, g, sh) * (D - r) + FNum(f, g + 1, sh) * r) * IPow(D, Deg(f) - 1)
\* the documented error of linear interpolation, |f''| h^2 / 8 with h = 1/sh, in units of 1/q^deg
\* (f'' = 0, 2, 6x)
InterpBound(f, D, pos) ==
    CASE f = "lin" -> 0
      [] f = "sq"  -> (2 * D * D) \div 8 + 1
      [] OTHER     -> (6 * (pos + D) * D * D) \div 8 + 1
\* what get(pos / q) must return, over q^deg
GetDef(f, q, D, mnp, mxp, pos) ==
    IF pos < mnp \/ pos >= mxp THEN FAt(f, q, pos) ELSE ChordAt(f, q, D, pos)

\* machine: the table object [offset, inner] built by `new` (one sample per grid point from the one at or
\* below the lower bound to the one at or above the upper bound), and the lookup `get`
CeilDiv(a, b) == (a + b - 1) \div b
TableOffset(D, mnp) == mnp \div D
TableLast(D, mnp, mxp) == CeilDiv(mxp, D) - TableOffset(D, mnp)          \* last relative index sampled
TableSample(f, sh, off, i) == FNum(f, i + off, sh)                     \* sample with relative index i
TableGet(f, q, D, tb, mnp, mxp, pos) ==                                \* over q^deg
    IF pos < mnp \/ pos >= mxp THEN FAt(f, q, pos)
    ELSE LET i == (pos \div D) - tb.offset              \* index()
             r == pos - (i + tb.offset) * D             \* fraction, in sub-cells
         IN  (tb.inner[i + 1] * (D - r) + tb.inner[i + 2] * r) * IPow(D, Deg(f) - 1)

\* ===================================================== trim_newline, Interval
TrimDef(s) == IF Len(s) > 0 /\ s[Len(s)] = 10 THEN SubSeq(s, 1, Len(s) - 1) ELSE s
IntervalOK(lo, hi) == hi >= lo
=============================================================================
