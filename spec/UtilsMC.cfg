CONSTANTS
  MaxLen = 4
  MaxVal = 2
  MaxN = 14
  Mults = {1, 3}
  Sh = 3
  D = 4
  MaxCells = 4
  Funcs = {"lin", "sq", "cube"}
SPECIFICATION Spec
INVARIANTS TypeOK FoldMeaning PreFoldMeaning FoldResult PreFoldResult CombMeaning CombResult TableMeaning TableResult NoStall
PROPERTY Progress
CHECK_DEADLOCK FALSE
