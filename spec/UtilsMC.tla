------------------------------- MODULE UtilsMC -------------------------------
(***************************************************************************)
(* Exhaustive check of the three little machines of Utils.tla against      *)
(* their definitions.  A behaviour picks one task and runs it:             *)
(*   scan / prescan : every sequence of length 0..MaxLen over 0..MaxVal,   *)
(*                    every operator (and neutral element 0..MaxVal):      *)
(*                    the in-place loop, one element per step;             *)
(*   comb           : every n <= MaxN, k <= n + 1, scale numerator in      *)
(*                    Mults: comb /= (j+1); comb *= (n-j), min(k, n-k)     *)
(*                    steps, against Pascal's triangle;                    *)
(*   table          : every function, every range [mnp, mxp) in sub-cells  *)
(*                    up to MaxCells grid cells: the sample loop of `new`, *)
(*                    then `get` for every argument inside and outside.    *)
(***************************************************************************)
EXTENDS Utils
CONSTANTS MaxLen, MaxVal, MaxN, Mults, Sh, D, MaxCells, Funcs

Seqs == UNION {[1..n -> 0..MaxVal] : n \in 0..MaxLen}
Q == Sh * D

Tasks ==
    {[t |-> "scan", op |-> o, a |-> s, z |-> 0] : o \in Ops, s \in Seqs}
    \cup {[t |-> "prescan", op |-> o, a |-> s, z |-> zz] : o \in Ops, s \in Seqs, zz \in 0..MaxVal}
    \cup {[t |-> "comb", n |-> nn, k |-> kk, mult |-> mm] : nn \in 0..MaxN, kk \in 0..(MaxN + 1), mm \in Mults}
    \cup {[t |-> "table", f |-> ff, mnp |-> lo, mxp |-> hi] :
            ff \in Funcs, lo \in 0..(MaxCells * D), hi \in 0..(MaxCells * D)}

VARIABLES task, pc, st, out
vars == <<task, pc, st, out>>
\* st : machine registers of the running task;  out : results (table: pos |-> get(pos))

Init ==
    /\ task \in Tasks
    /\ (task.t = "comb" => task.k <= task.n + 1)
    /\ (task.t = "table" => task.mnp < task.mxp)
    /\ pc = "start" /\ st = [x |-> 0] /\ out = << >>

\* -------------------------------------------------------------- scan
ScanStart ==
    /\ pc = "start" /\ task.t = "scan"
    /\ IF Len(task.a) = 0 THEN pc' = "done" /\ out' = task.a /\ UNCHANGED st
       ELSE st' = ScanInit(task.a) /\ pc' = "loop" /\ UNCHANGED out
    /\ UNCHANGED task
ScanLoop ==
    /\ pc = "loop" /\ task.t = "scan" /\ st.i <= Len(st.a)
    /\ st' = ScanStep(task.op, st)
    /\ UNCHANGED <<task, pc, out>>
PrescanStart ==
    /\ pc = "start" /\ task.t = "prescan"
    /\ st' = PrescanInit(task.a, task.z) /\ pc' = "loop"
    /\ UNCHANGED <<task, out>>
PrescanLoop ==
    /\ pc = "loop" /\ task.t = "prescan" /\ st.i <= Len(st.a)
    /\ st' = PrescanStep(task.op, st)
    /\ UNCHANGED <<task, pc, out>>
FoldEnd ==
    /\ pc = "loop" /\ task.t \in {"scan", "prescan"} /\ st.i > Len(st.a)
    /\ out' = st.a /\ pc' = "done"
    /\ UNCHANGED <<task, st>>

\* -------------------------------------------------------------- comb
CombStart ==
    /\ pc = "start" /\ task.t = "comb"
    /\ IF task.k > task.n THEN out' = << >> /\ pc' = "done" /\ UNCHANGED st      \* 0.0
       ELSE st' = CombInit(task.mult) /\ pc' = "loop" /\ UNCHANGED out
    /\ UNCHANGED task
CombLoop ==
    /\ pc = "loop" /\ task.t = "comb" /\ st.j < CombSteps(task.n, task.k)
    /\ st' = CombStep(task.n, st)
    /\ UNCHANGED <<task, pc, out>>
CombEnd ==
    /\ pc = "loop" /\ task.t = "comb" /\ st.j = CombSteps(task.n, task.k)
    /\ out' = st.v /\ pc' = "done"
    /\ UNCHANGED <<task, st>>

\* ------------------------------------------------------------- table
Off  == TableOffset(D, task.mnp)
Last == TableLast(D, task.mnp, task.mxp)
TableStart ==
    /\ pc = "start" /\ task.t = "table"
    /\ st' = [offset |-> Off, inner |-> << >>] /\ pc' = "loop"
    /\ UNCHANGED <<task, out>>
TableSampleStep ==                               \* one push per relative index 0..Last
    /\ pc = "loop" /\ task.t = "table" /\ Len(st.inner) <= Last
    /\ st' = [st EXCEPT !.inner = Append(@, TableSample(task.f, Sh, st.offset, Len(st.inner)))]
    /\ UNCHANGED <<task, pc, out>>
TableBuilt ==
    /\ pc = "loop" /\ task.t = "table" /\ Len(st.inner) = Last + 1
    /\ pc' = "get"
    /\ UNCHANGED <<task, st, out>>
Args == 0..((MaxCells + 1) * D)
TableGetStep ==                                  \* lookups in increasing argument order
    /\ pc = "get" /\ Len(out) <= (MaxCells + 1) * D
    /\ out' = Append(out, TableGet(task.f, Q, D, st, task.mnp, task.mxp, Len(out)))
    /\ UNCHANGED <<task, pc, st>>
TableEnd ==
    /\ pc = "get" /\ Len(out) = (MaxCells + 1) * D + 1
    /\ pc' = "done"
    /\ UNCHANGED <<task, st, out>>

Next == ScanStart \/ ScanLoop \/ PrescanStart \/ PrescanLoop \/ FoldEnd
        \/ CombStart \/ CombLoop \/ CombEnd
        \/ TableStart \/ TableSampleStep \/ TableBuilt \/ TableGetStep \/ TableEnd
Spec == Init /\ [][Next]_vars

\* ------------------------------------------------------------ invariants
TypeOK == pc \in {"start", "loop", "get", "done"}

\* the loops: everything before the cursor is final, everything from the cursor on is untouched, the
\* accumulator is the fold of what has been consumed
FoldMeaning ==
    (pc = "loop" /\ task.t = "scan") =>
        /\ \A x \in 1..(st.i - 1) : st.a[x] = ScanDef(task.op, task.a)[x]
        /\ \A x \in st.i..Len(task.a) : st.a[x] = task.a[x]
        /\ st.s = FoldL(task.op, task.a, 2, st.i - 1, task.a[1])
PreFoldMeaning ==
    (pc = "loop" /\ task.t = "prescan") =>
        /\ \A x \in 1..(st.i - 1) : st.a[x] = PrescanDef(task.op, task.a, task.z)[x]
        /\ \A x \in st.i..Len(task.a) : st.a[x] = task.a[x]
        /\ st.s = FoldL(task.op, task.a, 1, st.i - 1, task.z)
FoldResult ==
    (pc = "done" /\ task.t = "scan") => out = ScanDef(task.op, task.a)
PreFoldResult ==
    (pc = "done" /\ task.t = "prescan") =>
        /\ out = PrescanDef(task.op, task.a, task.z)
        \* scan and prescan are shifts of each other
        /\ Len(task.a) > 0 =>
              \A x \in 2..Len(task.a) :
                  Apply(task.op, out[x], task.a[x]) = FoldL(task.op, task.a, 1, x, task.z)

\* after j steps the register holds mult * C(n, j); every division is exact
CombMeaning ==
    (pc = "loop" /\ task.t = "comb") =>
        /\ st.v = BigMulSmall(Binom(task.n, st.j), task.mult)
        /\ st.j < CombSteps(task.n, task.k) => CombStepExact(task.n, st)
CombResult ==
    (pc = "done" /\ task.t = "comb") =>
        /\ out = BigMulSmall(Binom(task.n, task.k), task.mult)
        \* Pascal's triangle is symmetric and its rows sum to 2^n (checks the big-number arithmetic)
        /\ task.k <= task.n => Binom(task.n, task.k) = Binom(task.n, task.n - task.k)
        /\ (task.k <= task.n /\ task.k >= 1 /\ task.n >= 1) =>
              Binom(task.n, task.k) = BigAdd(Binom(task.n - 1, task.k - 1), Binom(task.n - 1, task.k))
        /\ BigDigits(out) >= 1 /\ BigNear([digits |-> BigDigits(out), top |-> BigTop9(out)], out)

\* the table holds the samples at the grid points around the range
TableMeaning ==
    (pc \in {"loop", "get"} /\ task.t = "table") =>
        \A x \in 1..Len(st.inner) : st.inner[x] = FNum(task.f, (x - 1) + Off, Sh)
TableResult ==
    (pc \in {"get", "done"} /\ task.t = "table") =>
        \A x \in 1..Len(out) :
            LET pos == x - 1 IN
            /\ out[x] = GetDef(task.f, Q, D, task.mnp, task.mxp, pos)
            \* the documented accuracy: within |f''| h^2 / 8 of the function
            /\ Abs(out[x] - FAt(task.f, Q, pos)) <= InterpBound(task.f, D, pos)
            \* exact at grid points
            /\ pos % D = 0 => out[x] = FAt(task.f, Q, pos)

Rank == (CASE pc = "start" -> 0 [] pc = "loop" -> 1 [] pc = "get" -> 2 [] OTHER -> 3) * 1000
        + (IF pc = "loop" /\ task.t \in {"scan", "prescan"} THEN st.i ELSE 0)
        + (IF pc = "loop" /\ task.t = "comb" THEN st.j ELSE 0)
        + (IF pc = "loop" /\ task.t = "table" THEN Len(st.inner) ELSE 0)
        + (IF pc \in {"get", "done"} THEN Len(out) ELSE 0)
Progress == [][Rank' > Rank]_vars
NoStall  == pc # "done" => ENABLED Next
=============================================================================
