CONSTANTS
  MaxLen = 5
  MaxVal = 2
  MaxN = 24
  Mults = {1, 3, 7}
  Sh = 3
  D = 4
  MaxCells = 6
  Funcs = {"lin", "sq", "cube"}
SPECIFICATION Spec
INVARIANTS TypeOK FoldMeaning PreFoldMeaning FoldResult PreFoldResult CombMeaning CombResult TableMeaning TableResult NoStall
PROPERTY Progress
CHECK_DEADLOCK FALSE
