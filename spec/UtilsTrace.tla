----------------------------- MODULE UtilsTrace -----------------------------
(* Trace validation for family "utils" (X03).  run.cfg.grp selects the group: *)
(*  fold : scan(op, a) -> out ; prescan(op, a, z) -> out                      *)
(*  comb : combinations / scaled_combinations / combinations_with_repl        *)
(*         (n, k, m, s) -> digits, top, bad   (value * 2^s for scale m/2^s)   *)
(*  table: cfg = [f, digits, sh, d, q, mnp, mxp]; new ; get(pos) -> v, bad    *)
(*         (v = round(result * q^deg))                                        *)
(*  misc : trim_newline(s) -> out ; interval_new(lo, hi) -> ok, lo, hi ;      *)
(*         interval_from(lo, hi) -> lo, hi  (panics exactly when hi < lo)     *)
EXTENDS Utils, Json, IOUtils

Rec == ndJsonDeserialize(IOEnv.TRACE)

VARIABLES run, idx, ok
vars == <<run, idx, ok>>

SeqEq(x, y) == Len(x) = Len(y) /\ \A i \in 1..Len(x) : x[i] = y[i]

CombOK(r, exact) == r.bad = 0 /\ BigNear(r, exact)

GetOK(cfg, pos, r) ==
    LET def == GetDef(cfg.f, cfg.q, cfg.d, cfg.mnp, cfg.mxp, pos)
        fx  == FAt(cfg.f, cfg.q, pos)
    IN  /\ r.bad = 0
        /\ Abs(r.v - def) <= 1 + Abs(def) \div 100000000
        \* the documented accuracy of the table
        /\ Abs(r.v - fx) <= InterpBound(cfg.f, cfg.d, pos) + 1 + Abs(fx) \div 100000000

Explains(cfg, e) ==
    LET r == e.r  op == e.c.op  a == e.c.a IN
    IF op = "interval_from" /\ a.hi < a.lo THEN r.st = "panic"
    ELSE
    /\ r.st = "ok"
    /\ CASE op = "scan"    -> SeqEq(r.out, ScanDef(a.op, a.a))
         [] op = "prescan" -> SeqEq(r.out, PrescanDef(a.op, a.a, a.z))
         [] op = "combinations" -> CombOK(r, Binom(a.n, a.k))
         [] op = "scaled_combinations" -> CombOK(r, BigMulSmall(Binom(a.n, a.k), a.m))
         [] op = "combinations_with_repl" -> CombOK(r, BinomRepl(a.n, a.k))
         [] op = "new" -> TRUE
         [] op = "get" -> GetOK(cfg, a.pos, r)
         [] op = "trim_newline" -> SeqEq(r.out, TrimDef(a.s))
         [] op = "interval_new" -> /\ (r.ok = 1) <=> IntervalOK(a.lo, a.hi)
                                   /\ r.ok = 1 => r.lo = a.lo /\ r.hi = a.hi
         [] op = "interval_from" -> r.lo = a.lo /\ r.hi = a.hi
         [] OTHER -> FALSE

Init == run \in 1..Len(Rec) /\ idx = 0 /\ ok = TRUE
Next ==
    /\ ok /\ idx < Len(Rec[run].ev)
    /\ LET good == Explains(Rec[run].cfg, Rec[run].ev[idx + 1])
       IN  /\ ok' = good
           /\ IF good THEN TRUE ELSE PrintT(<<"REJECT", run, idx + 1>>)
    /\ idx' = idx + 1
    /\ UNCHANGED run
Spec == Init /\ [][Next]_vars
=============================================================================
