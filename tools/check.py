#!/usr/bin/env python3
"""Single entry point of all checks:  tools/check.py --property Cxx --tier quick|thorough

See vlib.py for the pipeline and the exit-code contract."""
import argparse
import importlib
import json
import os
import shutil
import sys
import time

sys.path.insert(0, os.path.dirname(os.path.abspath(__file__)))
import vlib  # noqa: E402
from vlib import ToolError, log  # noqa: E402


def sample_of(run, maxev=3, maxlen=600):
    d = json.loads(vlib.run_json({"hdr": run["hdr"], "events": run["events"][:maxev]}))
    s = json.dumps(d)
    if len(s) > maxlen:
        return {"id": d.get("id"), "fam": d.get("fam"), "truncated_json": s[:maxlen]}
    return d


def main():
    ap = argparse.ArgumentParser()
    ap.add_argument("--property", required=True)
    ap.add_argument("--tier", default=os.environ.get("VERIF_TIER", "quick"))
    ap.add_argument("--seed", type=int, default=int(os.environ.get("VERIF_SEED", "1")))
    ap.add_argument("--keep", action="store_true", help="keep the work directory")
    ap.add_argument("--skip-mc", action="store_true", help="(debug) skip the MC runs; evidence is not written")
    ap.add_argument("--replay", help="re-validate one replay file against the spec")
    args = ap.parse_args()
    prop, tier, seed = args.property, args.tier, args.seed
    if tier not in ("quick", "thorough"):
        tier = "quick"
    t0 = time.time()
    workdir = os.path.join(vlib.VERIF, ".work", "%s-%s-%d" % (prop, tier, os.getpid()))
    shutil.rmtree(workdir, ignore_errors=True)
    os.makedirs(workdir)
    rc = 2
    try:
        rc = run_check(prop, tier, seed, workdir, args, t0)
    except ToolError as e:
        print("TOOL-ERROR property=%s %s" % (prop, e), flush=True)
        rc = 2
    finally:
        if not args.keep:
            shutil.rmtree(workdir, ignore_errors=True)
    sys.exit(rc)


def run_check(prop, tier, seed, workdir, args, t0):
    mod = importlib.import_module("props." + prop)
    plan = mod.plan(tier)
    vlib.build_harness([f["fam"] for f in plan["families"]])

    if args.replay:
        doc = json.load(open(args.replay))
        run = doc["run"]
        fam = run["fam"]
        trace = [f for f in plan["families"] if f["fam"] == fam][0]["trace"]
        evs = [json.dumps(e) for e in run.pop("ev")]
        r = {"hdr": json.dumps(run), "events": evs, "dangling": False}
        rej, _ = vlib.validate_runs([r], trace, workdir, nfiles=1)
        if rej:
            print("VIOLATION property=%s replay=%s" % (prop, args.replay))
            return 1
        print("replay accepted by the specification")
        return 0

    # 1. MC runs: the machine layer against the definition layer
    states = transitions = 0
    mc_desc = []
    if not args.skip_mc:
        for spec in plan.get("mc", []):
            r = vlib.mc_run(spec, workdir)
            states += r["distinct"]
            transitions += r["generated"]
            mc_desc.append({"module": spec["module"], "cfg": spec["cfg"], "distinct_states": r["distinct"],
                            "states_generated": r["generated"], "wall_s": round(r["wall"], 1)})

    # 2. spec -> impl behaviours (optional, property specific)
    ctx = {"workdir": workdir, "tier": tier, "seed": seed, "behaviours": {}}
    if "pre" in plan:
        plan["pre"](ctx)
        for d in ctx.get("mc_desc", []):
            mc_desc.append(d)
            states += d["distinct_states"]
            transitions += d["states_generated"]

    # 3. drivers + 4. trace validation, family by family
    known = vlib.load_known()
    all_runs = 0
    all_events = 0
    accepted = 0
    obligations = {}
    samples = []
    violations = []
    known_hits = {}
    trace_states = 0
    drift_total = 0
    fam_desc = []
    for fam in plan["families"]:
        extra = list(fam.get("extra", []))
        if fam["fam"] in ctx["behaviours"]:
            extra += ["--replay", ctx["behaviours"][fam["fam"]]]
        files = vlib.run_drivers(fam["fam"], tier, seed, workdir, extra=extra,
                                 nshards=fam.get("shards"), budget=fam.get("budget", 0))
        runs, obl = vlib.assemble(files)
        for k, v in obl.items():
            obligations[k] = obligations.get(k, 0) + v
        if not runs:
            raise ToolError("driver %s produced no runs" % fam["fam"])
        rejected, st = vlib.validate_runs(runs, fam["trace"], workdir, nfiles=fam.get("nfiles"),
                                          timeout=fam.get("timeout", 3000), xmx=fam.get("xmx", "6g"),
                                          env_extra=fam.get("env"), cfg=fam.get("cfg"))
        trace_states += st["distinct"]
        if st["drift"]:
            # the property holds on these events, but the code no longer follows the machine layer of the spec
            drift_total += len(st["drift"])
            ri, ei = st["drift"][0]
            print("MODEL-DRIFT: property=%s family=%s %d event(s) conform to the property but not to the machine "
                  "layer of the specification (first: run %s event %d); not an alarm" %
                  (prop, fam["fam"], len(st["drift"]), json.loads(runs[ri]["hdr"]).get("id"), ei))
        nev = sum(len(r["events"]) for r in runs)
        all_runs += len(runs)
        all_events += nev
        accepted += len(runs) - len(rejected)
        fam_desc.append({"fam": fam["fam"], "trace_spec": fam["trace"], "runs": len(runs), "events": nev,
                         "rejected_runs": len(rejected)})
        for s in runs[:: max(1, len(runs) // 3)][:3]:
            samples.append(sample_of(s))
        for (ri, ei) in rejected:
            k = vlib.match_known(known, prop, runs[ri], ei)
            if k is not None:
                known_hits.setdefault(k["id"], [k, 0])[1] += 1
            else:
                violations.append((runs[ri], ei))
        for f in files:
            try:
                os.remove(f)
            except OSError:
                pass

    # vacuity guard: every boundary region the plan names must have been reached
    missing = [o for o in plan.get("required_obligations", []) if obligations.get(o, 0) == 0]
    if missing and not violations and not vlib.DEATHS:
        # (with violations present, e.g. shards abandoned because the code under test hangs, the
        # violations are what has to be reported)
        raise ToolError("driver obligations never reached: %s" % ", ".join(missing))

    for kid, (k, n) in sorted(known_hits.items()):
        print("KNOWN-FINDING: property=%s %s [%s, %d run(s)]" % (prop, k["what"], kid, n))

    rc = 0
    if violations:
        rc = 1
        seen = 0
        for run, ei in violations[:20]:
            ev = json.loads(run["events"][ei - 1])
            why = "event %d (%s) of run %s is not explained by the specification; result=%s" % (
                ei, ev["c"]["op"], json.loads(run["hdr"]).get("id"), json.dumps(ev["r"])[:300])
            path = vlib.write_replay(prop, run, ei, why)
            print("VIOLATION property=%s replay=%s" % (prop, path))
            if seen < 5:
                print("  " + why[:500])
            seen += 1
        if len(violations) > 20:
            print("  ... and %d more rejected runs" % (len(violations) - 20))
    for d in vlib.DEATHS[:5]:
        # a driver process died before it could begin a run: the code under test panicked (or aborted) where the
        # driver calls it outside a logged call; on the unchanged tree this does not happen
        rc = 1
        why = ("the driver of family %s (shard %s) died with exit status %s before beginning a run; "
               "re-run: %s" % (d["family"], d["shard"], d["rc"], d["cmd"]))
        path = "/dev/null"
        if not vlib.SCRATCH:
            os.makedirs(os.path.join(vlib.VERIF, "replays"), exist_ok=True)
            path = os.path.join(vlib.VERIF, "replays", "%s-died-%s-%s.json" % (prop, d["family"], d["shard"]))
            with open(path, "w") as f:
                json.dump({"property": prop, "why": why, "death": d}, f)
                f.write("\n")
        print("VIOLATION property=%s replay=%s" % (prop, path))
        print("  " + why[:500])

    if not args.skip_mc:
        coverage = {
            "states": states, "transitions": transitions,
            "traces_validated_against_impl": accepted,
            "samples": samples[:8],
            "evaluations": all_events,
            "runs": all_runs,
            "trace_validation_states": trace_states,
            "rule": plan.get("rule", ""),
            "obligations_reached": obligations,
            "mc_runs": mc_desc,
            "families": fam_desc,
            "bounds": plan.get("bounds", {}),
            "exhaustive": bool(plan.get("exhaustive", False)),
            "known_findings_seen": {k: n for k, (_, n) in known_hits.items()},
            "machine_layer_drift_events": drift_total,
        }
        if "nontrivial" in obligations:
            coverage["distinct_nontrivial"] = obligations["nontrivial"]
        vlib.write_evidence(prop, tier, seed, coverage, time.time() - t0, len(violations),
                            plan.get("assumptions", []))
    log("%s %s: %d runs, %d events, %d violation(s), %.1fs" % (prop, tier, all_runs, all_events,
                                                              len(violations) + len(vlib.DEATHS), time.time() - t0))
    return rc


if __name__ == "__main__":
    main()
