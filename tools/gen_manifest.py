#!/usr/bin/env python3
"""Regenerates /verif/MANIFEST.json from the table below (keeps it valid at all times)."""
import json
import os

VERIF = os.path.dirname(os.path.dirname(os.path.abspath(__file__)))

import importlib
import sys

sys.path.insert(0, os.path.dirname(os.path.abspath(__file__)))

# every tools/props/Cxx.py exports MANIFEST = dict(technique, text, note, ref)
CLAIMED = {}
for fn in sorted(os.listdir(os.path.join(VERIF, "tools", "props"))):
    if fn.startswith("C") and fn.endswith(".py"):
        try:
            m = importlib.import_module("props." + fn[:-3])
        except Exception as e:  # a props file under construction must not break the manifest
            print("skipping %s: %s" % (fn, e))
            continue
        if getattr(m, "MANIFEST", None):
            d = m.MANIFEST
            CLAIMED[fn[:-3]] = (d["technique"], d["text"], d["note"], d["ref"])

NOT_YET = "no specification-bound check has been built for it yet (work in progress; see DESIGN.md sec. 5 for the plan)"


def main():
    props = [json.loads(l) for l in open(os.path.join(VERIF, "properties.jsonl"))]
    checks = []
    na = []
    for p in props:
        pid = p["id"]
        if pid in CLAIMED:
            tech, text, note, ref = CLAIMED[pid]
            checks.append({
                "property_id": pid,
                "quick_cmd": "python3 tools/check.py --property %s --tier quick" % pid,
                "thorough_cmd": "python3 tools/check.py --property %s --tier thorough" % pid,
                "evidence_file": "/verif/evidence/%s.json" % pid,
                "replay_cmd_template": "python3 tools/check.py --property %s --replay {path}" % pid,
                "engine": "tlc-trace",
                "level_claimed": {"category": "model_checking", "text": text, "design_ref": "DESIGN.md " + ref},
                "level_note": note,
                "technique": tech,
            })
        else:
            na.append({"property_id": pid, "reason": NOT_YET})
    hooks_commits = []
    hc = os.path.join(VERIF, "hooks_commits.txt")
    if os.path.exists(hc):
        hooks_commits = [l.split()[0] for l in open(hc) if l.strip() and not l.startswith("#")]
    man = {
        "version": 1,
        "setup_cmd": "cd harness && cargo build --release --offline --lib && (cargo build --release --offline --bins --keep-going || true) && (cargo build --profile plain --offline --bins --keep-going || true)",
        "hooks": {
            "guard": "--cfg bio_verif",
            "enable": "harness/.cargo/config.toml passes rustflags --cfg bio_verif to the path dependency on /repo",
            "baseline_off_cmd": "cd /repo && cargo test --workspace --no-fail-fast --offline",
            "source_commits": hooks_commits,
            "add_only": True,
        },
        "engines": [{
            "name": "tlc-trace", "path": "tools/check.py",
            "serves_properties": sorted(CLAIMED),
            "kind_free_text": "TLA+ specifications (spec/*.tla) model-checked with TLC; real rust-bio code driven by "
                              "harness/ (no oracle inside) and every recorded event validated by TLC against the "
                              "specification (spec/*Trace.tla); TLC-generated behaviours replayed into the code",
        }],
        "checks": checks,
        "not_applicable": na,
        "notes": "See DESIGN.md. known_findings.txt lists fixed/open findings.",
    }
    with open(os.path.join(VERIF, "MANIFEST.json"), "w") as f:
        json.dump(man, f, indent=1)
        f.write("\n")


if __name__ == "__main__":
    main()
