#!/usr/bin/env python3
"""mkmutant.py <out.diff> <repo-relative file> <old text> <new text> [count]
Creates a git-style patch replacing the first (or count-th) occurrence of <old text> in /repo/<file> (HEAD version)."""
import difflib, subprocess, sys
out, rel, old, new = sys.argv[1:5]
nth = int(sys.argv[5]) if len(sys.argv) > 5 else 1
src = subprocess.run(["git", "-C", "/repo", "show", "HEAD:" + rel], stdout=subprocess.PIPE, text=True, check=True).stdout
pos = -1
for _ in range(nth):
    pos = src.find(old, pos + 1)
    if pos < 0:
        sys.exit("old text not found")
dst = src[:pos] + new + src[pos + len(old):]
d = difflib.unified_diff(src.splitlines(True), dst.splitlines(True), "a/" + rel, "b/" + rel)
open(out, "w").write("".join(d))
print("wrote", out)
