#!/usr/bin/env python3
"""Run checks against a MUTATED copy of rust-bio without touching /repo.

  tools/mutant.py --patch some.diff --property C08 [--property C09 ...] [--tier quick] [--keep]

Creates a scratch git worktree of /repo HEAD under /tmp, applies the patch there, copies the harness
(without target/) next to it with its path dependency redirected, and runs tools/check.py with
VERIF_HARNESS_DIR / VERIF_SCRATCH set (no evidence, no replay files are written).
Prints the check output; exit code = 1 if any check reported a VIOLATION (the mutant is caught),
0 if every check passed (mutant survived), 2 on tool errors. The scratch tree is removed afterwards.
Optionally (--test 'cargo test args') first runs the repository's tests in the mutated tree.
"""
import argparse
import os
import shutil
import subprocess
import sys
import tempfile

VERIF = os.path.dirname(os.path.dirname(os.path.abspath(__file__)))


def main():
    ap = argparse.ArgumentParser()
    ap.add_argument("--patch", required=True)
    ap.add_argument("--property", action="append", required=True)
    ap.add_argument("--tier", default="quick")
    ap.add_argument("--keep", action="store_true")
    ap.add_argument("--test", help="also run `cargo test --offline <this>` in the mutated tree first")
    ap.add_argument("--seed", default="1")
    a = ap.parse_args()
    patch = os.path.abspath(a.patch)
    base = tempfile.mkdtemp(prefix="vmut-", dir="/tmp")
    repo = os.path.join(base, "repo")
    har = os.path.join(base, "harness")
    rc_final = 0
    try:
        subprocess.run(["git", "-C", "/repo", "worktree", "add", "--detach", "-f", repo, "HEAD"], check=True,
                       stdout=subprocess.DEVNULL, stderr=subprocess.DEVNULL)
        r = subprocess.run(["git", "-C", repo, "apply", patch])
        if r.returncode != 0:
            print("patch does not apply")
            return 2
        shutil.copytree(os.path.join(VERIF, "harness"), har,
                        ignore=shutil.ignore_patterns("target"))
        ct = os.path.join(har, "Cargo.toml")
        s = open(ct).read().replace('path = "/repo"', 'path = "%s"' % repo)
        open(ct, "w").write(s)
        if a.test:
            t = subprocess.run("cargo test --offline " + a.test, shell=True, cwd=repo,
                               stdout=subprocess.PIPE, stderr=subprocess.STDOUT, text=True)
            print("\n".join(t.stdout.splitlines()[-6:]))
            print("[mutant] repository tests rc=%d" % t.returncode)
        env = dict(os.environ)
        env["VERIF_HARNESS_DIR"] = har
        env["VERIF_SCRATCH"] = "1"
        env["VERIF_SEED"] = a.seed
        for prop in a.property:
            p = subprocess.run([sys.executable, os.path.join(VERIF, "tools", "check.py"), "--property", prop,
                                "--tier", a.tier, "--skip-mc"], env=env, stdout=subprocess.PIPE,
                               stderr=subprocess.STDOUT, text=True)
            lines = [l for l in p.stdout.splitlines() if "conda" not in l]
            print("\n".join(lines[-25:]))
            print("[mutant] %s rc=%d" % (prop, p.returncode))
            if p.returncode == 1:
                rc_final = 1
            elif p.returncode != 0 and rc_final == 0:
                rc_final = 2
    finally:
        if not a.keep:
            subprocess.run(["git", "-C", "/repo", "worktree", "remove", "--force", repo],
                           stdout=subprocess.DEVNULL, stderr=subprocess.DEVNULL)
            shutil.rmtree(base, ignore_errors=True)
            subprocess.run(["git", "-C", "/repo", "worktree", "prune"])
    return rc_final


if __name__ == "__main__":
    sys.exit(main())
