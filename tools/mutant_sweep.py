#!/usr/bin/env python3
"""Run every mutants/Cxx-*.diff (must be caught: rc=1) and every mutants/equivalent/Cxx-*.diff
(property-preserving: must NOT be caught, rc=0) against the quick check of its property.
Writes mutants/RESULTS.md. Usage: tools/mutant_sweep.py [Cxx ...]"""
import glob, os, re, subprocess, sys, time
VERIF = os.path.dirname(os.path.dirname(os.path.abspath(__file__)))
want = set(sys.argv[1:])
rows = []
for kind, pat, expect in (("breaking", "mutants/C*.diff", 1), ("equivalent", "mutants/equivalent/C*.diff", 0)):
    for f in sorted(glob.glob(os.path.join(VERIF, pat))):
        prop = os.path.basename(f)[:3]
        if want and prop not in want:
            continue
        t0 = time.time()
        p = subprocess.run([sys.executable, os.path.join(VERIF, "tools", "mutant.py"), "--patch", f, "--property", prop],
                           stdout=subprocess.PIPE, stderr=subprocess.STDOUT, text=True)
        m = re.search(r"(\d+) violation\(s\)", p.stdout)
        drift = "MODEL-DRIFT" in p.stdout
        rows.append((prop, os.path.basename(f), kind, p.returncode, m.group(1) if m else "-", drift, expect == p.returncode,
                     round(time.time() - t0)))
        print(rows[-1], flush=True)
with open(os.path.join(VERIF, "mutants", "RESULTS.md"), "w") as out:
    out.write("# Mutant sweep (tools/mutant_sweep.py, quick tier)\n\n")
    out.write("| property | patch | kind | check rc | violations | drift reported | as expected | s |\n|---|---|---|---|---|---|---|---|\n")
    for r in rows:
        out.write("| %s | %s | %s | %s | %s | %s | %s | %s |\n" % r)
bad = [r for r in rows if not r[6]]
print("unexpected:", bad)
sys.exit(1 if bad else 0)
