#!/usr/bin/env python3
"""Run every mutants/Cxx-*.diff (must be caught: rc=1) and every mutants/equivalent/Cxx-*.diff
(property-preserving: must NOT be caught, rc=0) against the quick check of its property.
Writes mutants/RESULTS.md. Usage: tools/mutant_sweep.py [Cxx ...]"""
import glob, os, re, subprocess, sys, time
VERIF = os.path.dirname(os.path.dirname(os.path.abspath(__file__)))
args = sys.argv[1:]
jobs = 1
if "--jobs" in args:
    i = args.index("--jobs")
    jobs = int(args[i + 1])
    del args[i:i + 2]
outname = "RESULTS.md"
if "--out" in args:
    i = args.index("--out")
    outname = args[i + 1]
    del args[i:i + 2]
want = set(args)
tasks = []
for kind, pat, expect in (("breaking", "mutants/[CX]*.diff", 1), ("equivalent", "mutants/equivalent/[CX]*.diff", 0)):
    for f in sorted(glob.glob(os.path.join(VERIF, pat))):
        prop = os.path.basename(f)[:3]
        if want and prop not in want:
            continue
        tasks.append((kind, f, expect, prop))


def one(task):
    kind, f, expect, prop = task
    t0 = time.time()
    p = subprocess.run([sys.executable, os.path.join(VERIF, "tools", "mutant.py"), "--patch", f, "--property", prop],
                       stdout=subprocess.PIPE, stderr=subprocess.STDOUT, text=True)
    m = re.search(r"(\d+) violation\(s\)", p.stdout)
    drift = "MODEL-DRIFT" in p.stdout
    row = (prop, os.path.basename(f), kind, p.returncode, m.group(1) if m else "-", drift, expect == p.returncode,
           round(time.time() - t0))
    print(row, flush=True)
    return row


from concurrent.futures import ThreadPoolExecutor
with ThreadPoolExecutor(max_workers=jobs) as ex:
    rows = list(ex.map(one, tasks))
with open(os.path.join(VERIF, "mutants", outname), "w") as out:
    out.write("# Mutant sweep (tools/mutant_sweep.py, quick tier)\n\n")
    out.write("| property | patch | kind | check rc | violations | drift reported | as expected | s |\n|---|---|---|---|---|---|---|---|\n")
    for r in rows:
        out.write("| %s | %s | %s | %s | %s | %s | %s | %s |\n" % r)
bad = [r for r in rows if not r[6]]
print("unexpected:", bad)
sys.exit(1 if bad else 0)
