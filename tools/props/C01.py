def plan(tier):
    q = tier == "quick"
    return {
        "mc": [{"module": "AlignmentMC", "cfg": "AlignmentMC.cfg" if q else "AlignmentMC_thorough.cfg",
                "timeout": 3000}],
        "families": [{"fam": "pairwise", "trace": "AlignmentTrace", "nfiles": 4}],
        "required_obligations": ["exhaustive_small", "alphabet_high_bit_twins", "empty_x", "empty_y", "both_empty", "gap_extend_zero",
                                 "custom_xclip_prefix_used", "custom_xclip_suffix_used",
                                 "custom_yclip_prefix_used", "custom_yclip_suffix_used", "custom_fully_clipped",
                                 "large_then_small_same_aligner", "big_equal_inputs", "match_score_near_the_top_of_i32", "big_inputs_with_byte_0xff", "big_equal_inputs_offdiagonal_table_global", "big_x_contained_in_y",
                                 "big_y_contained_in_x", "small_calls_after_big_call_same_aligner", "clip_sensitive_custom_calls_right_after_big_call", "clone_mid_history",
                                 "clone_from_other_aligner", "serde_round_trip", "clip_penalty_between_sentinel_and_half_sentinel"],
        "rule": "one run = one Aligner object reused for many calls; exhaustive: all x,y over {A,C} incl. empty up "
                "to length 2 (quick) / 3 (thorough) x gap/substitution/clip scheme grid x 4 modes; random: schemes "
                "with arbitrary (asymmetric) substitution tables or MatchParams, clip penalties from "
                "{MIN_SCORE,0,-1,..}, |x|,|y|<=12, 6-10 calls per aligner alternating modes and large/small inputs, "
                "all four constructors and capacity hints smaller/larger than the inputs; heavy class: clip, gap "
                "and mismatch penalties between MIN_SCORE and MIN_SCORE/2 (legal, not 'forbidden'), inputs up to "
                "length 3, custom mode, judged by the clamped-arithmetic layer (BestBruteH) where the optimum is "
                "above -8e8 (checked build only; an i32 overflow panic is outside the score type's domain)",
        "bounds": {"mc": "x,y over 2 symbols up to length 2 (quick) / 3 (thorough), 3 gap x 2 substitution schemes "
                         "x 3^4 clip penalties x 4 modes: column DP = brute force over all sub-ranges and all "
                         "alignments",
                   "impl": "|x|,|y| <= 12, alphabets of 2 and 4 symbols, |scores| <= 12"},
        "assumptions": ["symbols are projected to alphabet indices; the substitution closure reads the logged table",
                        "a gap run interrupted by a clip operation may be scored merged or split (both accepted)"],
    }


MANIFEST = {
    "technique": "TLA+ definition of the documented alignment model (max over sub-ranges of affine-gap alignments "
                 "plus clip penalties, by enumeration) and an O(mn) clip-state column machine proved equal to it by "
                 "TLC; every alignment returned by the real Aligner validated by TLC: path validity, rescoring, "
                 "optimality under the mode's effective penalties",
    "text": "TLC exhausts the column machine against the literal brute-force model for all small inputs and scheme "
            "grids (all four modes), then judges every recorded call of real, reused Aligner objects: operations and "
            "coordinates form a real alignment of the reported sub-ranges, its independently recomputed score equals "
            "the reported score, and that score equals the specification's optimum - independent of the calls made "
            "before on the same object",
    "note": "bounded input sizes; TLC evaluator trusted; zero-length clip operations are ignored and clip "
            "operations may be absent in semiglobal/local results (documented filtering)",
    "ref": "sec. 5 C01",
}
