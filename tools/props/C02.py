def plan(tier):
    q = tier == "quick"
    return {
        "mc": [{"module": "BandMC", "cfg": "BandMC.cfg" if q else "BandMC_thorough.cfg", "timeout": 3000}],
        "families": [{"fam": "banded", "trace": "AlignmentTrace", "nfiles": 4}],
        "required_obligations": ["exhaustive_small", "alphabet_high_bit_twins", "w_zero", "over_cell_budget_then_custom_with_clips", "short_read_in_long_reference_over_budget_matrix", "over_cell_budget_with_an_empty_sequence", "clone_mid_history", "clone_from_other_aligner", "serde_round_trip", "clips_changed_through_get_mut_scoring", "clip_dominated_sparse_band", "empty_x", "both_empty", "x_shorter_than_k",
                                 "explicit_empty_matches", "expanded_matches", "explicit_path",
                                 "band_from_kmer_matches", "no_kmer_match_full_band", "over_cell_budget", "thin_band_in_huge_matrix"],
        "rule": "one run = one banded Aligner (k,w) reused across entry points and sizes; exhaustive: all x,y over "
                "{A,C} incl. empty up to length 2 (quick) / 3 (thorough) x k in 1..3 x w in 0..2 x scheme grid x "
                "{custom,global,semiglobal,local}; random: planted shared k-mers, |x|,|y|<=40, all nine entry points "
                "(prehash, explicit match subsets, empty match list, expanded matches with 0-2 mismatches with and "
                "without the LCSk++ union, explicit LCSk++ path); cell budget 2301x2301 cells; degenerate inputs",
        "bounds": {"mc": "x,y over 2 symbols up to length 2 (3), every column-range band containing a path, 3 gap "
                         "schemes x clip penalties: band-restricted DP <= optimum, = optimum for the full band",
                   "impl": "|x|,|y| <= 40 (budget cases 2300), k in 1..5, w in 0..4"},
        "assumptions": ["symbols are projected to alphabet indices; the substitution closure reads the logged table",
                        "termination is observed by a 10 s per-call watchdog and a 4 GiB address-space limit"],
    }


MANIFEST = {
    "technique": "TLA+ band-restricted column machine model-checked by TLC against the unbanded optimum (lower bound "
                 "for every band, equality for the full band); every alignment returned by the nine entry points of "
                 "the real banded Aligner validated by TLC: validity, rescoring, score <= optimum, = optimum when "
                 "the specification derives that the band is the whole matrix, budget sentinel, termination",
    "text": "TLC exhausts band shapes on small inputs for the band-restricted DP design, and judges every recorded "
            "call of real banded aligners: valid alignment whose recomputed score is the reported one, never above "
            "the specification's optimum, equal to it whenever no k-mer match exists (decided by the spec from "
            "x,y,k) or an empty backbone was passed, the documented sentinel beyond the cell budget, and a return "
            "from every call (watchdog)",
    "note": "bounded input sizes; the band itself is not observed (any band is allowed by the property); "
            "termination is an observation, not a proof",
    "ref": "sec. 5 C02",
}
