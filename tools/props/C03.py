REPS = ["unary", "p2", "p3", "p5", "fib", "thue", "abka", "runs", "sq"]


def plan(tier):
    q = tier == "quick"
    return {
        "mc": [{"module": "SuffixIndexMC_C03",
                "cfg": "SuffixIndexMC_C03.cfg" if q else "SuffixIndexMC_C03_thorough.cfg",
                "timeout": 1500, "args": ["-coverage", "1"]},
               {"module": "SuffixIndexMC_C03s",
                "cfg": "SuffixIndexMC_C03s.cfg" if q else "SuffixIndexMC_C03s_thorough.cfg",
                "timeout": 3000, "args": ["-coverage", "1"]}],
        "families": [{"fam": "sa", "trace": "SuffixIndexTraceSa", "nfiles": 3 if q else 4, "timeout": 3000}],
        "required_obligations": ["exhaustive_small", "sample_rate_ge_2p32", "int_u8_max_symbol_253_to_255", "int_u16_max_symbol_65535", "text_len_1", "text_len_2", "lcp_three_views", "lcp_n2", "lcp_n3", "sus_n2", "sus_n3", "sus_through_sampled_sa", "sample_rate_1", "occ_rate_1", "clone_sampled_sa", "clone_from_sampled_sa_other_text", "resample_multiple_rate", "resample_non_multiple_rate", "resample_multiple_rate_multi_sentinel", "serde_roundtrip_sampled_sa", "serde_roundtrip_sampled_sa_multi_sentinel", "exhaustive_binary_12", "lms_substring_longer_than_lms_count", "more_than_65536_distinct_lms_names", "width_boundary_sweep_250_262", "more_than_65535_sentinels", "text_longer_than_2p24_sampled", "recursion_smallest_witness", "single_lms", "random_multi_sentinel", "random_long", "transform_u16",
                                 "transform_u8_limit_255", "transform_u16_limit_256", "int_alphabet_gt_255", "int_u8",
                                 "sample_multi_sentinel", "sample_rate_gt_n", "sample_rate_eq_n", "sample_occ_rate_gt64",
                                 "lcp_plant_126", "lcp_plant_127", "lcp_plant_128", "lcp_plant_200"]
                                + ["repetitive_" + r for r in REPS] + ([] if q else ["width_boundary_65538", "long_random_bytes_300k"]),
        "rule": "one run = one text: suffix_array (or suffix_array_int), lcp, shortest_unique_substrings, and one "
                "`sample` event per (s, Occ rate, ownership) carrying every get(i) -- also for arrays obtained by "
                "re-sampling a sampled array (rate pairs with multiple and non-multiple rates) and after a serde "
                "round trip of the sampled array and its components; exhaustive over {A,C}*$ (n<=9 quick / 11 thorough with lcp/sus/sampling; suffix_array alone up to "
                "n=13 / 14) and "
                "{A,C,$}*$ with <=3 sentinels (n<=7 / 8), random DNA/protein/byte texts up to 2000 (multi-sentinel too), "
                "repetitive texts up to 300 (unary, periodic, Fibonacci, Thue-Morse, (ab)^k a, runs, squares), "
                ">255 symbol classes (u16 transform) and the 255/256 limit, every alphabet-size + sentinel-count sum 250..262 with varying letter counts "
                "(65,537/65,538 in thorough), dense integer texts (alphabet up to 1200, "
                "u8/u16/u32/usize), a read collection with > 66,000 sentinels (32 bit ranks; validated with the row "
                "witness form IsValidSAW), the unary text of length 2^24+1 sampled (closed-form family), block texts [x](a^i b^j)^r and [x](a^i b^j c^k)^r (LMS substrings longer than the LMS count), the zigzag "
                "integer text with 70,000 distinct LMS substrings (closed form), planted repeats of length 125..129, 200, 254..256 around the SmallInts escape value",
        "bounds": {"mc": "Sym={a,b}+sentinel, n<=6 (quick) / 7 (thorough), <=3 sentinel occurrences; s in 1..n+1, "
                         "Occ rates {1,2,3} with T=1, Esc=2; SA-IS machine: all texts over {a,b}+<=3 sentinels n<=8 (quick) / 10 "
                         "(thorough) plus Fibonacci/Thue-Morse/period-5/(ab)^k a/two-copy texts of length 21..55 "
                         "(recursion depth up to 3)",
                   "impl": "n<=2000 random, <=300 repetitive; s in {1,2,3,5,n,n+1}; Occ rates {1,3,64,65,128}"},
        "assumptions": ["ndJsonDeserialize/TLC evaluate the TLA+ definitions faithfully",
                        "sampling rates >= 2^32 are logged as decimal strings (field s_str) with the surrogate 2^31-1 in "
                        "`s` (the verdict 'same position as the full array at every index' does not depend on the value); "
                        "Occ rates are u32 by the code's signature, larger values cannot be passed",
                        "for the > 66,000-sentinel text the harness logs rk[p] = row of sentinel p (a re-indexing of the "
                        "observed array, verified against it by the spec; MC lemma WitnessLemma: same verdict as "
                        "IsValidSA); for the 2^24+1 text only (n, k, s, rows, values) are logged and the suffix array "
                        "n-1..0 of A^(n-1)$ is closed form (MC lemma UnaryLemma)",
                        "a suffix array is accepted under ANY fixed total order of the sentinel occurrences (final "
                        "sentinel smallest); agreement with the code's present order (reverse text order) is reported "
                        "as MODEL-DRIFT only",
                        "texts end with their smallest symbol; integer texts use every value of 0..=max and end in a "
                        "unique 0 (documented preconditions)",
                        "for n > 12 the trace spec evaluates SusPairs (1 + longest lcp with any other suffix) instead "
                        "of the literal SusDef; their equality is an MC lemma (KasaiFinal)"],
    }


MANIFEST = {
    "technique": "TLA+ definition of the sentinel-aware suffix order (any admissible order of the sentinel "
                 "occurrences with the final one smallest; the code's concrete order only as machine-layer "
                 "conformance = DRIFT), LCP, SUS, sampling; machines of "
                 "SA-IS (types, LMS collection, induced sorts, naming, recursion stack), the "
                 "Kasai loop (with SmallInts escape), the SUS formula and the sampled-array LF walk model-checked by "
                 "TLC; traces of the real suffix_array/suffix_array_int/lcp/shortest_unique_substrings/"
                 "SampledSuffixArray validated by TLC against the definitions",
    "text": "TLC exhausts all texts over 2 symbols plus up to 3 sentinel occurrences (n<=6/7): for every admissible "
            "order of the sentinel occurrences the induced comparison is a strict total order with the stated sentinel "
            "rules and has exactly one sorted permutation, and the accepted arrays (IsValidSA: sorted under the sentinel "
            "order read off the array) are exactly those; the SA-IS machine (transcribed phase by phase, shared "
            "buffers, explicit recursion) ends every level with the suffix array of its text; the Kasai machine "
            "yields LcpDef, the SUS formula yields the brute-force SUS, the sampled-array walk returns sa[i] for every "
            "rate and index; every recorded suffix array, integer suffix array, LCP array, SUS vector and sampled get "
            "of the real code must satisfy the same definitions",
    "note": "bounded: MC n<=6/7; implementation side n<=2000 (repetitive <=300); the real SA-IS is bound to the specification through "
            "its results only (no phase hooks; the SA-IS machine is model-checked, not trace-stepped); TLC's evaluator and the JSON projection of the harness are trusted",
    "ref": "sec. 5 C03",
}
