def plan(tier):
    q = tier == "quick"
    return {
        "mc": [{"module": "SuffixIndexMC_C04",
                "cfg": "SuffixIndexMC_C04.cfg" if q else "SuffixIndexMC_C04_thorough.cfg",
                "timeout": 1500, "args": ["-coverage", "1"]}],
        "families": [{"fam": "bwt", "trace": "SuffixIndexTraceBwt", "nfiles": 1, "timeout": 3000}],
        "required_obligations": ["exhaustive_small", "same_size_same_max_different_alphabets_in_one_process", "text_len_1", "text_len_2", "occ_rate_1", "clone_occ_both_continue", "clone_from_occ_other_text_both_continue", "k_gt64_divides_n", "k_gt64_equals_n", "run_ge_256_occ_rate_gt_256", "alphabet_max_symbol_sweep_around_dollar", "exhaustive_raw_strings", "row_on_checkpoint_and_before", "single_checkpoint", "k64", "k65",
                                 "k_gt64_half_boundary", "k_gt64_three_checkpoints", "k_gt64_last_partial_block",
                                 "k_gt64_absent_symbol", "absent_symbol", "invert", "multi_sentinel"],
        "rule": "one run = one (text, alphabet): suffix_array, bwt, less, one full Occ::get table (every row x every "
                "alphabet symbol and the sentinel) per sampling rate k, invert_bwt; exhaustive over {A,C,$}* $ with all "
                "k in 1..2n, every string over {$,A,C} of length <=5 (quick)/7 (thorough) as a raw Occ input with all k, plus texts of the checkpoint-boundary lengths (1..400; random, unary, periodic, long runs, "
                "multi-sentinel, sentinels 0/'#'/'$', symbols up to 255) with k in {1,2,3,7,8,63,64,65,66,100,128,129,"
                "(n-1)/2,n-2,n-1,n,2n} and alphabets equal to / larger than the text's (absent symbols, implicit '$'); "
                "raw strings of 600..3000 rows with runs of 100..3000 equal symbols (unary, alternating, two "
                "halves, random runs) under Occ rates {257,300,512,514,600,1024,n-1,n+1}, all rows and symbols; "
                "dense integer alphabets 0..=max for every max in 30..40 and {127,128,253,254,255}, with and without '$'",
        "bounds": {"mc": "Sym={$,a,b}, n<=6 (quick) / 8 (thorough), all k in 1..2n, T=2: build steps + every (r,c) "
                         "query split by branch; bwtfind + invert_bwt walk on the BWT of every single-sentinel text over {a,b}",
                   "impl": "n<=400 (texts) / 3000 (raw Occ inputs), k<=2n, T=64 (the code's constant), alphabets up to symbol 255"},
        "assumptions": ["ndJsonDeserialize/TLC evaluate the TLA+ definitions faithfully",
                        "bwt/less/Occ/invert are judged against the suffix array the code returned for the text "
                        "(accepted under any admissible sentinel order), not against a spec-computed array",
                        "Occ::get is only asked for symbols of the alphabet handed to Occ::new and the sentinel "
                        "(other symbols have no table: documented precondition)",
                        "alphabets contain every text symbol (the sentinel '$' may be implicit when a larger symbol "
                        "is present, as in the repository's own usage)"],
    }


MANIFEST = {
    "technique": "TLA+ machines of Occ::new / Occ::get (checkpoints, early exit, backward and forward counting, scaled "
                 "look-ahead threshold) and of bwtfind / invert_bwt (stable counting sort, inverse-LF walk) model-checked by TLC against counting definitions; traces of the real "
                 "suffix_array/bwt/less/Occ/invert_bwt validated by TLC against the same definitions",
    "text": "TLC exhausts every string over 3 symbols up to length 6/8 with every sampling rate 1..2n for the Occ "
            "machine (each (row,symbol) query, split by code branch) against OccDef, and every recorded bwt, less, "
            "full Occ::get table (rates incl. 63..66, 128, 129, n-1, n, 2n; n up to 400) and invert_bwt of the real "
            "code must equal the counting definitions relative to the suffix array the code returned (itself "
            "validated as sorted under one consistent sentinel order)",
    "note": "bounded: MC over n<=6/8, T=2; implementation side n<=400, k<=2n; TLC's evaluator and the JSON projection "
            "of the harness are trusted",
    "ref": "sec. 5 C04",
}
