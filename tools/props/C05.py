def plan(tier):
    q = tier == "quick"
    return {
        "mc": [{"module": "SuffixIndexMC_C05",
                "cfg": "SuffixIndexMC_C05.cfg" if q else "SuffixIndexMC_C05_thorough.cfg",
                "timeout": 1500, "args": ["-coverage", "1"]}],
        "families": [{"fam": "fm", "trace": "SuffixIndexTraceFm", "nfiles": 2, "timeout": 3000}],
        "required_obligations": ["exhaustive_small", "same_size_same_max_different_alphabets_in_one_process", "fm_over_more_than_65535_reads", "text_len_1", "text_len_2", "occ_rate_1", "clone_fmindex_both_continue", "clone_from_fmindex_other_text_both_continue", "searches_repeated_in_reverse_order", "empty_pattern", "pattern_iterator_inexact_size_hint", "serde_roundtrip_fmindex", "serde_roundtrip_sampled_sa", "alphabet_max_symbol_sweep_around_dollar", "complete_by_construction", "partial_by_construction",
                                 "absent_by_construction", "longer_than_text", "whole_text_pattern", "multi_sentinel",
                                 "sampled_sa", "sentinel_not_dollar_sampled_sa", "bwt_run_ge_256_occ_rate_gt_256", "text_longer_than_2p24_sampled_sa", "occ_rate_gt64", "own_borrowed", "own_owned", "own_arc"],
        "rule": "patterns are handed to backward_search through 7 kinds of double-ended iterators (plain, filter, "
                "chunks+flatten, rev.rev, filter_map, flat_map, chain); owned indexes (and their sampled arrays) go "
                "through a serde round trip after half of the searches; alphabets 0..=max for max in 33..38 with and "
                "without '$'; one run = one FM index object (text, alphabet, Occ rate, raw/sampled SA, borrowed/owned/Arc) answering "
                "many patterns; sentinels '$', '#' and byte 0; exhaustive: every text over {A,C,sentinel} (<=3 sentinels, n<=6/7, SA "
                "sampling 1..8) x every pattern over {A,C} "
                "of length <=5/6; random texts up to 500 (DNA, protein, unary, periodic, high bytes, multi-sentinel) for "
                "every combination of Occ rate {1,3,65,130} x SA {raw, sampled 2, 5} x ownership, with patterns that "
                "occur / have an absent symbol in front (proper suffix occurs) / at the end / one substitution / glued "
                "substrings / longer than the text / the whole text; small texts for every sentinel x every SA sampling rate 2..8 "
                "with all single-symbol patterns; unary / periodic / two-block texts of 1000..3000 symbols "
                "under Occ rates 257..1100; the unary text of 2^24+1 symbols (closed-form family) searched for A^m "
                "and resolved through a sampled suffix array",
        "bounds": {"mc": "Sym={a,b}+sentinel (<=3), n<=6 (quick) / 7 (thorough), |p|<=5 / 6, Occ rates {1,2,3}, T=1",
                   "impl": "n<=500, |p|<=505, Occ rates up to 130, SA sampling rates {1,2,3,5}"},
        "assumptions": ["ndJsonDeserialize/TLC evaluate the TLA+ definitions faithfully",
                        "for the 2^24+1 text only (n, k, s, m, rows, values) are logged; the suffix array n-1..0 and the "
                        "answer UnaryBS are closed form (MC lemma UnaryLemma of SuffixIndexMC_C05)",
                        "patterns are non-empty, sentinel-free and over the index alphabet; every alphabet symbol "
                        "other than the sentinel is larger than the sentinel (documented: the sentinel is the "
                        "lexicographically smallest symbol)"],
    }


MANIFEST = {
    "technique": "TLA+ machine of the backward-search LF loop (with the Occ machine plugged in) model-checked by TLC "
                 "against occurrence sets; traces of the real FMIndex::backward_search + Interval::occ validated by "
                 "TLC against the same definition",
    "text": "TLC exhausts every text over 2 symbols plus up to 3 sentinel occurrences (n<=6/7) with every pattern of "
            "length <=5/6: each refinement step holds exactly the rows of the matched pattern suffix and the result is "
            "Complete/Partial(longest occurring suffix)/Absent as defined; every recorded search of the real index "
            "(all Occ rate x raw/sampled SA x borrowed/owned/Arc combinations) must name exactly the occurrence "
            "positions of the longest occurring pattern suffix",
    "note": "bounded: MC n<=6/7, |p|<=5/6; implementation side n<=500; TLC's evaluator and the JSON projection of the "
            "harness are trusted",
    "ref": "sec. 5 C05",
}
