def plan(tier):
    q = tier == "quick"
    return {
        "mc": [{"module": "SuffixIndexMC_C06",
                "cfg": "SuffixIndexMC_C06.cfg" if q else "SuffixIndexMC_C06_thorough.cfg",
                "timeout": 3000, "args": ["-coverage", "1"]},
               {"module": "SuffixIndexMC_C06",
                "cfg": "SuffixIndexMC_C06_n.cfg" if q else "SuffixIndexMC_C06_n_thorough.cfg",
                "timeout": 3000, "args": ["-coverage", "1"]}],
        "families": [{"fam": "fmd", "trace": "SuffixIndexTraceFmd", "nfiles": 2, "timeout": 3000}],
        "required_obligations": ["exhaustive_small", "min_len_ge_2p32", "fmd_unchecked_constructor", "clone_fmdindex_both_continue", "clone_from_fmdindex_other_text_both_continue", "ext_same_string_both_orders", "serde_roundtrip_fmdindex", "fmd_backward_search_iterator_kinds", "all_smems_min_len_1_to_6", "interval_of_255_256_257_rows_one_preceding_symbol", "tables_from_reduced_alphabet", "ext_past_empty", "ext_past_empty_absent_symbol", "bwt_run_longer_than_occ_rate", "fmd_over_120_sequences", "palindromic_sequence", "periodic_sequence",
                                 "repeated_between_sequences", "with_n", "with_lower_case", "several_sequences",
                                 "occ_rate_gt64_second_checkpoint", "min_len_eq_pattern_len", "ext_spelled_occurring",
                                 "ext_every_symbol"],
        "rule": "one run = one FMD index over concat(s $ revcomp(s) $); `smems` events carry the answers for every "
                "position i of a (pattern, l); `all_smems`; `ext_path` events chain backward_ext/forward_ext from "
                "init_interval()/init_interval_with(c) spelling occurring strings in random direction orders plus "
                "extensions by every symbol of ACGTNacgtn; exhaustive sequence sets (1 sequence <=4/5, 2 sequences <=2 "
                "over ACGT) and random sets (N, lower case, periodic, palindromic, copies across sequences, total "
                "length <=60, patterns <=15 from either strand with mutations, l in {1,2,3,|P|}, Occ rates 1,2,3,64,65); reads with homopolymers / tandem repeats / N runs of more than "
                "two Occ blocks (rates 65, 70, 128) with run pieces + flanks as patterns and 20..60-step extension "
                "chains by the run symbols; indexes over 125/126/127 short reads; two overlapping sequences with patterns glued from them and "
                "all_smems for every l in 1..6; (AC)^255/256/257 and A^256 reads; every third index is asked after a "
                "serde round trip; backward_search of the FMD index through 4 iterator kinds",
        "bounds": {"mc": "ACGT: 1 sequence <=3 (quick)/4 (thorough) or 2 sequences of total <=2/3, patterns <=3, "
                         "l in {1,2}, Occ by definition and by the Occ machine (k=2,T=1); {A,T,N,a,t}: sequences <=2/3, "
                         "patterns <=2/3",
                   "impl": "text length <=130, patterns <=15, extension chains <=12 steps"},
        "assumptions": ["ndJsonDeserialize/TLC evaluate the TLA+ definitions faithfully",
                        "patterns and extension symbols are over ACGTNacgtn (no sentinel: suffixes starting with '$' "
                        "are ordered by position, so '$' has no bi-interval); l >= 1",
                        "extension chains go on past empty bi-intervals: only size 0 is demanded there (the bounds of an "
                        "empty bi-interval carry no meaning)",
                        "less/Occ are built from dna::n_alphabet(), or from the reduced alphabets $ACGTN / ACGTN when "
                        "sequences, patterns and extension symbols are upper case (smaller alphabets are not served by "
                        "the unchanged code: backward_ext consults Occ for the symbols of $TGCNA up to the extended one)",
                        "for |P| > 5 the trace spec evaluates MemsFast (longest-occurring-extension table) instead of "
                        "the literal Mems; their equality is an MC lemma (MemsFastLemma)"],
    }


MANIFEST = {
    "technique": "TLA+ machine of FMDIndex::smems (forward sweep, backward sweep with candidate list) and of "
                 "backward_ext/forward_ext/init_interval_with model-checked by TLC against the MEM definition and "
                 "the bi-interval definition; traces of the real smems/all_smems/extension chains validated by TLC "
                 "against the same definitions",
    "text": "TLC exhausts small sequence sets over ACGT and over {A,T,N,a,t} with every pattern, position and minimum "
            "length: every extension of every occurring string is the bi-interval of the extended string, every "
            "candidate of both sweeps is the bi-interval of its pattern substring and the reported set is exactly the "
            "SMEMs covering i; every recorded smems (all i), all_smems and extension chain of the real index must "
            "satisfy the same definitions with both intervals mapping exactly to the occurrences on either strand",
    "note": "bounded: MC text length <=12; implementation side text length <=130, patterns <=15; TLC's evaluator and "
            "the JSON projection of the harness are trusted",
    "ref": "sec. 5 C06",
}
