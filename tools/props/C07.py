import os
import vlib


def plan(tier):
    q = tier == "quick"

    def pre(ctx):
        out = os.path.join(ctx["workdir"], "avl-behaviours.ndjson")
        n, desc = vlib.emit_behaviours("AvlMC", "AvlGen.cfg" if q else "AvlGen_thorough.cfg", ctx["workdir"], out)
        if n == 0:
            raise vlib.ToolError("no behaviours generated")
        ctx["behaviours"]["avl"] = out
        ctx.setdefault("mc_desc", []).append(desc)

    return {
        "mc": [
            {"module": "AvlMC", "cfg": "AvlMC.cfg" if q else "AvlMC_thorough.cfg", "timeout": 2400},
            {"module": "IITreeMC", "cfg": "IITreeMC.cfg" if q else "IITreeMC_thorough.cfg", "timeout": 2400},
            {"module": "IITreeMC", "cfg": "IITreeMC_LL1.cfg" if q else "IITreeMC_LL1_thorough.cfg", "timeout": 2400},
        ],
        "pre": pre,
        "families": [
            {"fam": "avl", "trace": "IntervalIndexTrace"},
            {"fam": "iitree", "trace": "IntervalIndexTrace"},
            {"fam": "annot", "trace": "IntervalIndexTrace"},
            {"fam": "ivbig", "trace": "IntervalIndexTrace", "shards": 4},
        ],
        "required_obligations": ["annot_lengths_beyond_2p32", "tlc_behaviours_replayed", "ascending", "descending", "many_equal_starts",
                                 "large_tree", "from_iter", "query_unindexed_refused",
                                 "insert_after_index_then_refused", "reindexed",
                                 "interior_levels_above_leaf_level", "query_absent_refid", "empty_tree_indexed_and_queried", "tree_copied_mid_history", "map_copied_mid_history",
                                 "array_tree_half_million_entries", "avl_half_million_entries"],
        "rule": "AVL: transition cover of the TLC state graph of the AVL machine (one behaviour per transition "
                "from every distinct tree shape with <=5 (quick) / <=6 (thorough) intervals over 4 starts x 2 widths) "
                "replayed into the real IntervalTree; the hook shape after EVERY insert must equal the model tree "
                "(payload positions, max, height), find for all queries of the universe, find_mut observed through "
                "its mutation; plus random histories n<=300 (ascending/descending/zig-zag/equal starts/nested). "
                "Array tree: every n in 0..70 and random n<=300, every second query through find_into with a reusable buffer still holding the hits of another tree, hook array (order, every max, max_level) must equal "
                "the model after each index; un-indexed queries refused; re-index after further inserts. "
                "Annotation map: 3 reference ids + an absent one, negative coordinates. Huge trees (2^19 .. 2^20+3 "
                "entries, ascending and descending insertion) are arithmetic families [a*i, a*i+w) whose overlap "
                "sets the spec knows in closed form (lemma checked by TLC against the definition for small n)",
        "bounds": {"mc": "AVL: 4 starts x 2 widths, all histories <=5(6) inserts, 21 queries per state; array tree: "
                         "4 starts x 2(3) widths, <=5(6) inserts interleaved with index, leaf level 0 and 1",
                   "impl": "n<=300 entries, coordinates |x|<=400"},
        "assumptions": ["the hook accessors only read (verif_shape, verif_entries)",
                        "payload ids are unique per run, so bag equality is decided as set equality + equal length"],
    }


MANIFEST = {
    "technique": "TLA+ AVL machine (payload-swapping rotations, pruned DFS) and implicit array-tree machine "
                 "(stable sort, bottom-up max with virtual right spine, explicit-stack query) model-checked by TLC "
                 "against half-open overlap semantics; TLC transition cover replayed into the real trees with the "
                 "hook shape compared to the model after every step; recorded histories validated by TLC",
    "text": "TLC exhausts all insertion histories (<=5/6 over 8 intervals) of both tree machines: balance, ordering, "
            "max/height augmentation, height bound and find = overlap bag for every query; every transition of the "
            "AVL graph is replayed into the real IntervalTree whose hook shape must equal the model tree after "
            "every insert; random histories up to 300 entries, find/find_mut (observed through its mutations), the "
            "array tree's indexed array incl. all max values, refusal of un-indexed queries and the annotation map "
            "are validated event by event against the specification",
    "note": "bounded histories; logarithmic cost is decided as the structural AVL height bound (not time); hook "
            "accessors trusted to be read-only",
    "ref": "sec. 5 C07",
}
