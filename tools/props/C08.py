def plan(tier):
    q = tier == "quick"
    return {
        "mc": [{"module": "ExactMatchMC", "cfg": "ExactMatchMC.cfg" if q else "ExactMatchMC_thorough.cfg",
                "timeout": 1500}],
        "families": [{"fam": "exact", "trace": "ExactMatchTrace"}],
        "required_obligations": ["exhaustive_small", "self_overlap_all_borders", "text_of_a_million_symbols", "pattern_longer_than_65536", "pattern_longer_than_65536_low_bytes", "text_symbols_aliasing_pattern_symbols", "len63", "len64", "len65_refused", "alignment_sweep_len64", "alignment_sweep_pattern_longer_than_256"],
        "rule": "one run = one matcher object (algo,pattern) applied to several texts; exhaustive over {a,b} "
                "(|p|<=4,|t|<=7 quick; 5/9 thorough) for all five matchers, every binary pattern of length 5..9(11) "
                "against all of its self-overlap texts p[..s]+p, plus unary/periodic/random patterns "
                "of the word-size boundary lengths over 1-, 2-, 3- and 256-symbol alphabets with planted occurrences; "
                "alignment sweep: patterns with one rare symbol (lengths 31..64 for the bit-parallel matchers, 64..520 for "
                "the others) planted at every offset, so that every pattern position is once the last symbol of a search window",
        "bounds": {"mc": "W=4, Sym={1,2}, |p|<=4, |t|<=6 (quick) / 8 (thorough), all five machines",
                   "impl": "|p|<=70, |t|<=300, bytes 0..255"},
        "assumptions": ["ndJsonDeserialize/TLC evaluate the TLA+ definition Occ faithfully",
                        "patterns are non-empty (documented precondition)"],
    }


MANIFEST = {
    "technique": "TLA+ machines of the five matchers model-checked by TLC against Occ(p,t); traces of the real "
                 "matchers validated by TLC against the same definition",
    "text": "TLC exhausts all patterns/texts over 2 symbols up to the (scaled) word size for five matcher machines "
            "shaped like the code (registers, windows, tables, progress), and every recorded find_all of the real "
            "matchers (exhaustive small + word-size boundaries + periodic/random over all bytes) must equal the "
            "specification's Occ(p,t)",
    "note": "bounded: MC over W=4, |t|<=6/8; implementation side covers |p|<=70, |t|<=300; TLC's evaluator and "
            "the JSON projection of the harness are trusted",
    "ref": "sec. 5 C08",
}
