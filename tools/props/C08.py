def plan(tier):
    q = tier == "quick"
    return {
        "mc": [{"module": "ExactMatchMC", "cfg": "ExactMatchMC.cfg" if q else "ExactMatchMC_thorough.cfg",
                "timeout": 1500}],
        "families": [{"fam": "exact", "trace": "ExactMatchTrace"}],
        "required_obligations": ["exhaustive_small", "len63", "len64", "len65_refused"],
        "rule": "one run = one matcher object (algo,pattern) applied to several texts; exhaustive over {a,b} "
                "(|p|<=4,|t|<=7 quick; 5/9 thorough) for all five matchers, plus unary/periodic/random patterns "
                "of the word-size boundary lengths over 1-, 2-, 3- and 256-symbol alphabets with planted occurrences",
        "bounds": {"mc": "W=4, Sym={1,2}, |p|<=4, |t|<=6 (quick) / 8 (thorough), all five machines",
                   "impl": "|p|<=70, |t|<=300, bytes 0..255"},
        "assumptions": ["ndJsonDeserialize/TLC evaluate the TLA+ definition Occ faithfully",
                        "patterns are non-empty (documented precondition)"],
    }
