"""C09 -- approximate matchers and distance functions equal the edit-distance definition."""
import sys


def _mc_specs(tier):
    q = tier == "quick"
    if q:
        return [
            {"module": "ApproxMatchMC", "cfg": "ApproxMatchMC.cfg"},
            {"module": "MyersBlockMC", "cfg": "MyersBlockMC.cfg"},
            {"module": "MyersBlockMC", "cfg": "MyersBlockMC_w4.cfg"},
            {"module": "MyersBlockMC", "cfg": "MyersBlockMC_wild.cfg"},
        ]
    return [
        {"module": "ApproxMatchMC", "cfg": "ApproxMatchMC_thorough.cfg"},
        {"module": "MyersBlockMC", "cfg": "MyersBlockMC_thorough.cfg"},
        {"module": "MyersBlockMC", "cfg": "MyersBlockMC_w3_thorough.cfg"},
        {"module": "MyersBlockMC", "cfg": "MyersBlockMC_w4.cfg"},
        {"module": "MyersBlockMC", "cfg": "MyersBlockMC_wild_thorough.cfg"},
    ]


def run_mcs_parallel(specs, ctx):
    """The MC runs of this property are independent and each spends a good part of its time in
    TLC's single-threaded initial-state enumeration: run them side by side (check.py would
    run plan["mc"] one after the other). Skipped with --skip-mc (mutant runs)."""
    if "--skip-mc" in sys.argv:
        return
    import vlib
    from concurrent.futures import ThreadPoolExecutor
    per = max(2, vlib.NCPU // 2)

    def one(spec):
        s = dict(spec)
        s.setdefault("workers", per)
        s.setdefault("timeout", 3000)
        r = vlib.mc_run(s, ctx["workdir"])
        return {"module": s["module"], "cfg": s["cfg"], "distinct_states": r["distinct"],
                "states_generated": r["generated"], "wall_s": round(r["wall"], 1)}

    with ThreadPoolExecutor(max_workers=len(specs)) as ex:
        ctx.setdefault("mc_desc", []).extend(list(ex.map(one, specs)))


def plan(tier):
    q = tier == "quick"
    return {
        "mc": [],
        "pre": lambda ctx: run_mcs_parallel(_mc_specs(tier), ctx),
        "families": [
            {"fam": "myers", "trace": "ApproxMatchTrace", "nfiles": 1 if q else 4},
            {"fam": "ukkonen", "trace": "ApproxMatchTrace", "nfiles": 1 if q else 4},
            {"fam": "dist", "trace": "ApproxMatchTrace", "nfiles": 1 if q else 2},
        ],
        "required_obligations": [
            # myers
            "exhaustive_small", "simple_len_w8", "simple_len_w16", "simple_len_w32", "simple_len_w64",
            "simple_len_w_minus_1", "simple_len_w_plus_1_refused", "ambig", "wildcard", "k_ge_m", "k_255",
            "k_unbounded", "empty_text", "long_block_exact", "long_block_plus_1", "long_3plus_blocks_small_k",
            "long_u64_multi_block", "long_tables", "long_front_loaded_edits", "long_unary_run_to_block_boundary", "long_budget_exhausted_at_seam",
            # guided search (am_blockmodel.rs): rare transitions of the block machine reached, and inputs that
            # tell a perturbed copy of the machine from the machine itself
            "blk_kept_at_k_plus_w_minus_1", "blk_drop_while_growable", "blk_grow_with_carry_plus", "blk_grow_after_drop",
            "blk_distinguishes_drop_threshold_minus_1", "blk_distinguishes_shrink_then_grow",
            "blk_distinguishes_grow_without_carry", "blk_distinguishes_grow_strict",
            "blk_distinguishes_grow_without_neg_carry", "blk_distinguishes_add_offset_sign", "blk_distinguishes_hin_sign",
            # builder / tables on the block-based matcher, builder object reused and re-configured
            "long_wildcard_swept_over_block_seams", "long_ambig_on_block_first_rows", "builder_reused_with_redefinition",
            # objects and iterators as values, other orders, Default/Debug
            "object_cloned_mid_history_both_continue", "clone_from_into_used_object", "same_searches_two_orders",
            "builder_cloned_mid_history", "builder_serde_roundtrip_mid_history", "default_object_exercised",
            "iterator_forked_after_j_items", "iterator_consumed_via_count", "iterator_consumed_via_last",
            "iterator_consumed_via_nth", "iterator_consumed_via_skip", "iterator_consumed_via_step_by",
            "iterator_consumed_via_size_hint",
            "ambiguity_chain_not_transitively_closed", "many_fresh_builders_same_configuration",
            # ukkonen
            "cost_entries_near_u32_max", "cost_nonzero_diagonal", "nonunit_cost", "reuse_mixed_lengths", "capacity_below_m",
            # dist
            "hamming_unequal_refused", "bound_d_minus_1", "bound_d", "bound_u32_max", "empty_string",
            "simd_lane_lengths", "hamming_long",
        ],
        "rule": "myers: one run = one matcher object (single-word u8/u16/u32/u64 or block-based, with/without "
                "ambiguity and wildcard tables) x a group of texts; find_all_end for k in {0,1,2,w-1,w,w+1,m-1,m,m+3,"
                "255,1000,unbounded}, distance, find_best_end; exhaustive over {a,b} (|p|<=3,|t|<=5 quick / 4,6 "
                "thorough) plus |p| in {1,2,w/2+1,w-1,w,w+1(refused)} and 1-5 blocks of u8, u16/u32 blocks, u64 blocks "
                "with |p| in {63,64,65,128,129,200}; texts empty, shorter than p, p, mutated p, planted approximate and "
                "partial copies (for the block version also copies whose edits all lie left of a block boundary) up to "
                "300 symbols; unary runs filling the leading blocks exactly followed by a tail, the text run 1-3 symbols longer (exact hit, k=0) or with one substitution; hits of distance exactly k whose k edits all lie left of a block seam (head v x c^r | B, text v* c^(r+1) B), enumerated over u8/u16 blocks, 2-3 blocks, every seam, k<=3; guided search (texts = truncated occurrence followed by an (in)exact occurrence, every truncation point, k<=2, binary/ternary patterns of 2-3 u8/u16 blocks): inputs on which a transcription of the specification's block machine reaches its rare transitions (block kept at bottom k+w-1, drop while the re-activation condition holds, block appended with carry +1 / directly after a drop) or on which one of 7 perturbed copies of the machine reports other hits; the band profile computed by the transcription is checked by TLC against BlkStep (MODEL-DRIFT if different). ukkonen: one object reused for patterns of different lengths, unit "
                "cost and cost tables with entries 0..3, required classes: non-zero diagonal (a symbol does not match itself) and entries u32::MAX, u32::MAX-1, 2^31, 2^31-1 (forbidden edges; logged as -1 = infinite cost)."
                " MyersBuilder: block-based matchers with a text wildcard swept over every position of an occurrence and an ambiguous "
                "pattern symbol on the first row of every block; ONE builder object re-configured between builds (same ambiguity byte "
                "widened, narrowed, reset; wildcard added), every matcher judged under the call list at build time (last ambig() per byte counts); the builder cloned and sent through serde_json mid-history, all three continue. Chained ambiguity tables that are not transitively closed (X->Y, Y->Z; cycles; longer chains; both declaration orders), each configuration built 33 times from fresh builders (HashMap order differs per builder). Values: every Myers<T> / long::Myers<T> / Ukkonen object is Debug-formatted and clone()d in the middle of its run (Myers also clone_from() into a used object of another pattern kept from an earlier run), the remaining searches are answered in turn by the copies and the original and then repeated in reverse order; long::Myers::default() must refuse or answer like the empty pattern. Iterators: find_all_end results forked by clone() after j items (both tails judged), consumed through count/last/nth/skip/step_by, size_hint checked after n items (Myers and Ukkonen); the text is handed over as slice iterator, filter, flat_map, take_while (inexact size hints) or owned items. dist: all pairs over {a,b} up to "
                "length 3/4, lengths around the SIMD lanes up to 129 (300 thorough), bounds {0,d-1,d,d+1,max-1,max,"
                "max+1,u32::MAX}, Hamming up to 3000 symbols. distinct_nontrivial counts runs (distinct by construction: "
                "own case number and seed stream) in which some threshold selected a non-empty proper subset of the end "
                "positions (myers, ukkonen) resp. 0 < levenshtein < max length (dist), judged from the recorded answers",
        "bounds": {"mc": "Ukkonen machine: Sym={0,1}, |p|<=3/4, |t|<=5, k<=3/5, 3/5 cost tables; Myers block machine: "
                         "W=2 |p|<=5/6 |t|<=4/5, W=3 |p|<=7 |t|<=4 (thorough), W=4 |p|<=4 |t|<=4 (single word), wildcard+"
                         "ambiguity W=2 |p|<=4 |t|<=3/4; k in {-1,0,1,2,|p|} (quick W=2) / every k in -1..|p|+1",
                   "impl": "|p|<=200, |t|<=300, k<=1000 or unbounded, bytes 0..255"},
        "assumptions": ["TLC evaluates the TLA+ definitions (Col/LastRow/Hits/Lev/Hamming) faithfully; "
                        "ndJsonDeserialize reads the recorded values faithfully",
                        "patterns are non-empty; distance()/find_best_end() are only asked on non-empty texts (the "
                        "minimum over all end positions needs an end position)",
                        "integers >= 2^31 in results (usize::MAX sentinels) are projected to -2 by the harness",
                        "Ukkonen thresholds k <= 255 (k+1 must not overflow usize)"],
    }


MANIFEST = {
    "technique": "TLA+ definition of the edit matrix with an equality/cost relation (hits, best end, Levenshtein, Hamming); "
                 "Ukkonen's cut-off column machine and Myers' bit-vector machine over W-bit blocks (Pv/Mv words, carries, "
                 "lazy block activation) model-checked by TLC against it; traces of the real Myers (8 instantiations), "
                 "Ukkonen and distance functions validated by TLC against the same definition",
    "text": "TLC exhausts all patterns/texts over 2 symbols (|p| up to 2-3 blocks of the scaled word size, every k incl. "
            "unbounded, cost tables with entries 0..3, wildcard and ambiguity masks) for the Ukkonen and Myers block "
            "machines: reported hits = Hits of the edit matrix, lastk/active rows exact wherever <= k; and every "
            "recorded find_all_end / distance / find_best_end / hamming / levenshtein / simd / bounded result of the "
            "real code (exhaustive small, word-size and block boundaries for u8..u64, k up to unbounded, ambiguity and "
            "wildcard tables, object reuse) must equal the definition",
    "note": "bounded: MC over W<=4 with |p|<=7, |t|<=5; implementation side |p|<=200, |t|<=300; TLC's evaluator and the "
            "JSON projection of the harness are trusted; found and fixed: long::Myers distance()/find_best_end() "
            "overflow on multi-block patterns (2cc6187)",
    "ref": "sec. 5 C09",
}
