"""C10 -- Myers traceback yields valid alignments consistent across all its APIs."""


import os


def plan(tier):
    q = tier == "quick"

    mcs = [{"module": "MyersTbMC", "cfg": "MyersTbMC.cfg" if q else "MyersTbMC_thorough.cfg"},
           {"module": "MyersBandMC", "cfg": "MyersBandMC.cfg" if q else "MyersBandMC_thorough.cfg"}]
    if not q:
        mcs.append({"module": "MyersBandMC", "cfg": "MyersBandMC_garbage1_thorough.cfg"})

    def pre(ctx):
        from props.C09 import run_mcs_parallel
        run_mcs_parallel(mcs, ctx)
        # spec -> impl: every history of 3 (4) calls of the protocol machine, replayed into the real matchers
        import vlib
        out = os.path.join(ctx["workdir"], "myers-proto-behaviours.ndjson")
        n, desc = vlib.emit_behaviours("MyersProtoMC", "MyersProtoGen.cfg" if q else "MyersProtoGen_thorough.cfg",
                                       ctx["workdir"], out)
        if n == 0:
            raise vlib.ToolError("no behaviours generated")
        ctx["behaviours"]["myers_tb"] = out
        ctx.setdefault("mc_desc", []).append(desc)

    return {
        "pre": pre,
        "mc": [],          # run side by side in `pre` (see props/C09.py: run_mcs_parallel)
        "families": [{"fam": "myers_tb", "trace": "MyersTbTrace", "nfiles": 1 if q else 4}],
        "required_obligations": [
            "tlc_behaviours_replayed", "exhaustive_small", "eager_hit_queried", "lazy_hit_queried", "lazy_frontier_plus_1",
            "lazy_simple_any_searched_end", "simple_and_long_side_by_side", "simple_len_w",
            "long_block_exact_multi", "long_block_plus_1", "ring_wrap_long_text",
            "reuse_big_then_small_then_lazy", "eager_stretched_alignment", "k_ge_m", "leading_insertions_text", "tables",
            "reuse_guard_column_leading_insertions_over_one_block", "budget_exhausted_at_seam", "unary_run_to_block_boundary",
            "aln_recycled_from_other_pattern_length", "aln_prefilled_garbage_semiglobal", "aln_prefilled_garbage_other_mode",
            "aln_recycled_longer_operations_vector", "builder_reused_with_redefinition",
            "ambiguity_chain_not_transitively_closed", "many_fresh_builders_same_configuration",
            "lazy_hit_starting_at_text_position_0_simple", "lazy_hit_starting_at_text_position_0_long",
            "object_cloned_mid_history_both_continue", "clone_from_into_used_object", "same_searches_two_orders",
            "builder_cloned_mid_history", "builder_serde_roundtrip_mid_history",
            "iterator_consumed_via_count", "iterator_consumed_via_last", "iterator_consumed_via_nth",
            "iterator_consumed_via_skip", "iterator_consumed_via_step_by", "iterator_consumed_via_size_hint",
            "blk_kept_at_k_plus_w_minus_1", "blk_drop_while_growable", "blk_grow_after_drop",
            "blk_distinguishes_drop_threshold_minus_1", "blk_distinguishes_shrink_then_grow", "blk_distinguishes_grow_without_carry",
        ],
        "rule": "spec->impl: every history of 3 (thorough: 4) calls that TLC generates from the protocol machine "
                "MyersProtoMC (next*/start/path/alignment, lazy_next/hit_at/path_at/alignment_at at hits seen and at the "
                "frontier) for all patterns |p|<=2, texts |t|=3 (3..4), k<=1, replayed on a single-word and a "
                "block-based object, every fourth one after a larger search on the same objects. impl->spec: "
                "one run = one pattern with a single-word and a block-based matcher object, each reused for the same "
                "sequence of searches (text, k, eager|lazy); eager: next/next_end/next_path(_reverse)/next_alignment mixed, "
                "start/path(_reverse)/alignment of the current hit (repeated, and after the end); lazy: iteration in "
                "bursts with hit_at/path_at(_reverse)/alignment_at at ends of hits seen so far in ascending, descending, "
                "random order and repeated, at searched+1, |t|-1, |t|, |t|+3 (refused when not searched) and - single-word "
                "version - at arbitrary searched ends; exhaustive over {a,b} (|p|<=3, |t|<=4/5, every k<=|p|) plus "
                "|p| in {3,5,7,8,9,15,16,17,24,32,33,40,63,64,65,100} with u8..u64 words, texts of 100-120 symbols (ring "
                "buffer wraps), texts beginning inside the pattern, the pattern stretched by d inserted symbols with k=d+1 (alignments as long as the ring buffer allows), k>=|p|, k=255, stale store after a larger search; reuse after an eager search over a text disjoint from the pattern's alphabet followed by hits at text position 0 with more than one block of leading insertions (2-3 blocks, u8/u16); hits of distance exactly k whose edits all lie left of a block seam (head v x c^r | B against v* c^(r+1) B, enumerated over u8/u16 blocks, seams, k<=3, r<=3); unary runs filling the leading blocks with a longer run in the text (k=0) or one substitution; inputs found by the guided search of the block machine's rare transitions (see C09), searched eagerly and lazily by both implementations. ONE Alignment object is handed to every next_alignment / alignment / alignment_at call of a driver process (it travels between matchers of other pattern lengths and the other implementation, between eager and lazy API; every third call it is first overwritten with garbage in all fields incl. mode Semiglobal/Local/Custom/Global and 50 operations): all fields of the result must be right. ONE MyersBuilder re-configured between builds (same ambiguity byte widened, narrowed, reset; wildcard added), ambiguous symbols on block first rows, single-word and block-based matcher built after every stage; the builder cloned / sent through serde_json mid-history. Chained ambiguity tables that are not transitively closed, both declaration orders, 33 fresh builders per configuration with a single-word and a block-based matcher each; lazy hits whose alignment starts at text position 0 queried through hit_at/path_at/alignment_at (required for both implementations). Values (class ov, all word types): after half of the searches every matcher is Debug-formatted, clone()d and clone_from()-ed into a used object of another pattern; the second half runs on originals, clones and clone_from targets, then the first half again in reverse order; fresh find_all / find_all_lazy iterators consumed through count/last/nth/skip/step_by (every item's start, end, distance judged) and size_hint after n items. distinct_nontrivial counts searches (object, text, k, mode) "
                "in which some reported path mixes matches and edits",
        "bounds": {"mc": "store machine: Sym={0,1}, |p|<=3, |t|<=4/5, k<=3, eager and lazy, second search after two first "
                         "searches; banded store of the block version: W=2, |p|<=5/6, |t|<=4/5, k in {-1,0,1,2,|p|} / every k; "
                         "protocol machine: |p|<=2, |t|=3 / 3..4, k<=1, all histories of 3/4 calls",
                   "impl": "|p|<=100, |t|<=120, k<=255"},
        "assumptions": ["TLC evaluates ValidPath/LastRow/GlobalDist faithfully; ndJsonDeserialize reads the recorded "
                        "values faithfully",
                        "lazy *_at queries of the block-based version are only made at ends of hits (its documentation: "
                        "the end position of a hit); the single-word version is also asked at arbitrary searched ends",
                        "start()/path()/alignment() are not asked before the first next*() call",
                        "consistency is demanded per (text, k, end): same start and same path from every API, repetition, "
                        "order and implementation"],
    }


MANIFEST = {
    "technique": "TLA+ machine of the traceback column store (ring buffer / full history, sentinel column, stale slots "
                 "after reuse, frontier test of traceback_at, cursor walk; for the block version the band-truncated columns "
                 "with their sentinel block) model-checked by TLC against ValidHit and the walk on the complete edit matrix; "
                 "TLC-generated call histories of the protocol machine replayed into the code; traces of the real eager and lazy APIs of both Myers implementations "
                 "validated by TLC: protocol machine with `searched` frontier, path validity, cross-API consistency",
    "text": "TLC exhausts all patterns/texts over 2 symbols (|p|<=3, |t|<=4/5, k<=3, eager and lazy, a second search on "
            "the stale store): every traceback reads only fresh, correctly placed columns, is a ValidHit and equals the "
            "walk on the full matrix, and traceback_at refuses exactly the unsearched ends; every recorded answer of the "
            "real FullMatches/LazyMatches APIs (single-word and block-based side by side, reuse, ring wrap-around, k>=|p|) "
            "must be the next hit of the definition, a path that consumes exactly pattern and substring with Match/Subst "
            "labels right and cost = distance = D[m][end], identical for every API/order/repetition/implementation, "
            "and None beyond the searched frontier",
    "note": "bounded: MC over |p|<=3, |t|<=5; implementation side |p|<=100, |t|<=120; block-version lazy queries at "
            "searched non-hit ends are outside the documented domain and not asked; TLC's evaluator and the JSON "
            "projection of the harness are trusted",
    "ref": "sec. 5 C10",
}
