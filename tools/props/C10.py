"""C10 -- Myers traceback yields valid alignments consistent across all its APIs."""


def plan(tier):
    q = tier == "quick"
    return {
        "mc": [{"module": "MyersTbMC", "cfg": "MyersTbMC.cfg" if q else "MyersTbMC_thorough.cfg", "timeout": 3000}],
        "families": [{"fam": "myers_tb", "trace": "MyersTbTrace", "nfiles": 1 if q else 4}],
        "required_obligations": [
            "exhaustive_small", "eager_hit_queried", "lazy_hit_queried", "lazy_frontier_plus_1",
            "lazy_simple_any_searched_end", "simple_and_long_side_by_side", "simple_len_w",
            "long_block_exact_multi", "long_block_plus_1", "ring_wrap_long_text",
            "reuse_big_then_small_then_lazy", "k_ge_m", "leading_insertions_text", "tables",
        ],
        "rule": "one run = one pattern with a single-word and a block-based matcher object, each reused for the same "
                "sequence of searches (text, k, eager|lazy); eager: next/next_end/next_path(_reverse)/next_alignment mixed, "
                "start/path(_reverse)/alignment of the current hit (repeated, and after the end); lazy: iteration in "
                "bursts with hit_at/path_at(_reverse)/alignment_at at ends of hits seen so far in ascending, descending, "
                "random order and repeated, at searched+1, |t|-1, |t|, |t|+3 (refused when not searched) and - single-word "
                "version - at arbitrary searched ends; exhaustive over {a,b} (|p|<=3, |t|<=4/5, every k<=|p|) plus "
                "|p| in {3,5,7,8,9,15,16,17,24,32,33,40,63,64,65,100} with u8..u64 words, texts of 100-120 symbols (ring "
                "buffer wraps), texts beginning inside the pattern, k>=|p|, k=255, stale store after a larger search",
        "bounds": {"mc": "Sym={0,1}, |p|<=3, |t|<=4/6, k<=3/4, eager and lazy, second search after two first searches",
                   "impl": "|p|<=100, |t|<=120, k<=255"},
        "assumptions": ["TLC evaluates ValidPath/LastRow/GlobalDist faithfully; ndJsonDeserialize reads the recorded "
                        "values faithfully",
                        "lazy *_at queries of the block-based version are only made at ends of hits (its documentation: "
                        "the end position of a hit); the single-word version is also asked at arbitrary searched ends",
                        "start()/path()/alignment() are not asked before the first next*() call",
                        "consistency is demanded per (text, k, end): same start and same path from every API, repetition, "
                        "order and implementation"],
    }


MANIFEST = {
    "technique": "TLA+ machine of the traceback column store (ring buffer / full history, sentinel column, stale slots "
                 "after reuse, frontier test of traceback_at, cursor walk) model-checked by TLC against ValidHit and the "
                 "walk on the complete edit matrix; traces of the real eager and lazy APIs of both Myers implementations "
                 "validated by TLC: protocol machine with `searched` frontier, path validity, cross-API consistency",
    "text": "TLC exhausts all patterns/texts over 2 symbols (|p|<=3, |t|<=4/6, k<=3/4, eager and lazy, a second search on "
            "the stale store): every traceback reads only fresh, correctly placed columns, is a ValidHit and equals the "
            "walk on the full matrix, and traceback_at refuses exactly the unsearched ends; every recorded answer of the "
            "real FullMatches/LazyMatches APIs (single-word and block-based side by side, reuse, ring wrap-around, k>=|p|) "
            "must be the next hit of the definition, a path that consumes exactly pattern and substring with Match/Subst "
            "labels right and cost = distance = D[m][end], identical for every API/order/repetition/implementation, "
            "and None beyond the searched frontier",
    "note": "bounded: MC over |p|<=3, |t|<=6; implementation side |p|<=100, |t|<=120; block-version lazy queries at "
            "searched non-hit ends are outside the documented domain and not asked; TLC's evaluator and the JSON "
            "projection of the harness are trusted",
    "ref": "sec. 5 C10",
}
