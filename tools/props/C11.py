import os

# a parser call takes microseconds; a hang (the property says "never loops forever") must cost seconds
os.environ.setdefault("VERIF_CALL_TIMEOUT_MS", "4000")


def plan(tier):
    q = tier == "quick"
    return {
        "mc": [{"module": "FastxIOMC", "cfg": "FastxIOMC.cfg" if q else "FastxIOMC_thorough.cfg",
                "timeout": 3000}],
        "families": [{"fam": "fastx", "trace": "FastxIOTrace", "nfiles": 4 if q else 8}],
        "required_obligations": [
            "tok_exhaustive", "line_tokens_exhaustive", "tok_long", "rt_fasta", "rt_fastq", "empty_list",
            "writer_sink_short_writes_beyond_capacity", "writer_default_capacity_exceeded_short_sink",
            "sniff_at_nonzero_offset", "sniff_seek_at_offset", "sniff_get_kind_at_offset", "sniff_after_consuming",
            "sniff_second_block_same_format", "header_unicode_whitespace",
            "records_as_copies_clone_serde_clone_from", "read_then_records_on_one_reader",
            "reads0_then_records", "reads1_then_records", "reads2_then_records", "reads3_then_records",
            "fresh_writer_after_another_writers_hard_error", "hard_error_in_wrapped_block_then_wrapped_write",
            "hard_error_swept_over_every_byte_of_the_record",
            "records_through_nth_step_by_count_last", "reader_from_file", "either_from_file_and_get_kind_file",
            "writer_from_bufwriter", "writer_to_file_flush", "writer_to_file_dropped_unflushed",
            "io_interrupted_reads", "io_interrupted_before_first_byte", "io_interrupted_twice_in_a_row",
            "sniffer_first_read_interrupted", "sink_interrupted_writes", "error_path_multibyte_at_every_offset",
            "cap1", "cap8192", "sched_all1", "sched_line_end", "wrap1", "wrap_eq_len", "wrap_len_plus1",
            "fastq_multiline", "crlf", "cut", "cut_all_offsets", "either_fasta", "either_fastq",
            "desc_with_whitespace", "qual_lead_at", "qual_lead_plus", "damaged", "arbitrary_ascii",
            "invalid_utf8", "nonascii_utf8"],
        # counted as well, but not required (they depend on what the code answers, a mutant may silence them):
        # err_fasta_fmt, err_missing_at, err_incomplete, err_utf8, record_after_error, check_fails
        "rule": "one run = one record list (or a batch of raw inputs); one event = one writer call or one complete "
                "iteration of fasta::Records / fastq::Records / fastx::EitherRecords (or the read() loop) over "
                "BufReader(cap in {1,2,3,5,16,8192}) over a scripted reader (1-byte, random, line-aligned, unlimited "
                "chunks): every string over 9 tokens up to 4 (quick) / 5 (thorough) bytes, every sequence of up to "
                "4 / 5 lines over 8 line tokens, random token soup, valid record lists (<= 6 records, printable ASCII) "
                "written by the real writers (also through BufWriters of capacity 1..64 / 8192 into sinks that accept only "
                "1, 7 or 4096 bytes per write() call, with records longer than the capacity), re-wrapped {None,1,2,7,60,len,len+1}, CRLF, every cut offset of small "
                "streams and line-end cuts of large ones, the sniffer (get_kind_seek twice / get_kind) on a seekable "
                "source positioned at a non-zero offset (a block of the other format, the same block, or junk in "
                "front; offset reached by seek or by consuming bytes) followed by the selected reader, headers with "
                "multi-byte Unicode white space, damaged valid streams, arbitrary ASCII / non-ASCII / "
                "invalid UTF-8 bytes",
        "bounds": {"mc": "token alphabet {> @ + space CR LF A !}, all strings <= 5 (quick) / 6 (thorough) bytes through "
                         "the FASTA, FASTQ and sniffer machines; all lists of <= 2 tiny valid records x wraps 0..2/3 x "
                         "LF/CRLF x every cut offset x {direct, sniffer}; BufReader/read_line model over {LF,CR,A} "
                         "strings <= 5/7 bytes, capacities 1..3/4, all fill schedules",
                   "impl": "streams <= ~2.5 kB, sequences <= 120 (quick) / 300 (thorough), <= 6 records"},
        "assumptions": [
            "std BufRead::read_line / BufReader are trusted (modelled separately: kind 'lines' of FastxIOMC)",
            "the exact clause covers ASCII input (Rust white space restricted to ASCII = {9,10,11,12,13,32}); for "
            "non-ASCII or invalid UTF-8 bytes only 'returns, no panic, ends within |bytes|+2 items' is required",
            "validity of generated records: id non-empty without white space; description absent or non-empty, no "
            "CR/LF/VT/FF, no trailing white space; sequence non-empty without white space, FASTA: no '>', FASTQ: not "
            "starting with '+' (no '+' at all when written multi-line); quality same length, printable ASCII",
            "liveness on the code is a watchdog observation (every call returns; iteration bounded by |bytes|+3)"],
    }


MANIFEST = {
    "technique": "TLA+ parser machines (look-ahead line, line counter, sniffer, BufReader/read_line) model-checked by "
                 "TLC against a functional definition of the outcome sequence and the writers' wire format; every "
                 "recorded iteration of the real readers validated by TLC against the same definition",
    "text": "TLC exhausts all token strings up to 5/6 bytes through FASTA, FASTQ and sniffer machines shaped like the "
            "code (totality, progress measure, agreement with the functional definition) and all tiny record lists x "
            "wrap x LF/CRLF x cut offset (round trip, layout independence, sniffer, truncation clauses); every "
            "recorded outcome sequence of fasta::Records, fastq::Records, fastx::EitherRecords under varied BufReader "
            "capacities and scripted short reads must equal the definition, which depends on the bytes only",
    "note": "bounded: MC over an 8-token alphabet and <= 2 tiny records; implementation side exact for ASCII input, "
            "totality only for non-ASCII bytes; std read_line trusted; termination on the code is a watchdog "
            "observation",
    "ref": "sec. 5 C11",
}
