def plan(tier):
    q = tier == "quick"
    return {
        "mc": [{"module": "FastxIOMC", "cfg": "FastxIOMC.cfg" if q else "FastxIOMC_thorough.cfg",
                "timeout": 3000}],
        "families": [{"fam": "fastx", "trace": "FastxIOTrace", "nfiles": 4}],
        "required_obligations": [],
        "rule": "",
        "bounds": {},
        "assumptions": [],
    }


MANIFEST = None
