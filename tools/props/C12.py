import os
import vlib


def plan(tier):
    q = tier == "quick"

    def pre(ctx):
        # spec -> impl: every completed read of the (tiny) IndexedFasta machine, with its fill schedule
        out = os.path.join(ctx["workdir"], "faidx-behaviours.ndjson")
        n, desc = vlib.emit_behaviours("IndexedFastaMC", "IndexedFastaGen.cfg" if q else "IndexedFastaGen_thorough.cfg",
                                       ctx["workdir"], out)
        if n == 0:
            raise vlib.ToolError("no behaviours generated")
        ctx["behaviours"]["faidx"] = out
        ctx.setdefault("mc_desc", []).append(desc)

    return {
        "pre": pre,
        "mc": [{"module": "IndexedFastaMC", "cfg": "IndexedFastaMC.cfg" if q else "IndexedFastaMC_thorough.cfg",
                "timeout": 3000},
               {"module": "IndexedFastaMC", "cfg": "IndexedFastaMC_hist.cfg" if q else "IndexedFastaMC_hist_thorough.cfg",
                "timeout": 3000},
               {"module": "IndexedFastaSharedMC",
                "cfg": "IndexedFastaSharedMC.cfg" if q else "IndexedFastaSharedMC_thorough.cfg", "timeout": 3000}],
        "families": [{"fam": "faidx", "trace": "IndexedFastaTrace", "nfiles": 4 if q else 8}],
        "required_obligations": [
            "tlc_behaviours_replayed", "small_exhaustive", "multi_record", "w1", "w_eq_len", "w_gt_len", "crlf", "lf",
            "start_eq_stop", "stop_eq_len", "at_line_boundary", "long_interval", "interval_invalid",
            "read_without_fetch", "unknown_name", "unknown_rid", "fetch_by_rid", "fetch_all", "fetch_fetch_read",
            "read_twice", "buf_path", "iter_path", "iter_partial_take", "iter_buffer_cap_512",
            "line_longer_than_bufreader", "sched_1byte", "sched_line_aligned", "sched_full",
            "trunc_in_header", "trunc_in_region", "trunc_in_terminator", "trunc_after_region",
            "adjacent_windows_line_aligned_seam", "adjacent_seam_from_tlc_behaviour", "adjacent_seam_at_8k_boundary",
            "adjacent_seam_between_cr_and_lf", "bufreader_seam_on_line_end_then_adjacent",
            "empty_interval_into_dirty_buffer", "reader_new", "reader_with_index", "reader_with_cloned_index",
            "reader_with_serde_index", "read_iter_through_nth", "read_iter_through_step_by", "fetch_set_in_two_orders", "from_file_non_utf8_path", "from_file_unusual_path",
            "index_promises_more_than_the_file_holds_huge", "index_promises_more_than_the_file_holds", "name_first_byte_sweep", "name_with_csv_special_first_byte",
            "index_from_file", "shared_cursor_two_readers", "shared_cursor_adjacent_window_after_foreign_read",
            "fetch_beyond_4GiB", "line_number_beyond_2_32", "big_control_below_4GiB",
            "virtual_generator_small_dump"],
        # counted as well, but not required (they depend on what the code answers, a mutant may silence them):
        # several_fills_in_one_read, truncation_error_seen, iter_error_item_seen
        "rule": "one run = one IndexedReader object over one (possibly cut) file behind a scripted reader; one event = "
                "one public call (open, fetch*, read, read_iter) with the seeks and read() sizes it caused: every "
                "completed read of the TLC state graph of the machine (len <= 3/4, widths 1..2/3, Cap 3: file, cut, "
                "fetch, path, exact fill sizes) replayed into the real reader, each completed buffer read followed by the "
                "ADJACENT window (next start = previous stop; the model marks the behaviours that leave the source in "
                "front of / inside the line terminator); full-buffer reads whose 8 KiB seam is swept over every byte "
                "around a line end, then the adjacent window; all files "
                "with len <= 4 (quick) / 7 (thorough), width 1..3 / 1..4, LF/CRLF, one or two records x every cut "
                "offset x every interval x both read paths x 7 fill schedules; random files (<= 4 records, len <= "
                "3000, widths {1,2,7,60,61,511,512,513,1000,len,len+k}) with boundary intervals, refusals, fetch/read "
                "histories, abandoned iterators and aimed truncation classes; lines longer than the 8 KiB BufReader; "
                "record names whose first byte sweeps all printable ASCII (also inside and as the whole name), index "
                "from Index::new and from IndexedReader::from_file, every record by name and by number; two "
                "IndexedReaders over File::try_clone handles of one file (one OS cursor), interleaved fetch/read "
                "histories with adjacent windows; "
                "closed-form virtual files (never materialised) of up to 5*10^9 bases, widths 60 / 7 / 1, LF/CRLF: "
                "fetches whose byte offset is just below / at / above 2^32 and whose line number is >= 2^32, both "
                "read paths, expected slice by the closed form BigExpected (positions as pairs hi*10^6+lo)",
        "bounds": {"mc": "len <= 6 / 9, widths 1..3 / 1..4, LF/CRLF, Cap = 4 (code: 8192), ICap = 2 (code: 512), every "
                         "cut, every (start, stop) incl. invalid, both paths, all fill schedules; histories of 2 / 3 "
                         "fetches on smaller files; two readers on one shared cursor (len <= 2/4, width 2, Cap 3, 3 fetches)",
                   "impl": "len <= 3000 (<= 150 lines per record), line width <= 9000, <= 4 records"},
        "assumptions": [
            "std BufReader (fill_buf only on an empty buffer, seek(Start) discards the buffer) is trusted; its "
            "behaviour is part of the replayed environment model",
            "a failed fetch leaves the previous selection in place (as the code does); the property is silent there",
            "sequence names are unique, line width >= 1 (documented preconditions)",
            "liveness on the code is a watchdog observation"],
    }


MANIFEST = {
    "technique": "TLA+ machine of IndexedReader (fetch protocol, seek arithmetic, BufReader fills as environment "
                 "steps, read_line, bounded iterator buffer) model-checked by TLC against the slice / truncation "
                 "definition; recorded calls of the real reader incl. their seeks and read() sizes replayed through "
                 "the same machine and judged by the same definition",
    "text": "TLC exhausts all small files (len <= 6/9, width 1..3/4, LF/CRLF), cuts, intervals, fill schedules and "
            "both read paths: delivered data is always a prefix of seq[start..stop), exact on success, error iff the "
            "file ends before the last needed base, every step consumes a byte; every recorded fetch/read/read_iter "
            "of the real IndexedReader (systematic small files x every cut, random files with boundary widths and "
            "intervals, histories, truncation classes, 8 KiB-crossing lines) must be explained by that machine "
            "(seek offset, each underlying read as a Fill step) and equal the definition",
    "note": "bounded: MC with scaled buffer capacities (4 / 2 instead of 8192 / 512); implementation side len <= 3000; "
            "std BufReader trusted; termination on the code is a watchdog observation",
    "ref": "sec. 5 C12",
}
