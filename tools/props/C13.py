def plan(tier):
    q = tier == "quick"
    return {
        "mc": [{"module": "TabularMC", "cfg": "TabularMC.cfg" if q else "TabularMC_thorough.cfg", "timeout": 2400}],
        "families": [{"fam": "gff", "trace": "TabularTrace"}, {"fam": "bed", "trace": "TabularTrace"}],
        "required_obligations": [
            # gff
            "gff3", "gff2", "gtf2", "multi_valued", "repeated_value", "attrs_empty", "score_dot", "strand_dot",
            "phase_dot", "phase_num", "u64_max", "attr_exhaustive",
            # faults (both families)
            "del_byte", "rep_byte", "drop_col", "bad_coord", "bad_phase", "truncate", "comment_line", "empty_line",
            "extra_col", "wild",
            # bed
            "bed_k0", "bed_k1", "bed_k2", "bed_k9", "bed_mixed_k", "bed_empty_aux",
            # columns containing double quotes (csv quoting): judged by parsed == written only
            "bed_quote_first", "bed_quote_inner", "gff_quote_columns",
            # file based API (to_file / from_file): rewriting a path with a shorter list; %XX-like values
            # comment lines with arbitrary content; exhaustive CSV-hostile strings
            "bed_comment_arbitrary_content", "gff_comment_arbitrary_content", "comment_first_line",
            "comment_last_line", "comment_between_lines", "csv_hostile_exhaustive", "bed_quote_and_backslash",
            "gff_hostile_attribute_atom",
            # Record API as values: setters twice, copies mid-history, every accessor, iterator adaptors
            "bed_setter_twice", "bed_record_clone_mid_history", "bed_record_clone_from", "bed_record_serde",
            "bed_record_default", "gff_setter_twice", "gff_record_clone_mid_history", "gff_record_clone_from",
            "gff_record_default", "gff_score_accessor_numeric", "records_iterator_adaptors",
            "gff_attribute_keys_differing_in_case_only",
            "bed_file_rewrite_shorter", "gff_file_rewrite_shorter", "gff_percent_escape_like_value",
        ],
        "rule": "file histories: Writer::to_file / Reader::from_file on one path, R1, shorter R2, empty, longer R4, each "
                "read back (state of a path = records last written); one run = one file: records -> real writer -> bytes -> real reader (exact), then the same bytes "
                "under two modelled faults and one arbitrary-byte fault; plus every attribute column over a "
                "7-symbol alphabet (a ' \" = ; , space) up to length 4 and a rotating third of length 5 (thorough: "
                "all up to length 6) per dialect",
        "bounds": {"mc": "attribute multimaps <= 2 keys x <= 2 (3 thorough) values over 3 atoms, 3 dialects, both writer "
                         "variants; scanner vs ParseAttrs on all strings over 7 symbols up to length 4 (5 thorough)",
                   "impl": "1-5 records per file, 0-5 attribute keys with 1-4 values, BED k in 0..9, u64 extremes, "
                           "printable ASCII without double quote"},
        "assumptions": ["harness conversions only: String <-> byte array, u64 -> decimal digits; fault injection is "
                        "environment (bytes in, bytes out), never an expected value",
                        "csv crate semantics are trusted base: tab separated, '#' comment lines and empty lines "
                        "skipped, integers parsed by u64::from_str (0x-prefixed hex integers are left "
                        "unconstrained); BED: column count fixed by the first record (uniform files); GFF: exactly "
                        "9 columns per record",
                        "csv quoting is outside the byte-level wire model: records whose BED columns / plain GFF "
                        "columns contain double quotes (first position, fully quoted, inner, trailing) are judged "
                        "by parsed == written only (mode rt); corrupted files with quotes / CR / non-UTF-8 bytes "
                        "only for totality (mode wild); GFF attribute keys / values stay without double quotes "
                        "(the reader strips quotes from them by design)"],
    }


MANIFEST = {
    "technique": "TLA+ token-level wire model of BED / GFF3 / GFF2 / GTF2 (reference line parsers, attribute regular "
                 "expression as a scanner machine, attribute writer machine) model-checked by TLC; real writers and "
                 "readers driven on random records, corrupted files and exhaustive attribute columns, every event "
                 "validated by TLC against the model",
    "text": "TLC proves the write-scan round trip of attribute multimaps for all three dialects on all small "
            "multimaps and the equality of the byte-by-byte scanner with the definition of the attribute regular "
            "expression on all short strings; on the implementation side every written line must be a serialization "
            "of its record, every parsed record must equal the written one (all values of multi-valued attributes, "
            "order per key), and every line of a corrupted file must be Ok with exactly the reference fields or Err "
            "(bad numbers, wrong column count, invalid phase), never a panic",
    "note": "bounded: small multimaps / short strings in MC; files of <= 5 records on the implementation side; csv "
            "quoting (double quotes, CR) only checked for totality; conformance of the written bytes to the wire "
            "model and the meaning of malformed attribute columns are machine-layer facts (MODEL-DRIFT, not a verdict)",
    "ref": "sec. 5 C13",
}
