def plan(tier):
    q = tier == "quick"
    mc = [{"module": "HmmMC", "cfg": "HmmMC.cfg" if q else "HmmMC_thorough.cfg", "timeout": 2400},
          {"module": "HmmExpMC", "cfg": "HmmExpMC.cfg" if q else "HmmExpMC_thorough.cfg", "timeout": 2400},
          # lemma run: closed forms of the decoupled-chains family = general definition
          {"module": "HmmExpMC", "cfg": "HmmExpMC_dec.cfg" if q else "HmmExpMC_dec_thorough.cfg", "timeout": 2400},
          # lemma run: closed form of the cycle family = general definition (s = 3, 4)
          {"module": "HmmExpMC", "cfg": "HmmExpMC_cyc.cfg" if q else "HmmExpMC_cyc_thorough.cfg", "timeout": 2400}]
    if not q:
        mc.append({"module": "HmmMC", "cfg": "HmmMC_s3.cfg", "timeout": 2400})
    return {
        "mc": mc,
        "families": [{"fam": "hmm", "trace": "HmmTrace"}, {"fam": "hmmx", "trace": "HmmExpTrace"}],
        "required_obligations": ["mc_family", "layout_column_major", "model_cloned_mid_use",
                                 "obs_order_reversed", "obs_repeated_at_end",
                                 # every constructor of both model types, with / without end distribution
                                 "ctor_plain_float", "ctor_plain_prob", "ctor_plain_log",
                                 "ctor_optend_none_float", "ctor_optend_none_prob", "ctor_optend_none_log",
                                 "ctor_optend_some_float", "ctor_optend_some_prob", "ctor_optend_some_log", "t1", "end_dist", "end_zero", "substochastic", "den10", "impossible_obs",
                                 "unreachable_state", "ties", "long_t", "single_state",
                                 # power-of-two class (hmmx): optimum on both sides of -500 nats
                                 "exp_optimum_above_500", "exp_optimum_below_500", "exp_straddle_500",
                                 "exp_zero_entries", "exp_ties",
                                 "logsum_spread_in_fastexp_window", "logsum_spread_beyond_window",
                                 "more_than_256_states", "logsum_spread_709_78_to_710_nats", "subnormal_probability_entry",
                                 "decoupled_takeover_beyond_500_nats", "decoupled_takeover_below_500_nats"],
        "rule": "configuration dimensions: three constructors x {plain, opt_end without, opt_end with end} and the memory "
                "layout of the matrices handed to them (row major, column major, strided copy: same values); spec->impl: the S=2,M=2,Den=2 model family of the MC run x all observation sequences T<=3 replayed "
                "into the real code (quick: 1/8 of it); impl->spec: one run = one model object (plain / opt_end without / opt_end with end distribution; three "
                "constructors) used for 2-5 observation sequences, each decoded by viterbi, forward and backward",
        "bounds": {"mc": "S=2, M=2, Den=2, T<=3, all sub-stochastic transition rows (quick: reduced emission/"
                         "initial/end families; thorough: all emission/initial rows, two end vectors + none, plus S=3,M=1 "
                         "stochastic); (min,+) exponent Viterbi machine: S=2, M=1, T<=3, exponents {zero,0,1} (thorough "
                         "{zero,0,1,3}), with/without end vector",
                   "impl": "S<=4, M<=3, Den in {2,3,4,5,10}, T<=4 (T<=14 for small Den), Den^(2T+1) <= 2^30, "
                           "S^T <= 4096 (quick) / 16384 (thorough); power-of-two class: exponents 0..300 or zero, "
                           "S<=4, T<=6, S^T <= 256, joint log-probabilities from 0 down to about -2700 nats; "
                           "closed-form cycle family with S in {257, 300, 1000}, T<=20 (only parameters are recorded; "
                           "unique optimum known in closed form, lemma model-checked for s = 3, 4); closed-form "
                           "decoupled-chains family (2-3 chains, observations a^n b / a^n with n up to 2000, column "
                           "dynamic range 400 .. 2000 bits, the dominant chain dying at the end; lemma model-checked "
                           "for T <= 3 / 4)"},
        "assumptions": ["harness projection (the only arithmetic it does): numerator k -> f64 k/den on input; "
                        "log-probability lp -> round(exp(lp)*den^(2T+1)) on output, with flags nan/posinf/neginf "
                        "(exact for scales <= 2e9)",
                        "power-of-two class (hmmx): exponent e -> f64 2^-e on input (exact); output x = -ln p / ln 2, "
                        "viterbi as round(x) with the deviation in micro-bits (accepted up to 1e-3 bit), likelihoods "
                        "as k = ceil(x) and a 16-bit mantissa round(2^(k-x) * 65536), compared within 0.5 % (+ "
                        "quantisation) with the exact sum over all paths of 2^-(E_p - E_min)",
                        "TLC evaluates the integer path sums faithfully (32-bit, no overflow within the bounds)",
                        "observation sequences are non-empty (property precondition)",
                        "which of several maximal Viterbi paths is returned is not part of the property: any arg-max "
                        "path is accepted; a path differing from the machine layer's tie-break (floating-point "
                        "rounding decides exact ties) is reported as MODEL-DRIFT only"],
    }


MANIFEST = {
    "technique": "TLA+ Viterbi / forward / backward machines model-checked by TLC against the maximum and the sum "
                 "over all S^T state paths in exact integer arithmetic; traces of the real hmm::{viterbi,forward,"
                 "backward} validated by TLC against the same brute-force definitions",
    "text": "TLC exhausts all small models over a common denominator (zeros, ties, defective rows, with/without end "
            "distribution) and all observation sequences up to length 3 for the three DP machines shaped like the "
            "code, and every recorded result of the real code on random/structured models (S<=4, T<=14) must be an "
            "arg-max path with exactly the maximal probability (viterbi) resp. lie within 0.5 % of the exact path "
            "sum, not below the Viterbi maximum, and be exactly zero iff the observation is impossible; a second "
            "model class with power-of-two parameters (exponent arithmetic, still exact integers) carries the same "
            "demands down to joint log-probabilities of about -2700 nats, on both sides of the -500 nats underflow "
            "point of the fast exponential",
    "note": "bounded: MC over S<=3, Den=2, T<=3; implementation side Den^(2T+1) <= 2^30; floats enter TLC only through "
            "the harness's fixed-point projection (trusted); tolerance parts are decided at 0.5 %, not tighter",
    "ref": "sec. 5 C14",
}
