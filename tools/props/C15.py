def plan(tier):
    q = tier == "quick"
    return {
        "mc": [{"module": "ProbAlgebraMC", "cfg": "ProbAlgebraMC.cfg" if q else "ProbAlgebraMC_thorough.cfg",
                "timeout": 1800}],
        "families": [{"fam": "prob", "trace": "ProbAlgebraTrace"}],
        "required_obligations": [
            "equal_operands", "zero_operand", "both_zero", "below_fastexp_min", "around_fastexp_min",
            "gap_beyond_f64", "sub_fast_branch", "sub_exact_branch", "ln1m_fast_branch", "ln1m_exact_branch",
            "ln1m_switch_neighbourhood", "sum_empty", "sum_single", "sum_200", "sum_neutral",
            "grid_n3", "grid_n5", "grid_n11", "grid_n101", "grid_nonuniform",
            "conv_exact", "conv_approx", "conv_zero", "checked_special", "checked_boundary", "checked_outside",
            "accumulator_chain",
            "sub_nearly_equal_logs_large_magnitude", "exp_range_edge_sweep", "exp_biased_exponent_minus_one", "more_than_42000_summands",
            "grid_more_than_100000_points", "more_than_2400000_summands", "grid_more_than_2400000_points",
            "index_driven_density", "operators_vs_named_methods", "cap_overshoot_epsilon_relations",
            "sum_permuted", "cumsum_inexact_size_hint", "integration_helper_reentered_from_density",
            "fine_grid_far_from_origin"],
        "rule": "self-contained operation events (operands and result as fixed-point images relative to the largest "
                "operand) over a log grid of magnitudes (ratios 1 .. 1e-300 and beyond f64's range), the switch "
                "points -0.693 and -500, lists of 0..200 elements, four grid sizes and non-uniform grids over six "
                "smooth densities, twelve conversion chains, checked construction, and accumulator chains of 4-15 "
                "operations stepped by the exact accumulator of the trace specification; a dense sweep (step 0.05 nats) of "
                "log-differences over [-746, -699], the region where exp() leaves the normal f64 range (smallest "
                "normal exp(-708.4), biased exponent -1 at (-710, -709.78), smallest subnormal exp(-745.13)), for "
                "add / sub / sum / cumsum in both argument orders, complement and LogProb -> Prob; closed-form "
                "families: lists of 42 501 .. 1 000 000 operands (one dominant element + classes of sub-1.2e-7 "
                "elements whose total is 0.4 % .. 60 % of it) for sum and selected cumsum prefixes, and trapezoid / "
                "Simpson grids of 100 001 .. 1 000 001 points (one peak cell on a piecewise constant floor)",
        "bounds": {"mc": "One=100, grid {0,1,50,100}, <= 4 operations (thorough: 5 values, 6 operations), "
                         "per-operation error 1 unit, all error choices",
                   "impl": "log-probabilities in [-1e6, 0] and ln(0); lists <= 200; integration grids n in "
                           "{3,4,5,11,101}, non-uniform integer grids of <= 60 points; closed-form lists / grids up to "
                           "10^6 elements (only class values, multiplicities and positions are recorded; closed "
                           "forms proved equal to Sum / CumSums / the rules for small parameters: BigLemmas)"},
        "assumptions": ["numeric accuracy is decided only through the harness's fixed-point projection (std exp / ln "
                        "in f64, trusted): operands round(exp(lp - lp_max) * 1e6), results likewise, conversions on "
                        "a 1e9 scale, abscissae projected to their grid index; TLC checks integer inequalities",
                        "nothing tighter than the property's 0.5 % of the largest operand (+ quantisation) is "
                        "claimed; 1e-9 relative for conversion chains without the approximate exponential",
                        "preconditions respected by the generators: ln_sub_exp with p0 >= p1, ln_one_minus_exp on "
                        "values <= 0, Simpson with odd n"],
    }


MANIFEST = {
    "technique": "linear-space fixed-point algebra in TLA+ (sums, cumulative sums, subtraction, complement, "
                 "trapezoid / Simpson / grid rules, conversion table, tolerance rule) with an accumulator machine "
                 "whose per-operation error budget is model-checked by TLC; recorded results of the real log-space "
                 "operations validated by TLC against the algebra within the property's tolerance",
    "text": "TLC checks on all programs of a small accumulator machine that bounded per-operation errors stay inside "
            "the tolerance rule and that the algebra's laws hold, and validates every recorded result of "
            "ln_add_exp, ln_sum_exp, ln_cumsum_exp, ln_sub_exp, ln_one_minus_exp, the three integration helpers, "
            "the Prob/LogProb/PHRED conversions and Prob::checked (operands many orders of magnitude apart, equal, "
            "zero, at the switch points of the piecewise formulas) against the exact integer computation within "
            "0.5 % of the largest operand, ln(0) neutral, never NaN",
    "note": "numeric accuracy is covered in reduced form: floats are projected to fixed point by the harness with std "
            "exp/ln (trusted); nothing tighter than 0.5 % (1e-9 for exact conversion chains) is claimed",
    "ref": "sec. 5 C15",
}
