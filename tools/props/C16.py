def plan(tier):
    q = tier == "quick"
    return {
        "mc": [{"module": "PoaMC", "cfg": "PoaMC.cfg" if q else "PoaMC_thorough.cfg", "timeout": 2400},
               {"module": "PoaGraphMC", "cfg": "PoaGraphMC.cfg" if q else "PoaGraphMC_thorough.cfg",
                "timeout": 2400, "workers": 8}],
        "families": [{"fam": "poa", "trace": "PoaTrace"}],
        "required_obligations": ["match_score_near_the_top_of_i32", "same_query_in_another_mode_before_global", "aligner_copied_mid_history", "linear_exhaustive", "scoring_with_clip_penalties", "gap_zero", "length1_reference_edgeless", "identical_copies",
                                 "unrelated_sequences"],
        "rule": "linear graphs: every reference x query over {A,C} up to length 3 (quick) / 4 (thorough) x 6 scoring "
                "schemes through global and global_banded (bandwidth = max length), random references/queries up "
                "to 30 over ACGT with random asymmetric substitution tables and gap in 0..-4 (gap_extend set to an "
                "unrelated value); growth histories of 1-5 additions (identical copies, mutated copies, unrelated "
                "sequences, length-1 references) with the graph and the consensus logged after every addition",
        "bounds": {"mc": "references/queries over 2 symbols up to length 4 (5), 5 scoring schemes: DP row machine "
                         "with the code's traceback tie-breaks vs brute force over all alignments; graph-growth machine "
                         "(add_alignment transcribed) under EVERY structurally possible alignment of queries <=2 "
                         "to graphs grown from references <=2(3) in <=2(3) additions: DAG + growth clauses",
                   "impl": "|ref|,|query| <= 30; graphs <= ~80 nodes"},
        "assumptions": ["the operations accessor hook only reads",
                        "symbols are projected to alphabet indices by the harness; the substitution closure reads "
                        "the logged table"],
    }


MANIFEST = {
    "technique": "TLA+ row-by-row POA DP machine with the code's traceback cells model-checked by TLC against "
                 "brute-force Needleman-Wunsch; recorded alignments, graphs and consensus sequences of the real "
                 "poa::Aligner validated by TLC against NW, path validity/rescoring and the DAG growth clauses",
    "text": "TLC exhausts the chain DP machine (tie-breaks and traceback as in the code) for all small "
            "reference/query pairs and scoring schemes against a brute-force optimum, and validates every recorded "
            "event of the real aligner: exact NW score, valid operations (read through the hook) that rescore to "
            "the reported score, banded = unbanded for wide bands, and after every add_to_graph: label prefix "
            "preserved, no edge lost or decreased, node growth <= |query|, acyclicity, consensus non-empty and "
            "spelled by a path, identical sequences leave nodes and consensus unchanged",
    "note": "bounded sizes; exactness is only demanded on chain graphs (as the property states); petgraph internals "
            "observed only through node/edge lists",
    "ref": "sec. 5 C16",
}
