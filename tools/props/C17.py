def plan(tier):
    q = tier == "quick"
    mc = [{"module": "SuccinctMC", "cfg": "SuccinctMC.cfg" if q else "SuccinctMC_thorough.cfg",
           "timeout": 1500, "workers": 6},
          {"module": "SuccinctWMMC", "cfg": "SuccinctWMMC.cfg" if q else "SuccinctWMMC_thorough.cfg",
           "timeout": 1500, "workers": 6}]
    if not q:
        mc.append({"module": "SuccinctMC", "cfg": "SuccinctMC_thorough_b3.cfg", "timeout": 1500, "workers": 6})
    return {
        "mc": mc,
        "families": [{"fam": "rs", "trace": "SuccinctTrace"},
                     {"fam": "wm", "trace": "SuccinctTrace"},
                     {"fam": "rsbig", "trace": "SuccinctTrace"}],
        "required_obligations": [
            "n_multiple_of_superblock", "n_just_above_superblock", "padded_last_byte",
            "three_or_more_superblocks", "all_zero", "all_one", "equal_rank_run_ones", "equal_rank_run_zeros",
            "k8", "ctor_fill_true", "fill_true_with_padded_last_byte",
            "stale_ones_behind_end_after_truncate_or_pop", "k_larger_than_vector",
            "rs_clone_queried", "rs_serde_roundtrip_queried", "rs_serde_roundtrip_with_equal_rank_run",
            "two_consecutive_superblocks_without_ones", "two_consecutive_superblocks_without_zeros",
            "wm_clone_queried", "wm_serde_roundtrip_queried", "rs_clone_from_into_used_object",
            "rs_original_and_copy_both_continue", "wm_clone_from_into_used_object",
            "wm_original_and_copy_both_continue", "largest_legal_superblock_factor", "superblock_factor_beyond_2p32", "more_than_2p32_ones_in_a_superblock",
            "more_than_65535_ones_in_a_superblock", "more_than_65535_zeros_in_a_superblock",
            "more_than_128_superblocks_sparse", "more_than_128_superblocks", "big_single_superblock",
            "wm_exhaustive_small", "wm_len_at_superblock_boundary", "wm_padded_levels", "wm_single_symbol_text"],
        "rule": "rs: one run = one RankSelect object (bits,k) -- asked directly, through a clone, or after a serde "
                "round trip through JSON (rotating) --, all of rank_1/rank_0(i), i in 0..n+1, and "
                "select_1/select_0(j), j in 0..n+1, plus get; every n in 1..130 (k=1) and n = 32k*{1,2,3} +- 9 for "
                "k in {1,2,3,8} with fills all-0, all-1, single bit at a block/superblock boundary, densities "
                "1/2, 1/16, 15/16, constant superblocks/bytes; five BitVec constructions (incl. fill-true, truncate and pop leaving stale one bits behind the end). wm: one run = one "
                "WaveletMatrix, rank(c,p) for all six symbols and all p; all texts over ACGTN$ up to length 4 (5 "
                "thorough) and random/skewed texts with lengths around the 32-bit superblocks up to 300. rsbig: structured "
                "vectors given by parameters (n in {20000, 150000, 10^6}, period P, residue set R, flipped positions "
                "X), never logged verbatim, k in {1,3,2048,4096,70000}; rank/select asked at the first/last bit, at "
                "superblock seams, 65535..65537 and ~70000 bits into a superblock, for the 65535/65536/65537-th "
                "bit, around the totals and around every select answer; judged by the closed form of Succinct.tla "
                "(StructLemma: closed form = naive count for all P<=3/4, n<=7/9, <=2 flips)",
        "bounds": {"mc": "rank/select machine: block 2 bits, superblock 2k bits, all vectors n<=9, k<=2 (thorough "
                         "n<=11, k<=3 and block 3 bits n<=10); wavelet machine: all texts over 6 symbols n<=4 (5), "
                         "all (c,p)",
                   "impl": "explicit vectors n<=1500, k<=8; structured vectors n<=10^6, k<=70000; texts<=300"},
        "assumptions": ["ndJsonDeserialize/TLC evaluate the TLA+ definitions faithfully",
                        "bit vectors have n>=1 (stated quantifier); wavelet texts are non-empty upper-case ACGTN$",
                        "the harness batches all queries of one kind into one event (a panic in any of them "
                        "rejects the event)"],
    }


MANIFEST = {
    "technique": "TLA+ machines of the superblock rank/select structure and of the wavelet matrix model-checked by "
                 "TLC against naive counting; traces of the real RankSelect/WaveletMatrix validated by TLC against "
                 "the same definitions",
    "text": "TLC exhausts every bit vector up to 9/11 bits for a rank/select machine shaped like the code (superblock "
            "First/Some vectors, binary search, block and bit scan that ignores padding; scaled block and superblock "
            "sizes so that several superblocks and a padded last block occur) and every text up to 4/5 symbols for "
            "the wavelet-matrix machine (levels by stable partition, per-level rank walk), with invariants tying "
            "every intermediate register to the naive count and a termination measure; every recorded "
            "rank_0/rank_1/select_0/select_1/get answer of the real RankSelect (all i, all j, lengths around "
            "32k*{1,2,3} for k in {1,2,3,8}, all-0/all-1/boundary/density fills) and every WaveletMatrix::rank(c,p) "
            "must equal the specification's naive count",
    "note": "bounded: MC over scaled block sizes and n<=11; implementation side n<=1500, k<=8, wavelet texts<=300; "
            "TLC's evaluator and the JSON projection of the harness are trusted",
    "ref": "sec. 5 C17",
}
