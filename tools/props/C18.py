import os
import vlib


def plan(tier):
    q = tier == "quick"

    def pre(ctx):
        out = os.path.join(ctx["workdir"], "bitenc-behaviours.ndjson")
        n, desc = vlib.emit_behaviours("BitEncMC", "BitEncGen.cfg" if q else "BitEncGen_thorough.cfg",
                                       ctx["workdir"], out)
        if n == 0:
            raise vlib.ToolError("no behaviours generated")
        ctx["behaviours"]["bitenc"] = out
        ctx.setdefault("mc_desc", []).append(desc)

    return {
        "mc": [
            {"module": "BitEncMC", "cfg": "BitEncMC.cfg" if q else "BitEncMC_thorough.cfg", "timeout": 1500},
            {"module": "SmallIntsMC", "cfg": "SmallIntsMC.cfg" if q else "SmallIntsMC_thorough.cfg", "timeout": 1500},
            {"module": "FenwickMC", "cfg": "FenwickMC.cfg" if q else "FenwickMC_thorough.cfg", "timeout": 1500},
        ],
        "pre": pre,
        "families": [
            {"fam": "bitenc", "trace": "PackedTrace"},
            {"fam": "smallints", "trace": "PackedTrace"},
            {"fam": "fenwick", "trace": "PackedTrace"},
            {"fam": "bitencbig", "trace": "PackedTrace"},
            {"fam": "fenwickbig", "trace": "PackedTrace"},
        ],
        "required_obligations": ["mixed_signedness_type_pairs", "tlc_behaviours_replayed", "push_values_crosses_block_end",
                                 "push_values_inside_block", "push_values_overwide_value", "width_with_padding",
                                 "from_elem_max_refused", "value_equals_small_max", "value_above_small_max",
                                 "value_below_small_min", "set", "len_power_of_two",
                                 "bitenc_more_than_65536_symbols", "fenwick_len_beyond_65536",
                                 "wide_type_pairs", "small_value_with_top_bit_set",
                                 "object_copied_mid_history", "smallints_copied_mid_history", "bitenc_more_than_2p32_bits"],
        "rule": "BitEnc: every complete history of <=2 (quick) / <=3 (thorough) operations that TLC generates from "
                "the BitEnc machine at the real block size 32 for widths 1..8 (n and i chosen at the block seams, "
                "values 1 and over-wide 255) replayed into the real BitEnc, plus seeded random histories of <=12 "
                "operations aimed at block ends; after every operation the full observable state (nr_symbols, "
                "nr_blocks, get(0..len+1), iter -- also through nth / skip+take / step_by / last / count --) is logged and must equal the abstract vector of the spec. "
                "SmallInts: 5 (S,B) type pairs, values around S::MIN/S::MAX, negative, big, and 7 wide pairs (u64/u128, "
                "usize/u128, u32/u64, i32/i64, i64/i128, u16/u32, u8/u64) with values around every power-of-two width "
                "boundary logged as decimal strings; Fenwick: sum/max, "
                "lengths 1..100 incl. powers of two +-1, every/boundary index queried after every update; "
                "fenwickbig: SumBitTree<u8> of more than 2^32 (and 2^33) slots, positions as (i div 2^20, i mod 2^20)",
        "bounds": {"mc": "BitEnc B=8 widths 1..3(4) values incl. over-wide, all histories <=3(4) ops; SmallInts "
                         "S-range -4..3, 9 values, <=4(5) ops; Fenwick len<=6(8), <=3(4) updates; generation: B=32",
                   "impl": "BitEnc widths 1..8, histories <=12 ops, len <= ~150; SmallInts narrow pairs |v|<2^31, wide pairs up to u128::MAX"},
        "assumptions": ["values are projected to integers by the harness (Option::None -> -1 / counters)",
                        "set(i,..) is only called with i < len (documented precondition)"],
    }


MANIFEST = {
    "technique": "TLA+ storage-layout machines (BitEnc blocks/padding/push_values phases, SmallInts escape+overflow map, "
                 "Fenwick low-bit walks) model-checked by TLC as refinements of plain vectors / update logs; "
                 "TLC-generated histories replayed into the real code and all recorded histories validated by TLC",
    "text": "TLC exhausts all short operation histories of the three storage machines against their abstract vector "
            "semantics (small block size, over-wide values), generates every short history at the real block size "
            "for replay into the real BitEnc, and validates every recorded observation (full observable state after "
            "each operation) of the real containers against the abstract vector / prefix fold",
    "note": "bounded histories (<=12 ops on the implementation side); integer projection of Option values by the "
            "harness is trusted; TLC evaluator trusted",
    "ref": "sec. 5 C18",
}
