def plan(tier):
    q = tier == "quick"
    return {
        "mc": [{"module": "QGramMC", "cfg": "QGramMC.cfg" if q else "QGramMC_thorough.cfg",
                "timeout": 2400, "workers": 8 if q else 12},
               {"module": "SparseChainMC", "cfg": "SparseChainMC.cfg" if q else "SparseChainMC_thorough.cfg",
                "timeout": 2400, "workers": 6 if q else 12}],
        "families": [{"fam": "qgram", "trace": "QGramTrace"},
                     {"fam": "sparse", "trace": "SparseChainTrace"}],
        "required_obligations": [
            "index_exhaustive_small", "nonpow2_alphabet", "nonpow2_top_rank_qgram",
            "pattern_offset_exceeds_text_position", "max_count_small", "text_shorter_than_q",
            "pattern_shorter_than_q", "codes_full_word", "codes_sigma1", "codes_beyond_2p30", "unary_alphabet", "unary_alphabet_q_above_64",
            "alphabet_of_all_256_bytes", "alphabet_of_255_bytes", "index_over_all_256_bytes",
            "exact_k_jump_chains_in_long_list", "k_equals_1_chain", "matches_sharing_x_and_sharing_y",
            "unsorted_match_list_offered",
            "ranktransform_clone", "ranktransform_serde_roundtrip", "ranktransform_clone_from_into_used_object",
            "qgram_iterators_forked_and_consumed_by_adaptors", "qgram_input_iterators_by_value_and_inexact_hints",
            "qgramindex_clone", "qgramindex_serde_roundtrip", "qgramindex_clone_from_into_used_object",
            "qgramindex_original_and_copy_both_continue", "index_queries_in_varying_order",
            "q_equals_1", "text_length_equals_q", "pattern_length_equals_q", "min_count_equals_a_diagonal_count",
            "max_count_equals_an_occurrence_count", "max_count_one_below_an_occurrence_count", "same_diagonal_pairs_every_distance", "same_diagonal_pair_closer_than_k",
            "pairs_exhaustive_small", "hash_side_seq1", "hash_side_seq2", "k_longer_than_a_sequence",
            "empty_match_list", "chain_step_continuation", "chain_step_jump", "expand_grew",
            "chains_on_expanded", "arbitrary_match_list", "grid_exhaustive_small", "nontrivial"],
        "rule": "qgram: one run = one QGramIndex (alphabet, q, text, max_count) asked qgram_matches for the q-grams "
                "of the text / random / all q-grams, matches(min_count in {0,1,2,5}) and exact_matches for unrelated, "
                "identical, planted (every diagonal, pattern offset > text position, a mismatch in the middle) and "
                "too-short patterns; exhaustive texts<=4 (5) over alphabets of size 1,2,3 with all patterns<=3; "
                "alphabets of size 1,2,3,4,5,7,8,20, q in 1..4, texts<=200, max_count in {none,1,2,3..6}; code runs "
                "up to q*bits = 64; single-symbol alphabets (bits = 0) with q in {1,2,63,64,65,70,200}, max_count at / just "
                "below the number of windows. sparse: also lists of 17..40 matches made of chains A, A+(k,k), A+2(k,k).. "
                "without the diagonal steps between them, mixed with random matches; pairs/triples of matches on one diagonal "
                "at every distance 1..2k for k in 1..6 (alone and among random matches) with three gap parameter sets: "
                "chain validity of sdpkpp / union / lcskpp is judged on all of them; one run = one pair (x,y,k): find_kmer_matches and both prehashed "
                "variants, lcskpp/sdpkpp/union on the true matches, expand on the matches and on a thinned sub-list, "
                "chains on the expanded lists; all pairs over {a,b}<=3 (4), k<=3; random/related pairs<=60, k in "
                "1..5; arbitrary sorted pair lists M<=40; nontrivial = lcskpp results with at least two matches",
        "bounds": {"mc": "index machine: alphabets {7},{7,9},{7,9,200}, texts<=4, patterns<=3, q in {1,2}, max_count "
                         "in {1,none} (thorough: texts<=5, max_count {1,2,none}); sweep machine: all sorted match "
                         "lists with <=4 (6) matches in a 4x4 grid, k in {1,2} ({1,2,3})",
                   "impl": "texts<=200, patterns<=~60, sequences<=60, match lists<=150"},
        "assumptions": ["ndJsonDeserialize/TLC evaluate the TLA+ definitions faithfully",
                        "patterns and texts are over the alphabet; match lists given to the chaining functions are "
                        "strictly sorted; matches given to expand_kmer_matches lie inside both sequences",
                        "q-gram codes are recorded as their q fields of ceil(log2|A|) bits (representation change in "
                        "the harness) plus the integer when below 2^30",
                        "scores of sdpkpp and of the union path are heuristic and not judged"],
    }


MANIFEST = {
    "technique": "TLA+ machines of the q-gram index and of the LCSk++ sweep model-checked by TLC against the "
                 "definitions (positions, diagonal runs, maximum over all valid chains); traces of the real index, "
                 "code iterators, k-mer matchers and chaining functions validated by TLC against the same definitions",
    "text": "TLC exhausts all texts/patterns over alphabets of size 1-3 for an index machine shaped like the code "
            "(rolling bit-packed code, count/mask/prescan/fill passes over a table of 2^(bits*q) addresses, per-hit "
            "diagonal merging) and all sorted match lists up to 4/6 matches in a 4x4 grid for the LCSk++ sweep "
            "machine (sorted start/end events, max-Fenwick tree, diagonal continuation, traceback), with invariants "
            "relating table, tree and dp vector to the definitions, the final score to the maximum over ALL valid "
            "chains, and termination measures; every recorded qgram_matches/matches/exact_matches answer, every "
            "q-gram code (forward and reverse, up to 64 bits), every find_kmer_matches* result must equal the "
            "definition, every lcskpp result must be a valid chain whose score is its LCSk++ score and the optimum, "
            "every sdpkpp/union/expanded result a valid chain / sorted in-range superset",
    "note": "bounded: MC over alphabets<=3 symbols, texts<=5, grid 4x4; implementation side texts<=200, "
            "sequences<=60, match lists<=150; sdpkpp/union scores not judged (heuristic by design)",
    "ref": "sec. 5 C19",
}
