def plan(tier):
    q = tier == "quick"
    return {
        "mc": [{"module": "SeqBasicsMC", "cfg": "SeqBasicsMC.cfg" if q else "SeqBasicsMC_thorough.cfg",
                "timeout": 2400, "workers": 6 if q else 12},
               {"module": "SeqBasicsMC", "cfg": "SeqBasicsMC_overlap.cfg", "timeout": 1200, "workers": 6}],
        "families": [{"fam": "orf", "trace": "SeqBasicsTrace"},
                     {"fam": "seqbasics", "trace": "SeqBasicsTrace"}],
        "required_obligations": [
            "orf_exhaustive_small", "orf_nested_starts", "orf_overlapping_frames", "orf_three_frames",
            "orf_minlen_boundary", "orf_nonstandard_codons", "orf_shorter_than_codon", "nontrivial",
            "compl_all_256_bytes", "std_alphabets", "alpha_contains_byte_0", "alpha_contains_byte_255",
            "alpha_empty", "alpha_all_256", "alpha_word_with_planted_symbol", "gc_empty_and_single",
            "gc3_len_not_multiple_of_3", "orf_codons_with_nul_and_suffix_heads",
            "more_than_2p24_gc_symbols", "more_than_2p24_gc3_symbols", "more_than_2p32_symbols_in_one_gc_call",
            "orf_start_codons_not_ascending", "orf_stop_codons_not_ascending", "orf_repeated_codon",
            "orf_codon_both_start_and_stop", "orf_finder_cloned", "orf_iterator_forked_at_every_position",
            "orf_fork_with_found_orfs_pending", "orf_finder_serde_roundtrip", "orf_finder_clone_from_into_used_object",
            "orf_finder_original_and_copy_both_continue", "orf_iterator_adaptors_and_input_kinds",
            "revcomp_input_iterators_by_value_and_inexact_hints",
            "alphabet_from_iterators_with_duplicates_and_inexact_hints", "ranktransform_of_alphabet_from_text",
            "alphabet_and_ranktransform_copies_and_input_kinds", "alphabet_set_operations_in_both_orders",
            "gc_input_iterators_by_value_and_inexact_hints", "orf_min_len_at_and_beyond_2p32",
            "orf_min_len_largest_value", "alphabet_of_all_256_bytes"],
        "rule": "orf: one run = one Finder (start/stop codon sets, min_len) applied to several sequences; all "
                "sequences over {A,T,G} up to length 9 (10 thorough) with min_len rotating over 0,1,3,4,5,6, codon "
                "soups up to 300 symbols for four start/stop sets (standard, three starts/one stop, arbitrary bytes, "
                "lower case) with min_len in {0,1,3,4,5,6,30} and min_len placed at L-3..L+1 around reported lengths; "
                "nontrivial = find_all calls that reported at least one ORF. seqbasics: complement tables of all 256 "
                "bytes and revcomp for DNA and RNA, alphabets from fixed and random byte multisets (incl. empty, "
                "0, 255, all 256) with len/is_empty/max_symbol/symbols/is_word/ranks/transform/set operations, the "
                "eight predefined alphabets, gc/gc3 content on sequences up to 300 and on streamed repetitions of a short "
                "unit (logged as unit + count, up to 5.1*10^7 symbols, more than 2^24 G/C symbols per call) and on two streamed segments (unit, multiple of a 3*2^20 chunk; "
                "one call with 4.3*10^9 > 2^32 symbols); codon sets are also given in descending / rotated order and "
                "with repeated codons, and with codons that are both start and stop (incl. all sequences over {A,T,G} "
                "up to length 8 for starts ATG,TGA / stops TGA,TAA); the find_all iterator is forked (cloned) after "
                "every number of items and both continuations are judged, on a cloned Finder; orf also: "
                "codon sets with 0x00 / blank / 0xFF bytes in every position, all sequences shorter than a codon, "
                "heads equal to every proper suffix of every codon followed by an in-frame stop",
        "bounds": {"mc": "finder machine: all sequences over {A,T,G} up to length 9, start ATG, stops TAG/TGA/TAA, "
                         "min_len in {0,4} (thorough: length 10, starts ATG+GTG, min_len in {0,3,4,6}); complement "
                         "laws over all 256 bytes",
                   "impl": "sequences <= 300 (gc: repeated units up to 5.1*10^7 symbols), codon sets over arbitrary bytes, "
                           "alphabets <= 256 symbols"},
        "assumptions": ["ndJsonDeserialize/TLC evaluate the TLA+ definitions faithfully",
                        "a codon may be both a start and a stop codon: it closes the frames open in its reading frame and its "
                        "own frame (the codon itself, length 3) and leaves nothing open -- the behaviour of the "
                        "unchanged code, model-checked against the generalised frame definition (cfg _overlap)",
                        "gc fractions are projected by the harness to round(x*10^6); accepted when within "
                        "len/10^6 of the exact fraction; the fraction of an empty sequence is unconstrained",
                        "RankTransform::get/transform are only asked for members of the alphabet"],
    }


MANIFEST = {
    "technique": "TLA+ machine of the ORF finder model-checked by TLC against the frame definition, complement laws "
                 "checked by TLC over all 256 bytes; traces of the real finder, complement tables, alphabets, rank "
                 "transform and GC content validated by TLC against the same definitions",
    "text": "TLC exhausts all sequences over {A,T,G} up to length 9/10 for a finder machine shaped like the code "
            "(sliding codon window, three pending-start lists flushed at a stop codon, early break, found queue) and "
            "proves its output equal to the set of frames longer than min_len+2, with invariants for the pending "
            "lists and a termination measure; involution/case/identity laws of both complement tables hold for all "
            "256 bytes; every recorded find_all of the real finder must satisfy the two-sided rule (every report is a "
            "first-stop frame with len>=min_len, offset = start mod 3, no duplicates, every frame longer than "
            "min_len+2 reported), both real 256-entry complement tables and revcomp must equal the IUPAC definition, "
            "alphabet membership/rank/transform/set operations and GC fractions must equal their definitions",
    "note": "bounded: MC over 3 symbols, length<=10; implementation side sequences<=300; GC compared on a 10^-6 "
            "fixed-point projection computed by the harness; TLC's evaluator and the JSON projection are trusted",
    "ref": "sec. 5 C20",
}
