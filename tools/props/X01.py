"""X01 (growth beyond the listed properties, DESIGN.md sec. 4 "later" row): pair HMMs.

prob_related of PairHMM (and of HomopolyPairHMM with all hop probabilities zero) = min(1, sum over all
alignment paths of the product of transition and emission probabilities), as defined by the model
traits; banded: the sum over the paths inside the band, never more than the unbanded value, equal to it
when the band covers the matrix.  Not in properties.jsonl / MANIFEST.json."""


def plan(tier):
    q = tier == "quick"
    mc = [{"module": "PairHmmMC", "cfg": "PairHmmMC.cfg" if q else "PairHmmMC_thorough.cfg", "timeout": 2400},
          {"module": "PairHmmMC", "cfg": "PairHmmMC_band.cfg" if q else "PairHmmMC_band_thorough.cfg", "timeout": 2400}]
    return {
        "mc": mc,
        "families": [{"fam": "pairhmm", "trace": "PairHmmTrace"}],
        "required_obligations": ["mc_family", "asymmetric_extend", "no_extend", "empty_sequence", "mixed_mode",
                                 "start_table", "sum_exceeds_one", "zero_emissions", "object_reuse",
                                 "semiglobal_long_x", "band_global", "band_covering", "band_narrow",
                                 "gap_sum_one", "sum3_gap_origins", "homopoly_no_hops", "homopoly_semiglobal", "homopoly_band"],
        "rule": "spec->impl: the den=2, lx,ly<=2 call family of the MC run replayed into the real code (quick: a "
                "quarter of it); impl->spec: one run = one PairHMM / HomopolyPairHMM object used for 2-6 "
                "prob_related calls (different lengths, tables, modes, bands: object reuse)",
        "bounds": {"mc": "den=2, lx,ly<=2, every gap parameter tuple (quick: a reduced family), exy in {1,2}/2 per cell, "
                         "all four start/end modes, default and tabulated start probabilities; band family: lx<=3, "
                         "ly<=2, every match/mismatch matrix, bands 0,1,2,usize::MAX",
                   "impl": "den in {2,3,4,5,10}, lx<=6, ly<=3, den^(2(lx+ly)+1) <= 2^29"},
        "assumptions": ["harness projection (the only arithmetic it does): numerator k -> LogProb(ln(k/den)) on input; "
                        "LogProb lp -> round(exp(lp)*den^(2(lx+ly)+1)) on output with flags nan/posinf/neginf",
                        "TLC evaluates the integer path sums faithfully (32-bit, sums saturate at 2^29 >= scale)",
                        "the model is the one the code and the trait documentation define: unit start mass at the origin "
                        "plus prob_start_gap_x(i) at (i,0); the first step of a path is a match step (no gap states in "
                        "row/column 0); gap states X and Y do not follow each other",
                        "homopolymer variant: only with all hop probabilities zero (then it is the same model)",
                        "tolerance 0.5 % + 1 unit (log-space sums with the approximate exp), as C14/C15"],
    }
