"""X02 (growth beyond the listed properties, DESIGN.md sec. 4 "later" row): PSSM motifs.

DNAMotif / ProtMotif: scores = (counts + pseudocounts) / row total; min/max score; raw_score / score / best
position = their definitions over all windows; degenerate_consensus per the IUPAC rule of the code;
info_content within a fixed-point tolerance; errors (InvalidPseudos, EmptyMotif, InconsistentLen,
InvalidMonomer, QueryTooShort, NullMotif) exactly when documented.  Not in properties.jsonl / MANIFEST.json."""


def plan(tier):
    q = tier == "quick"
    return {
        "mc": [{"module": "PssmMC", "cfg": "PssmMC.cfg" if q else "PssmMC_thorough.cfg", "timeout": 2400}],
        "families": [{"fam": "pssm", "trace": "PssmTrace"}],
        "required_obligations": ["mc_family", "protein", "repeated_window", "query_len_eq_motif", "query_too_short",
                                 "query_invalid_monomer", "query_lower_case", "ambiguous_codes", "zero_pseudocounts",
                                 "empty_motif_len0", "null_motif", "almost_null_motif", "err_inconsistent_len",
                                 "err_invalid_monomer", "err_empty_motif", "err_invalid_pseudos", "err_two_errors",
                                 "consensus_boundaries", "from_array"],
        "rule": "spec->impl: the input family of the MC run (<= 2 DNA sequences of length <= 2 over A,T,W,!; three "
                "pseudocount choices) with every query of length <= 3 over A,T,! replayed into the real code (quick: a "
                "third); impl->spec: one run = one motif (from_seqs or From<Array2>), then consensus, info content and "
                "4-9 raw_score/score queries on it",
        "bounds": {"mc": "DNA, <= 2 sequences of length <= 2 over {A,T,W,!} (thorough: + '0', V), queries of length <= 3 "
                         "(thorough 4) over {A,T,!} (thorough: + t, G)",
                   "impl": "DNA and protein, <= 12 sequences (<= 40 for null motifs) of length 0..6, pseudocounts 0..2.0, "
                           "queries of length <= 18; counts in 1/1000, row totals < 131072/1000"},
        "assumptions": ["harness projection (the only arithmetic it does): count k/1000 -> f32 on input; f32 x -> "
                        "round(x*10^4) on output (information content: round(x*1000))",
                        "ambiguity codes contribute the constants of the code (V,H,D,B: 0.333 each, i.e. a row sum of "
                        "0.999, not 1 as the doc comment of `incr` says)",
                        "degenerate_consensus: comparisons are decided exactly on the integer counts; where both sides "
                        "are exactly equal either outcome of the f32 comparison is accepted",
                        "best position: any window within the fixed-point quantisation of the maximum that is not "
                        "preceded by a window of the same monomers (f32 sums of different windows are not compared "
                        "more precisely than len+1 units of 10^-4)",
                        "information content: log2 by a 14-bit integer mantissa recurrence; tolerance 15 (DNA) / 60 "
                        "(protein) milli-bits per position + 5",
                        "every row total is positive (the documented precondition 'no zeros' of the normalisation); "
                        "DNAMotif::from_seqs accepts upper-case IUPAC letters only, queries may be lower case (as coded)"],
    }
