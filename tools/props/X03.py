"""X03 (growth beyond the listed properties, DESIGN.md sec. 4 "later" row): small utilities.

utils::scan / prescan = inclusive / exclusive running fold for every sequence; combinations,
scaled_combinations, combinations_with_repl = Pascal's triangle; InterpolationTable::get = the function itself
outside the range, inside it the chord between the neighbouring grid samples (within |f''| h^2 / 8 of the
function); trim_newline; Interval.  Not in properties.jsonl / MANIFEST.json."""


def plan(tier):
    q = tier == "quick"
    return {
        "mc": [{"module": "UtilsMC", "cfg": "UtilsMC.cfg" if q else "UtilsMC_thorough.cfg", "timeout": 2400}],
        "families": [{"fam": "utils", "trace": "UtilsTrace"}],
        "required_obligations": ["fold_mc_family", "fold_empty", "fold_single", "fold_nonassociative",
                                 "comb_exact_range", "comb_k_gt_n", "comb_scaled", "comb_big",
                                 "comb_repl_zero_zero", "comb_repl_n_zero",
                                 "table_min_zero", "table_min_above_zero", "table_unaligned_min", "table_unaligned_max",
                                 "table_below_min", "table_last_cell", "table_grid_point", "table_between_grid_points",
                                 "trim", "interval_negative_width", "interval_empty"],
        "rule": "spec->impl: every sequence of length <= 3 over 0..2 with every operator (scan, prescan with neutral 0/1) "
                "and every (n, k), n <= 34, k <= n + 2 replayed into the real code; impl->spec: random folds (length "
                "0..40, seven operators incl. non-associative ones), binomials up to n = 62 (scaled, with replacement), "
                "interpolation tables over polynomial functions (20-30 lookups each), trim_newline, Interval",
        "bounds": {"mc": "sequences of length <= 4 over 0..2 (thorough 5), n <= 14 (thorough 24) with scale numerators "
                         "1, 3 (7); tables over lin/sq/cube on a grid with 3 cells per unit, 4 sub-cells, ranges within 4 "
                         "(6) cells, every argument up to one cell beyond",
                   "impl": "folds: values -9..9; binomials: n <= 62 (< 4.8e17); tables: frac_digits 0..2, arguments "
                           "multiples of 1/(10^digits * D), D in {4, 8}, x <= 20, min_x >= 0"},
        "assumptions": ["harness projection (the only arithmetic it does): binomial f64 v -> decimal digit count and "
                        "leading 9 digits of round(v) (v * 2^s for scale = m / 2^s); table argument pos -> pos / q, "
                        "result y -> round(y * q^deg)",
                        "binomials with more than 9 digits are compared on their leading 9 digits (+-2); shorter ones exactly",
                        "interpolation tables are driven with min_x >= 0 only (the index arithmetic of the code is "
                        "unsigned); the tabulated functions are polynomials (3x+1, x^2, x^3) so that the chord and the "
                        "bound |f''| h^2 / 8 are exact integers",
                        "operators passed to scan/prescan are pure functions named in the log"],
    }
