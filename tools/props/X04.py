"""X04 (growth beyond the listed properties, DESIGN.md sec. 4 "later" row): discrete distributions and Bayesian models.

stats::probs::cdf::CDF: from_pmf = the cumulative distribution function of the pmf (mass of the entries with value
<= x; duplicate values summed, zero-probability entries kept), from_cdf, get / get_pmf / total_prob / iter / iter_pmf
on that step function, reduce = the support points carrying mass, sample(n) = at most n of the entries including the
last one, map = a support point of maximal mass, credible_interval = the (1-w)/2 and 1-(1-w)/2 quantile points,
expected_value / variance / standard_deviation = the moments of the pmf; stats::bayesian::Model: posterior = joint /
marginal over the set of posterior events of the universe, MAP, sorted event posteriors, expected event value;
BayesFactor::evidence_kass_raftery as a total function; expected_fdr; ln_integrate_exp (adaptive integration) on
densities whose integral does not depend on the grid.  Not in properties.jsonl / MANIFEST.json."""


def plan(tier):
    q = tier == "quick"
    return {
        "mc": [{"module": "CdfMC", "cfg": "CdfMC.cfg" if q else "CdfMC_thorough.cfg", "timeout": 2400, "workers": 4},
               {"module": "BayesMC", "cfg": "BayesMC.cfg" if q else "BayesMC_thorough.cfg", "timeout": 2400,
                "workers": 4}],
        "families": [{"fam": "cdf", "trace": "CdfTrace", "nfiles": 4}],
        "required_obligations": ["cdf_mc_family", "cdf_empty", "cdf_single_entry", "cdf_duplicate_values",
                                 "cdf_zero_probability_entry", "cdf_all_zero", "cdf_total_one", "cdf_total_below_one",
                                 "cdf_reduce", "cdf_sample_refused", "cdf_width_refused", "cdf_edge_classes",
                                 "cdf_from_cdf", "cdf_sample_all_lengths", "cdf_iter_mut",
                                 "model_compute", "model_group_event", "model_empty_group", "model_zero_joint",
                                 "model_single_event", "model_from_marginal", "model_duplicate_universe_entry",
                                 "model_expected_value",
                                 "bf_axis_grid", "bf_threshold_neighbours", "bf_from_logprobs",
                                 "fdr", "fdr_empty", "fdr_ties",
                                 "integ_linear", "integ_tent", "integ_peak", "integ_peak_off_centre", "integ_zero_endpoint",
                                 "integ_resolution_wider_than_interval"],
        "rule": "spec->impl: every pmf of length <= 3 over values 0..2 and weights 0..2 (units of 1/8) with a fixed "
                "script of every query, reduce and sample replayed into the real code; impl->spec: random pmfs "
                "(length 0..12, duplicate values, zero-probability entries, dyadic denominators 4 .. 2^20, total = 1 "
                "and < 1), written-out edge classes, from_cdf objects, sample(n) for every length 0..40 and n in "
                "2..12, histories constructor -> queries -> reduce -> queries -> sample -> queries on one object; "
                "tabular Bayesian models (1..6 base events, 1..3 data sets, posterior events = arbitrary groups of "
                "base events incl. overlapping and empty ones, universes with repeated entries, compute and "
                "compute_from_marginal); the Kass-Raftery scale on a grid of quarters over 0..161, negative values, "
                "infinity, the thresholds and their floating-point neighbours, BayesFactor::new on ratios at and "
                "around the thresholds; expected_fdr on 0..8 PEPs with ties, zeros and ones; ln_integrate_exp on "
                "linear densities, tents with the knot at the midpoint and densities symmetric about a mode anywhere in "
                "the interval, over dyadic intervals and resolutions",
        "bounds": {"mc": "CdfMC: One = 8, every pmf of length <= 3 (thorough 4) over values 0..2 and weights 0..2, every "
                         "query argument, widths k/4, sample on lengths <= 12 (16) with n <= 6 (8); BayesMC: 2 (3) base "
                         "events, prior / likelihood weights 0..2, every universe list of length <= 2 (3) over the "
                         "posterior events {0}, {1}, {0,1}, {} (and {2}, {1,2}); Kass-Raftery on num <= 620, den in "
                         "{1, 4}; expected_fdr on every PEP list of length <= 4 (5) over 0..3",
                   "impl": "cdf: values -8..8 (moments: denominators <= 64), <= 12 entries (sample: <= 40); model: "
                           "denominators <= 16, <= 6 base events; fdr: <= 8 PEPs; integ: intervals of width <= 16, "
                           "heights in sixteenths"},
        "assumptions": ["harness projection (the only arithmetic it does): weight w -> LogProb(ln(w / d)) with d a power "
                        "of two (0 -> ln_zero), LogProb p -> round(exp(p) * s) with s = 2^20 (cdf) / 2^16 (model, fdr, "
                        "integ), f64 moments x -> round(x * s), standard deviation -> round(x * 1024); std exp / ln in "
                        "f64 are trusted",
                        "accuracy demanded: Tol(x) = 2 quanta + |x| / 8192 of the cumulative value a result was derived "
                        "from (the code adds in log space with an approximate exponential of relative error ~1e-5); "
                        "adaptive integration: 2 quanta + 1/4096 of the area, and for a "
                        "density symmetric about a mode off the first midpoint a shortfall of at most slope * "
                        "resolution^2 / 4 (the mode ends in a cell narrower than the resolution: IntResult of CdfMC)",
                        "preconditions respected by the generators: total mass of a pmf <= 1 (the code refuses "
                        "overshoot beyond 1e-5), no NaN, from_cdf entries sorted by value with non-decreasing "
                        "cumulative probabilities, Bayesian universes with positive marginal, the expectation of the "
                        "event value only where the posterior events are the base events, each listed once",
                        "where the result is legitimately not unique the verdict is a predicate: map = any support "
                        "point whose mass is maximal within the tolerance, credible interval ends = any index "
                        "satisfying the quantile inequalities within the tolerance, sample = any subsequence with at "
                        "most n entries ending in the last entry, MAP event = any of maximal joint probability, tied "
                        "PEPs = any rank inside the tie, reduce = drops every entry without mass and keeps every entry "
                        "whose mass exceeds the tolerance; the exact choices of the code (stride of sample, stable "
                        "rank of ties, one likelihood evaluation per listed member) are machine-layer conformance "
                        "(MODEL-DRIFT, not an alarm)",
                        "adaptive integration is claimed for densities that are linear on the whole interval, two linear "
                        "pieces meeting at the midpoint (the first grid point added), or symmetric about their mode with "
                        "strictly ordered end values; the maximum search compares the two window ends only, so on skewed "
                        "densities, or with equal (e.g. zero) values at both ends, it can walk away from the mode: "
                        "nothing is claimed there"],
    }
