"""X05 (growth beyond the listed properties, DESIGN.md sec. 4 "later" row): Newick trees and score matrices.

io::newick (from_string / read / from_file; the module has no writer): a text has a tree exactly when the
grammar -- read as an unordered context-free grammar -- derives it, and then the returned petgraph IS that tree
(shape, child order = edge order, labels, branch lengths); every other text gives Err, never a panic.  The
one-pass parser machine of spec/Newick.tla is model-checked against the set of all derivations for every string
up to a length bound; parse(print(t)) = t for every small tree.
scores::{blosum30..pam250}: total symmetric functions on A..Z and '*', refusal of every other byte, the index
function a bijection onto 0..26, BLOSUM62 equal to the published table; the protein alphabets' upper-case
letters can be scored.  Not in properties.jsonl / MANIFEST.json."""
import os
import re
import shutil
import subprocess
import vlib

CRATE = """[package]
name = "x05-newick"
version = "0.1.0"
edition = "2021"
publish = false

[workspace]

[features]
default = ["phylogeny"]
phylogeny = []

[[bin]]
name = "newick"
path = "%(src)s"

[dependencies]
bio = { path = "%(bio)s", features = ["phylogeny"] }
bio-verif-harness = { path = "%(harness)s" }
bio-types = { version = ">=1.0.0", features = ["phylogeny"] }
serde_json = "1"

[profile.release]
opt-level = 2
overflow-checks = true
debug-assertions = true
debug = false
incremental = false
"""


def build_newick():
    """io::newick needs the cargo feature `phylogeny` and bio / bio-types on one petgraph version (0.6): build the
    driver source harness/src/bin/newick.rs in a generated crate of its own (the shared harness stays as it is);
    the binary of the shared harness is a trampoline that execs harness/target/x05-newick/release/newick."""
    har = os.path.abspath(vlib.HARNESS)
    m = re.search(r'^bio\s*=\s*\{\s*path\s*=\s*"([^"]+)"', open(os.path.join(har, "Cargo.toml")).read(), re.M)
    if not m:
        raise vlib.ToolError("X05: cannot find the path of rust-bio in harness/Cargo.toml")
    if har.startswith(vlib.VERIF + os.sep):
        crate = os.path.join(vlib.VERIF, ".work", "x05-newick-crate")
    else:
        crate = os.path.join(os.path.dirname(har), "x05-newick-crate")    # scratch copy made by tools/mutant.py
    os.makedirs(crate, exist_ok=True)
    text = CRATE % {"src": os.path.join(har, "src", "bin", "newick.rs"), "bio": m.group(1), "harness": har}
    toml = os.path.join(crate, "Cargo.toml")
    if not os.path.exists(toml) or open(toml).read() != text:
        tmp = toml + ".%d" % os.getpid()
        open(tmp, "w").write(text)
        os.replace(tmp, toml)
    env = dict(os.environ)
    env["CARGO_NET_OFFLINE"] = "true"
    env["CARGO_TARGET_DIR"] = os.path.join(har, "target", "x05-newick")
    lock = os.path.join(crate, "Cargo.lock")
    if not os.path.exists(lock):
        shutil.copyfile(os.path.join(har, "Cargo.lock"), lock)      # same versions as the shared harness ...
    if re.search(r'name = "petgraph"\nversion = "0\.7', open(lock).read()):
        p = subprocess.run(["cargo", "update", "--offline", "-p", "petgraph@0.7.1", "--precise", "0.6.5"], cwd=crate,
                           stdout=subprocess.PIPE, stderr=subprocess.STDOUT, text=True, env=env)   # ... but one petgraph
        if p.returncode != 0:
            raise vlib.ToolError("X05: cannot pin petgraph for the newick driver: " + p.stdout[-800:])
    p = subprocess.run(["cargo", "build", "--release", "--offline", "--quiet"], cwd=crate,
                       stdout=subprocess.PIPE, stderr=subprocess.STDOUT, text=True, env=env)
    if p.returncode != 0:
        import sys
        sys.stdout.write(p.stdout[-6000:])
        raise vlib.ToolError("harness build failed (newick driver; does rust-bio still compile with --features phylogeny?)")


def plan(tier):
    q = tier == "quick"

    def pre(ctx):
        import time
        t0 = time.time()
        build_newick()
        vlib.log("newick driver built in %.1fs" % (time.time() - t0))
        out = os.path.join(ctx["workdir"], "newick-behaviours.ndjson")
        n, desc = vlib.emit_behaviours("NewickMC", "NewickGen.cfg" if q else "NewickGen_thorough.cfg",
                                       ctx["workdir"], out, workers=4, xmx="2g")
        if n == 0:
            raise vlib.ToolError("no behaviours generated")
        ctx["behaviours"]["newick"] = out
        ctx.setdefault("mc_desc", []).append(desc)

    return {
        "mc": [
            {"module": "NewickMC", "cfg": "NewickMC.cfg" if q else "NewickMC_thorough.cfg", "timeout": 3000, "workers": 4, "xmx": "3g"},
            {"module": "NewickMC", "cfg": "NewickMC_float.cfg" if q else "NewickMC_float_thorough.cfg", "timeout": 3000,
             "workers": 4, "xmx": "3g"},
            {"module": "ScoresMC", "cfg": "ScoresMC.cfg" if q else "ScoresMC_thorough.cfg", "timeout": 1500, "workers": 4, "xmx": "2g"},
        ],
        "pre": pre,
        "families": [
            {"fam": "newick", "trace": "NewickTrace", "nfiles": 2, "xmx": "2g"},
            {"fam": "scores", "trace": "ScoresTrace", "nfiles": 1, "xmx": "2g"},
        ],
        "required_obligations": [
            "tlc_behaviours_replayed", "exhaustive_short_strings", "tree_of_one_unnamed_node", "length_overflows_f32",
            "empty_text", "name_with_inner_whitespace", "one_character_name_before_blanks",
            "second_tree_after_the_first", "invalid_utf8",
            "random_well_formed", "random_with_whitespace", "random_multibyte_names", "random_one_edit",
            "deep_and_wide_shapes", "from_file_missing",
            "every_pair_of_the_table", "every_byte_in_both_positions", "byte_behind_Z", "byte_before_A",
            "lower_case_letter", "random_pairs", "protein_alphabets"],
        "rule": "newick, spec->impl: every text of length <= 4 (thorough 5) over 12 characters that keeps the parser "
                "machine alive, and every one-character extension that kills it, generated by TLC and parsed by the "
                "real reader; impl->spec: every string of length <= 3 (5) over ( ) , : ; a 1 and the blank, 150 edge "
                "texts (one-node trees, empty branches, names with blanks / quotes / multi-byte characters, brackets, "
                "27 number forms accepted or not, f32 overflow and underflow, unbalanced parentheses, missing ';', "
                "trailing garbage, two trees), invalid UTF-8 through read(), random trees of 1..60 nodes rendered "
                "with random blanks / names / numbers plus two one-edit neighbours each, chains / stars / combs of "
                "40..400 nodes, from_file; scores: all 729 pairs of all seven matrices, every byte in both "
                "positions, random pairs, self scores along words; is_word of both protein alphabets on every byte",
        "bounds": {"mc": "parser machine = set of derivations for all strings of length <= 6 (thorough 8) over "
                         "( ) , : ; a 1 [ and the blank, and of length <= 5 (6; 7 in NewickMC_float_len7.cfg) over : ; 1 0 . - e; print/parse round "
                         "trip for all trees of <= 3 (4) nodes over 4 names x 3 lengths; lookup machine on 60 bytes "
                         "around the table's edges in both positions (thorough: all 65536 pairs)",
                   "impl": "texts up to ~2000 bytes, <= 400 nodes, nesting <= 400 (the recursive-descent parser "
                           "overflows the stack beyond a nesting of ~5000: not driven); numbers with |value| < 10^6 "
                           "are compared in thousandths, larger ones only as finite / infinite"},
        "assumptions": ["harness projection (the only arithmetic it does): edge weight f32 w -> NaN | round(1000 w) | "
                        "+inf | -inf | finite and >= 2e6; accepted with a tolerance of 1 + |v| / 4e6 (f32 has 24 bits)",
                        "the random classes render trees into text in the harness; the tree is thrown away, the "
                        "specification reads the text only",
                        "child order is judged on the edge indices of the petgraph (petgraph's neighbors() iterates "
                        "in the reverse of that order); node indices in preorder and edges in post-order are machine "
                        "layer (DRIFT, not REJECT)",
                        "of the seven matrices only BLOSUM62 is compared with a published table (transcribed in NCBI "
                        "layout); the others are held to the structural laws (symmetry, '*' row, O = U = X, diagonal)",
                        "the newick driver is built in a generated crate with the cargo feature `phylogeny` and "
                        "petgraph pinned to 0.6.5 (bio-types 1.0.4 needs 0.6, rust-bio alone resolves to 0.7.1 and "
                        "then does not compile with the feature)"],
    }
