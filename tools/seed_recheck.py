#!/usr/bin/env python3
"""Re-run the quick check of every seeded change in seeded/<id>/ (patch.diff) through tools/mutant.py and
record the verdict in its meta.json (field caught_by_check and a `ran` entry). The demos and the
repository suite were confirmed when the change arrived (tools/seedcheck.py) and are not repeated.
Usage: tools/seed_recheck.py [--jobs N] [--last Cxx,Cyy] [ids ...]"""
import glob, json, os, re, subprocess, sys, time
from concurrent.futures import ThreadPoolExecutor
V = os.path.dirname(os.path.dirname(os.path.abspath(__file__)))
args = sys.argv[1:]
jobs, last = 1, []
if "--jobs" in args:
    i = args.index("--jobs"); jobs = int(args[i + 1]); del args[i:i + 2]
if "--last" in args:
    i = args.index("--last"); last = args[i + 1].split(","); del args[i:i + 2]
ids = args or sorted(os.path.basename(os.path.dirname(f)) for f in glob.glob(os.path.join(V, "seeded", "*", "meta.json")))
ids.sort(key=lambda i: (i[:3] in last, i))


def one(i):
    d = os.path.join(V, "seeded", i)
    meta = json.load(open(os.path.join(d, "meta.json")))
    caught, rans = False, []
    for prop in meta["breaks_property"]:
        t0 = time.time()
        p = subprocess.run([sys.executable, os.path.join(V, "tools", "mutant.py"), "--patch", os.path.join(d, "patch.diff"),
                            "--property", prop], stdout=subprocess.PIPE, stderr=subprocess.STDOUT, text=True)
        lines = [l for l in p.stdout.splitlines() if "conda" not in l]
        m = re.search(r"(\d+) violation\(s\)", p.stdout)
        rans.append({"cmd": "tools/check.py --property %s --tier quick (against the changed tree, final re-check)" % prop,
                     "rc": p.returncode, "violations": int(m.group(1)) if m else None, "tail": lines[-3:],
                     "first_explanations": [l.strip()[:300] for l in lines if l.startswith("  event")][:2],
                     "when": time.strftime("%Y-%m-%d %H:%M:%S"), "seconds": round(time.time() - t0)})
        if p.returncode == 1:
            caught = True
    meta["ran"] = [r for r in meta["ran"] if not r["cmd"].startswith("tools/check.py")] + rans
    meta["caught_by_check"] = caught
    with open(os.path.join(d, "meta.json"), "w") as f:
        json.dump(meta, f, indent=1)
        f.write("\n")
    print(i, "caught" if caught else "NOT CAUGHT", [r["rc"] for r in rans], flush=True)
    return i, caught


with ThreadPoolExecutor(max_workers=jobs) as ex:
    res = list(ex.map(one, ids))
print("not caught:", [i for i, c in res if not c])
