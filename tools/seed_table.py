#!/usr/bin/env python3
"""Generate seeded/README.md from seeded/*/meta.json."""
import glob, json, os
V = os.path.dirname(os.path.dirname(os.path.abspath(__file__)))
rows = []
DESC = json.load(open(os.path.join(V, "seeded", "descriptions.json")))
FIRST = json.load(open(os.path.join(V, "seeded", "first_eval.json")))   # rounds 3 and 4: verdict of the check as it was when the change arrived
for f in sorted(glob.glob(os.path.join(V, "seeded", "*", "meta.json"))):
    m = json.load(open(f))
    if DESC.get(m["id"]) and m.get("needs_to_manifest") != DESC[m["id"]]:
        m["needs_to_manifest"] = DESC[m["id"]]
        json.dump(m, open(f, "w"), indent=1)
    chk = [r for r in m["ran"] if r["cmd"].startswith("tools/check.py")]
    rows.append((m["id"], ",".join(m["breaks_property"]), m.get("summary", m.get("needs_to_manifest", "")),
                 "yes" if m.get("ok") else "NO", FIRST.get(m["id"], "see DESIGN.md 12.7"),
                 "yes" if m.get("caught_by_check") else "NO",
                 "; ".join("%s: %s violation(s)" % (r["cmd"].split()[2], r.get("violations")) for r in chk)))
with open(os.path.join(V, "seeded", "README.md"), "w") as out:
    out.write("# Independently written breaking changes (see DESIGN.md 12.4)\n\n")
    out.write("| id | property | what it is / what it needs to manifest | confirmed (demo fails with, passes without; suite green) | first evaluation | caught by the quick check now | detail |\n|---|---|---|---|---|---|---|\n")
    for r in rows:
        out.write("| %s | %s | %s | %s | %s | %s | %s |\n" % r)
print(len(rows), "seeds")
