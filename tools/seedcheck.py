#!/usr/bin/env python3
"""Confirm an independently written breaking change and run our checks against it.

  tools/seedcheck.py --id C08_1 --property C08 --diff /tmp/seed/C08_1.diff --demo /tmp/seed/C08_1_demo.rs
                     [--needs "text"] [--skip-suite]

Steps (all in a scratch worktree of /repo HEAD under /tmp, removed afterwards):
  1. demo passes on the unchanged tree           (cargo test --offline --test seeded_demo)
  2. patch applies; demo FAILS with the change
  3. the repository's own test suite still passes with the change (cargo test --offline, demo excluded)
  4. tools/check.py --tier quick for the property (via a scratch harness copy): must exit 1
Writes /verif/seeded/<id>/{patch.diff, demo.rs, meta.json}. Exit 0 iff all of 1-4 hold.
"""
import argparse
import json
import os
import shutil
import subprocess
import sys
import tempfile
import time

VERIF = os.path.dirname(os.path.dirname(os.path.abspath(__file__)))


def sh(cmd, cwd, env=None, timeout=3600):
    p = subprocess.run(cmd, shell=True, cwd=cwd, stdout=subprocess.PIPE, stderr=subprocess.STDOUT, text=True,
                       env=env, timeout=timeout)
    return p.returncode, p.stdout


def summary(out):
    return [l.strip() for l in out.splitlines() if l.startswith("test result:")]


def main():
    ap = argparse.ArgumentParser()
    ap.add_argument("--id", required=True)
    ap.add_argument("--property", required=True, action="append")
    ap.add_argument("--diff", required=True)
    ap.add_argument("--demo", required=True)
    ap.add_argument("--needs", default="")
    ap.add_argument("--skip-suite", action="store_true")
    ap.add_argument("--tier", default="quick")
    a = ap.parse_args()
    base = tempfile.mkdtemp(prefix="vseed-", dir="/tmp")
    repo = os.path.join(base, "repo")
    har = os.path.join(base, "harness")
    meta = {"id": a.id, "breaks_property": a.property, "needs_to_manifest": a.needs, "ran": [], "ok": False,
            "when": time.strftime("%Y-%m-%d %H:%M:%S")}
    env = dict(os.environ)
    env["CARGO_NET_OFFLINE"] = "true"
    try:
        subprocess.run(["git", "-C", "/repo", "worktree", "add", "--detach", "-f", repo, "HEAD"], check=True,
                       stdout=subprocess.DEVNULL, stderr=subprocess.DEVNULL)
        meta["repo_head"] = subprocess.run(["git", "-C", "/repo", "rev-parse", "--short", "HEAD"],
                                           stdout=subprocess.PIPE, text=True).stdout.strip()
        shutil.copy(a.demo, os.path.join(repo, "tests", "seeded_demo.rs"))
        # 1. demo on the unchanged tree
        rc, out = sh("cargo test --offline --test seeded_demo", repo, env)
        meta["ran"].append({"cmd": "cargo test --offline --test seeded_demo (unchanged tree)", "rc": rc,
                            "summary": summary(out)})
        demo_clean_ok = rc == 0
        # 2. with the change
        rc, out = sh("git apply %s" % os.path.abspath(a.diff), repo)
        if rc != 0:
            meta["error"] = "patch does not apply: " + out[-300:]
            return finish(a, meta, 1)
        rc, out = sh("cargo test --offline --test seeded_demo", repo, env)
        meta["ran"].append({"cmd": "cargo test --offline --test seeded_demo (with the change)", "rc": rc,
                            "summary": summary(out)})
        demo_fails = rc != 0 and any("FAILED" in s or "failed" in s for s in summary(out))
        # 3. the repository's suite (without the demo file)
        suite_ok = True
        if not a.skip_suite:
            os.rename(os.path.join(repo, "tests", "seeded_demo.rs"), os.path.join(base, "seeded_demo.rs"))
            rc, out = sh("cargo test --workspace --no-fail-fast --offline", repo, env, timeout=5400)
            meta["ran"].append({"cmd": "cargo test --workspace --no-fail-fast --offline (with the change)", "rc": rc,
                                "summary": summary(out)})
            suite_ok = rc == 0
        # 4. our checks
        shutil.copytree(os.path.join(VERIF, "harness"), har, ignore=shutil.ignore_patterns("target"))
        ct = os.path.join(har, "Cargo.toml")
        txt = open(ct).read().replace('path = "/repo"', 'path = "%s"' % repo)
        open(ct, "w").write(txt)
        env2 = dict(env)
        env2["VERIF_HARNESS_DIR"] = har
        env2["VERIF_SCRATCH"] = "1"
        caught = False
        for prop in a.property:
            rc, out = sh("%s %s --property %s --tier %s --skip-mc" %
                         (sys.executable, os.path.join(VERIF, "tools", "check.py"), prop, a.tier), VERIF, env2)
            lines = [l for l in out.splitlines() if "conda" not in l]
            viol = [l for l in lines if l.startswith("VIOLATION")]
            meta["ran"].append({"cmd": "tools/check.py --property %s --tier %s (against the changed tree)" %
                                       (prop, a.tier), "rc": rc, "violations": len(viol),
                                "tail": lines[-3:], "first_explanations":
                                    [l.strip()[:300] for l in lines if l.startswith("  event")][:2]})
            if rc == 1:
                caught = True
        meta["demo_passes_unchanged"] = demo_clean_ok
        meta["demo_fails_with_change"] = demo_fails
        meta["suite_green_with_change"] = suite_ok
        meta["caught_by_check"] = caught
        meta["ok"] = demo_clean_ok and demo_fails and suite_ok
        return finish(a, meta, 0 if (meta["ok"] and caught) else 1)
    finally:
        subprocess.run(["git", "-C", "/repo", "worktree", "remove", "--force", repo],
                       stdout=subprocess.DEVNULL, stderr=subprocess.DEVNULL)
        shutil.rmtree(base, ignore_errors=True)
        subprocess.run(["git", "-C", "/repo", "worktree", "prune"])


def finish(a, meta, rc):
    d = os.path.join(VERIF, "seeded", a.id)
    os.makedirs(d, exist_ok=True)
    old = os.path.join(d, "meta.json")
    if a.skip_suite and os.path.exists(old):
        # re-evaluation of a seed that was already confirmed: keep the recorded suite run
        prev = json.load(open(old))
        kept = [r for r in prev.get("ran", []) if r["cmd"].startswith("cargo test --workspace")]
        meta["ran"] = meta["ran"][:2] + kept + meta["ran"][2:]
        meta["suite_green_with_change"] = prev.get("suite_green_with_change", False)
        meta["ok"] = bool(meta.get("demo_passes_unchanged") and meta.get("demo_fails_with_change")
                          and meta["suite_green_with_change"])
        meta["needs_to_manifest"] = prev.get("needs_to_manifest", "")
    if os.path.abspath(a.diff) != os.path.join(d, "patch.diff"):
        shutil.copy(a.diff, os.path.join(d, "patch.diff"))
        shutil.copy(a.demo, os.path.join(d, "demo.rs"))
    with open(os.path.join(d, "meta.json"), "w") as f:
        json.dump(meta, f, indent=1)
        f.write("\n")
    print("%s: confirmed=%s caught=%s" % (a.id, meta.get("ok"), meta.get("caught_by_check")))
    return rc


if __name__ == "__main__":
    sys.exit(main())
