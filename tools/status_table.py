#!/usr/bin/env python3
"""Print the table of DESIGN.md 12.1 from evidence/*.json (numbers of the last quick run in /verif)."""
import glob, json, os
V = os.path.dirname(os.path.dirname(os.path.abspath(__file__)))
print("| id | MC runs (module: distinct states) | driver families (runs / events validated) | required obligations reached | drift events | wall s |")
print("|---|---|---|---|---|---|")
for f in sorted(glob.glob(os.path.join(V, "evidence", "C*.json"))):
    e = json.load(open(f)); c = e["coverage"]
    mc = "; ".join("%s[%s]: %s" % (m["module"], m["cfg"].replace(m["module"], "").replace(".cfg", "") or "-", "{:,}".format(m["distinct_states"]).replace(",", " "))
                   for m in c.get("mc_runs", []))
    fam = "; ".join("%s %s / %s" % (x["fam"], x["runs"], x["events"]) for x in c.get("families", []))
    print("| %s | %s | %s | %d | %s | %s |" % (e["property_id"], mc, fam, len(c.get("obligations_reached", {})),
                                            c.get("machine_layer_drift_events", 0), e.get("wall_s")))
