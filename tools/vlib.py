"""Shared machinery of /verif/tools/check.py.

Pipeline of one check (DESIGN.md sec. 2.1):
  build harness -> MC runs (TLC on the machine layer) -> spec->impl behaviours
  (optional) -> drivers (real code, write-ahead log) -> assemble runs ->
  TLC trace validation -> classify (known finding / VIOLATION) -> evidence.

Exit codes: 0 property held on everything explored (KNOWN-FINDING lines allowed),
            1 VIOLATION (line printed, replay file written),
            2 tool error (spec inconsistent, TLC crash, build failure, timeout of
              the machinery itself) -- never a statement about rust-bio.
"""
import hashlib
import json
import os
import re
import shutil
import subprocess
import sys
import time

VERIF = os.path.dirname(os.path.dirname(os.path.abspath(__file__)))
SPEC = os.path.join(VERIF, "spec")
HARNESS = os.environ.get("VERIF_HARNESS_DIR") or os.path.join(VERIF, "harness")
TLA_JAR = "/opt/veriftools/tla/tla2tools.jar:/opt/veriftools/tla/CommunityModules-deps.jar"
NCPU = os.cpu_count() or 4


class ToolError(Exception):
    pass


def log(msg):
    print("[check] " + msg, flush=True)


def build_harness(fams):
    """Build only the binaries of the families this check drives (src/bin/<fam>.rs)."""
    t0 = time.time()
    env = dict(os.environ)
    env["CARGO_NET_OFFLINE"] = "true"
    # two builds of every driver: "release" with overflow checks and debug assertions on (the repository's
    # test profile), and "plain" without them (what a downstream user runs); see PROFILE below
    for prof in ([["--release"], ["--profile", "plain"]] if PROFILE == "mixed" else
                 [["--release"]] if PROFILE == "checked" else [["--profile", "plain"]]):
        cmd = ["cargo", "build"] + prof + ["--offline", "--quiet"]
        for f in fams:
            cmd += ["--bin", f]
        for attempt in (1, 2):
            p = subprocess.run(cmd, cwd=HARNESS,
                               stdout=subprocess.PIPE, stderr=subprocess.STDOUT, text=True, env=env)
            if p.returncode == 0 or attempt == 2:
                break
            # a build killed by memory pressure or a stale lock is retried once; a tree that does not compile fails twice
            time.sleep(5)
        if p.returncode != 0:
            sys.stdout.write(p.stdout[-6000:])
            raise ToolError("harness build failed (does /repo still compile?)")
    log("harness built in %.1fs" % (time.time() - t0))


def java_cmd(xmx="4g", xss="512m", deque=False):
    cmd = ["java", "-XX:+UseParallelGC", "-Xmx" + xmx, "-Xss" + xss]
    if deque:
        cmd.append("-Dtlc2.tool.queue.IStateQueue=StateDeque")
    cmd += ["-cp", TLA_JAR, "tlc2.TLC"]
    return cmd


STATE_RE = re.compile(r"(\d+) states generated, (\d+) distinct states found, (\d+) states left on queue")


def run_tlc(module, cfg, workdir, workers=8, timeout=900, env_extra=None, extra_args=None,
            xmx="6g", xss="512m", cont=False):
    """Run TLC; returns dict(rc, out, generated, distinct, wall)."""
    os.makedirs(workdir, exist_ok=True)
    md = os.path.join(workdir, "md-" + os.path.basename(module) + "-" + str(os.getpid()) + "-" + str(time.time_ns() % 10**9))
    cmd = java_cmd(xmx=xmx, xss=xss)
    cmd.insert(1, "-Djava.io.tmpdir=" + workdir)      # TLC unpacks modules into a temp dir per run
    cmd += ["-workers", str(workers), "-metadir", md, "-cleanup",
                                        "-noGenerateSpecTE", "-config", cfg]
    if cont:
        cmd.append("-continue")
    if extra_args:
        cmd += extra_args
    cmd.append(module)
    env = dict(os.environ)
    if env_extra:
        env.update(env_extra)
    t0 = time.time()
    try:
        p = subprocess.run(cmd, cwd=SPEC, stdout=subprocess.PIPE, stderr=subprocess.STDOUT,
                           text=True, env=env, timeout=timeout)
        out, rc = p.stdout, p.returncode
    except subprocess.TimeoutExpired as e:
        out = (e.stdout or b"").decode() if isinstance(e.stdout, bytes) else (e.stdout or "")
        rc = -9
    shutil.rmtree(md, ignore_errors=True)
    gen = dist = None
    for m in STATE_RE.finditer(out):
        gen, dist = int(m.group(1)), int(m.group(2))
    return {"rc": rc, "out": out, "generated": gen, "distinct": dist, "wall": time.time() - t0}


def mc_run(spec, workdir):
    """spec: dict(module, cfg, [workers, timeout, env, args]). Success = TLC exit 0."""
    module = os.path.join(SPEC, spec["module"] + ".tla")
    cfg = os.path.join(SPEC, spec["cfg"])
    r = run_tlc(module, cfg, workdir, workers=spec.get("workers", NCPU), timeout=spec.get("timeout", 900),
                env_extra=spec.get("env"), extra_args=spec.get("args"), xmx=spec.get("xmx", "8g"))
    if r["rc"] != 0 or r["distinct"] is None:
        sys.stdout.write(r["out"][-5000:])
        raise ToolError("MC run %s/%s failed (rc=%s): the specification is inconsistent or TLC broke; "
                        "this says nothing about rust-bio" % (spec["module"], spec["cfg"], r["rc"]))
    log("MC %s [%s]: %d distinct states, %d generated, %.1fs" %
        (spec["module"], spec["cfg"], r["distinct"], r["generated"], r["wall"]))
    return r


BEH_RE = re.compile(r'^<<"BEH", (".*")>>$', re.M)


def emit_behaviours(module, cfg, workdir, outfile, workers=None, timeout=1500, xmx="8g"):
    """spec -> impl: run TLC on a generation config whose invariant prints one line
    <<"BEH", ToJson(...)>> per behaviour; write them as ndjson. Returns (count, mc description)."""
    r = run_tlc(os.path.join(SPEC, module + ".tla"), os.path.join(SPEC, cfg), workdir,
                workers=workers or NCPU, timeout=timeout, xmx=xmx)
    if r["rc"] != 0 or r["distinct"] is None:
        sys.stdout.write(r["out"][-5000:])
        raise ToolError("behaviour generation %s/%s failed (rc=%s)" % (module, cfg, r["rc"]))
    n = 0
    seen = set()
    with open(outfile, "w") as f:
        for m in BEH_RE.finditer(r["out"]):
            s = json.loads(m.group(1))  # TLA+ string literal -> JSON text
            if s in seen:
                continue
            seen.add(s)
            f.write(s + "\n")
            n += 1
    log("spec->impl %s [%s]: %d behaviours from %d distinct states, %.1fs" %
        (module, cfg, n, r["distinct"], r["wall"]))
    desc = {"module": module, "cfg": cfg, "distinct_states": r["distinct"], "states_generated": r["generated"],
            "wall_s": round(r["wall"], 1), "behaviours_emitted": n}
    return n, desc


# --------------------------------------------------------------------------- drivers

PROFILE = os.environ.get("VERIF_PROFILE", "mixed")
DEATHS = []   # driver processes that died outside any run (filled by run_driver_shard)


def run_driver_shard(fam, tier, seed, shard, nshards, outbase, extra, max_restarts=4, budget=0, prof="release"):
    """Run one shard; restart behind a crash/hang. Returns list of log files."""
    files = []
    skip = 0
    for attempt in range(max_restarts + 1):
        out = "%s.%d.log" % (outbase, attempt)
        cmd = [os.path.join(HARNESS, "target", prof, fam), "--tier", tier, "--seed", str(seed), "--shard", "%d/%d" % (shard, nshards),
               "--out", out, "--skip", str(skip)]
        if budget:
            cmd += ["--budget", str(budget)]
        cmd += extra
        p = subprocess.run(cmd, stdout=subprocess.PIPE, stderr=subprocess.STDOUT, text=True)
        files.append(out)
        if p.returncode == 0:
            return files
        if p.returncode == 2:
            sys.stdout.write(p.stdout[-3000:])
            raise ToolError("driver %s usage/tool error" % fam)
        # crashed/hung inside a call: count the runs begun so far and continue behind them
        nruns = 0
        last_tag = b""
        with open(out, "rb") as f:
            for line in f:
                if line.startswith(b"R\t"):
                    nruns += 1
                if line.endswith(b"\n"):
                    last_tag = line[:1]
        if nruns and last_tag != b"C":
            # the process died OUTSIDE a logged call (a constructor or accessor of the code under test that a
            # driver calls directly, or a fault of the driver itself): nothing is pending in the log, so the
            # death would go unnoticed -- leave a pending pseudo call behind, which no specification explains
            with open(out, "ab") as f:
                f.write(b'C\t{"op":"died_outside_a_logged_call","a":{}}\n')
        log("driver %s shard %d died (rc=%s) in run #%d of this attempt; restarting behind it" %
            (fam, shard, p.returncode, nruns))
        if nruns == 0:
            # died before it began a run (code under test called while the driver prepares its cases, e.g. a
            # constructor): there is no run to attach the death to, so it is reported as a finding of its own;
            # the rest of this shard is abandoned
            DEATHS.append({"family": fam, "shard": shard, "attempt": attempt, "rc": p.returncode,
                           "cmd": " ".join(cmd), "output_tail": p.stdout[-600:]})
            return files
        skip += nruns
    # the code under test keeps dying: every death left a dangling call (= a violation to report);
    # the rest of this shard is abandoned
    log("driver %s shard %d: giving up after %d restarts (the dangling calls are reported)" %
        (fam, shard, max_restarts))
    return files


def run_drivers(fam, tier, seed, workdir, extra=None, nshards=None, budget=0):
    from concurrent.futures import ThreadPoolExecutor
    nshards = nshards or NCPU
    extra = extra or []
    t0 = time.time()
    # every shard runs in the build with overflow checks and debug assertions ("release" profile of the harness);
    # every fourth shard (shifted by the seed) runs a second time in the build without them ("plain": what a
    # downstream user gets), so that a side effect inside debug_assert! or a silently wrapping overflow shows.
    # VERIF_PROFILE=checked|plain pins one build for all shards.
    if PROFILE == "checked":
        jobs = [(s, "release") for s in range(nshards)]
    elif PROFILE == "plain":
        jobs = [(s, "plain") for s in range(nshards)]
    else:
        jobs = [(s, "release") for s in range(nshards)] + \
               [(s, "plain") for s in range(nshards) if (s + int(seed)) % 4 == 1 or nshards < 4]
    with ThreadPoolExecutor(max_workers=NCPU) as ex:
        futs = [ex.submit(run_driver_shard, fam, tier, seed, s, nshards,
                          os.path.join(workdir, "%s-%d-%s" % (fam, s, prof)), extra, 4, budget, prof)
                for (s, prof) in jobs]
        files = []
        for f in futs:
            files += f.result()
    log("drivers %s: %d shard(s) in %.1fs" % (fam, nshards, time.time() - t0))
    return files


def assemble(logfiles):
    """Turn write-ahead logs into runs. Returns (runs, obligations) where a run is
    dict(hdr=<json text>, id, events=[json text], dangling=bool)."""
    runs = []
    obligations = {}
    for lf in logfiles:
        cur = None
        pending = None
        with open(lf, "r") as f:
            for line in f:
                if not line.endswith("\n"):
                    continue  # torn last line of a killed process
                tag, _, body = line.partition("\t")
                body = body.rstrip("\n")
                if tag == "R":
                    if cur is not None and pending is not None:
                        cur["events"].append('{"c":%s,"r":{"st":"dangling"}}' % pending)
                        cur["dangling"] = True
                    pending = None
                    cur = {"hdr": body, "events": [], "dangling": False}
                    runs.append(cur)
                elif tag == "C":
                    pending = body
                elif tag == "E":
                    cur["events"].append('{"c":%s,"r":%s}' % (pending, body))
                    pending = None
                elif tag == "O":
                    obligations[body] = obligations.get(body, 0) + 1
        if cur is not None and pending is not None:
            cur["events"].append('{"c":%s,"r":{"st":"dangling"}}' % pending)
            cur["dangling"] = True
    return runs, obligations


def run_json(r):
    return r["hdr"][:-1] + ',"ev":[' + ",".join(r["events"]) + "]}"


REJ_RE = re.compile(r'<<"REJECT", (\d+), (\d+)>>')
DRIFT_RE = re.compile(r'<<"DRIFT", (\d+), (\d+)>>')


def validate_runs(runs, trace_module, workdir, nfiles=None, timeout=1800, workers_per=None, xmx="6g",
                  env_extra=None, cfg=None):
    """Validate runs with TLC. Returns (rejected [(run, idx)], stats)."""
    from concurrent.futures import ThreadPoolExecutor
    if not runs:
        return [], {"distinct": 0, "generated": 0, "wall": 0.0, "expected_states": 0, "drift": []}
    total_ev = sum(len(r["events"]) for r in runs)
    if nfiles is None:
        nfiles = 1 if total_ev < 4000 else (2 if total_ev < 20000 else 4)
    nfiles = max(1, min(nfiles, len(runs)))
    workers_per = workers_per or max(1, NCPU // nfiles)
    # balance by event count
    order = sorted(range(len(runs)), key=lambda i: -len(runs[i]["events"]))
    buckets = [[] for _ in range(nfiles)]
    loads = [0] * nfiles
    for i in order:
        b = loads.index(min(loads))
        buckets[b].append(i)
        loads[b] += len(runs[i]["events"]) + 1
    module = os.path.join(SPEC, trace_module + ".tla")
    cfgp = os.path.join(SPEC, cfg or (trace_module + ".cfg"))
    jobs = []
    for b, idxs in enumerate(buckets):
        path = os.path.join(workdir, "%s-%d.ndjson" % (trace_module, b))
        with open(path, "w") as f:
            for i in idxs:
                f.write(run_json(runs[i]))
                f.write("\n")
        jobs.append((b, idxs, path))

    def one(job):
        b, idxs, path = job
        env = {"TRACE": path}
        if env_extra:
            env.update(env_extra)
        r = run_tlc(module, cfgp, workdir, workers=workers_per, timeout=timeout, env_extra=env, xmx=xmx)
        return job, r

    t0 = time.time()
    rejected = []
    drift = []
    distinct = generated = 0
    expected = 0
    with ThreadPoolExecutor(max_workers=nfiles) as ex:
        for (b, idxs, path), r in ex.map(one, jobs):
            if r["rc"] != 0 or r["distinct"] is None:
                sys.stdout.write(r["out"][-6000:])
                raise ToolError("trace validation %s failed to run (rc=%s) on %s" % (trace_module, r["rc"], path))
            rej_here = {}
            for m in REJ_RE.finditer(r["out"]):
                k = int(m.group(1))
                rej_here[k] = int(m.group(2))
            for m in DRIFT_RE.finditer(r["out"]):
                drift.append((idxs[int(m.group(1)) - 1], int(m.group(2))))
            exp = 0
            for pos, i in enumerate(idxs):
                n = len(runs[i]["events"])
                if (pos + 1) in rej_here:
                    exp += rej_here[pos + 1] + 1
                    rejected.append((i, rej_here[pos + 1]))
                else:
                    exp += n + 1
            # completeness of consumption: one state per consumed event plus the initial one
            if r["distinct"] != exp:
                sys.stdout.write(r["out"][-3000:])
                raise ToolError("trace validation %s: %d distinct states, expected %d (events not all consumed)" %
                                (trace_module, r["distinct"], exp))
            distinct += r["distinct"]
            generated += r["generated"]
            expected += exp
    log("validated %d runs / %d events against %s in %.1fs: %d rejected" %
        (len(runs), total_ev, trace_module, time.time() - t0, len(rejected)))
    return rejected, {"distinct": distinct, "generated": generated, "wall": time.time() - t0,
                      "expected_states": expected, "drift": sorted(set(drift))}


# ------------------------------------------------------------------ known findings

def load_known():
    path = os.path.join(VERIF, "known_findings.txt")
    out = []
    if os.path.exists(path):
        with open(path) as f:
            for line in f:
                line = line.strip()
                if line.startswith("open:"):
                    k = json.loads(line[5:].strip())
                    k["status"] = "open"
                    out.append(k)
    return out


def match_known(known, prop, run, ev_index):
    """A finding matches when its python predicate over (cfg, ev, op, r, a, events) holds
    for the rejected event. Only status=open entries suppress."""
    hdr = json.loads(run["hdr"])
    ev = json.loads(run["events"][ev_index - 1])
    envd = {"cfg": hdr.get("cfg"), "fam": hdr.get("fam"), "ev": ev, "op": ev["c"]["op"], "a": ev["c"].get("a"),
            "r": ev["r"], "idx": ev_index, "len": len, "all": all, "any": any, "max": max, "min": min,
            "events": [json.loads(e) for e in run["events"]]}
    for k in known:
        if k.get("property") != prop or k.get("status") != "open":
            continue
        try:
            if k.get("fam") and k["fam"] != hdr.get("fam"):
                continue
            if eval(k["where"], {"__builtins__": {}}, envd):
                return k
        except Exception:
            continue
    return None


SCRATCH = bool(os.environ.get("VERIF_SCRATCH"))  # mutant runs: never touch evidence/ or replays/


def write_replay(prop, run, ev_index, why):
    if SCRATCH:
        return "/dev/null"
    os.makedirs(os.path.join(VERIF, "replays"), exist_ok=True)
    body = run_json(run)
    h = hashlib.sha1((body + str(ev_index)).encode()).hexdigest()[:12]
    path = os.path.join(VERIF, "replays", "%s-%s.json" % (prop, h))
    doc = {"property": prop, "rejected_event_index": ev_index, "why": why,
           "run": json.loads(body)}
    with open(path, "w") as f:
        json.dump(doc, f)
        f.write("\n")
    return path


def write_evidence(prop, tier, seed, coverage, wall, violations, assumptions):
    if SCRATCH:
        return None
    os.makedirs(os.path.join(VERIF, "evidence"), exist_ok=True)
    doc = {"property_id": prop, "tier": tier, "seed": seed, "level": "model_checking",
           "coverage": coverage, "assumptions": assumptions, "wall_s": round(wall, 2),
           "violations": violations}
    path = os.path.join(VERIF, "evidence", prop + ".json")
    tmp = path + ".tmp"
    with open(tmp, "w") as f:
        json.dump(doc, f, indent=1)
        f.write("\n")
    os.replace(tmp, path)
    return path
